TEXTS = {
    "C20": dict(
        engine="inprocess-rapid",
        technique="property-based testing (rapid): reference-model oracle for the 4-step fallback, independent parser round-trip for query/parameter strings, reference renderer for templated payloads; exhaustive 16-pattern enumeration; native go fuzzing of the parsers (thorough)",
        level_text="Generated-input search: tens of thousands of generated configurations/strings per run are compared with an independent reference (first-existing-candidate model, hand-written parser, mini template renderer) on both a YAML file backend and a simulated Consul KV; the 16 existence patterns are enumerated completely for fixed name tuples. Exploration is the right level: the property quantifies over unbounded input strings and store contents, which sampling plus exhaustive small-scope enumeration covers well but cannot exhaust.",
        level_note="Trusts: the simulated Consul KV behaves like Consul for GET/PUT/keys/recurse; pongo2 rendering of plain {{var}} / {% include %} as modelled; inputs with empty inner entry segments are outside the oracle.",
    ),
    "C12": dict(
        engine="inprocess-rapid",
        technique="property-based testing (rapid): generated command sets and per-target behaviours/arrival orders against the real CommandQueue+Servent with an injected send function; token-based attribution oracle (each reply carries a unique token)",
        level_text="Generated-schedule search over the exported controlcommands API: ~2000 (quick) / 40000 (thorough) generated command sets with abnormal peers (send failure, silence, duplicates, late, unknown/foreign ids and senders), in production shape (one queue) and stress shape (several queues on one servent). The oracle is exact on attribution (own token or error per target, exactly one completion). Exploration level: arrival orders are drawn, goroutine scheduling inside the queue is not owned.",
        level_note="Trusts real-time sleeps for arrival order (margins >= 100 ms, every verdict confirmed by a second execution); replies are delivered in their own goroutine exactly as core/task/scheduler.go does.",
    ),
    "C19": dict(
        engine="inprocess-rapid",
        technique="property-based testing (rapid): generated concurrent producer bursts and scripted broker latencies/holds against the real KafkaWriter (write function injected through overlay hook H1); history invariant over the batches handed to the broker (permutation, per-producer order, batch bound, keys, flush at Close)",
        level_text="Generated-schedule search: hundreds (quick) to ~10000 (thorough, plus a -race pass) generated producer/broker/shutdown scripts are executed against the real writer and FIFO; the oracle decodes every message handed to the broker and checks exactly-once, order, batch bound, partition keys, non-blocking producers and flush-on-Close. Exploration level because goroutine interleavings inside the writer are sampled, not enumerated.",
        level_note="Trusts: hook H1 constructs the writer like NewWriterWithTopic (same struct literal, both loops); the Kafka client itself is outside the check.",
    ),
    "C11": dict(
        engine="inprocess-rapid",
        technique="property-based testing (rapid): generated role trees and leaf-update histories (sequential and concurrent) against an independent fold written from the statement, compared on every node after every step; metamorphic permutation of children and arrival order; exhaustive enumeration of the State.X/Status.X algebra",
        level_text="Generated-history search with a reference model: thousands of generated trees x update sequences, every node compared with the fold after each step; concurrent batches compared at quiescence (and under -race in the thorough tier); the finite state/status algebra is enumerated completely. Exploration level: tree shapes and histories are unbounded, interleavings of concurrent updates are sampled.",
        level_note="Trusts overlay hook H2 to build the tree like workflow.Load does before template processing; leaf values restricted to those the task manager sends.",
    ),
    "C16": dict(
        engine="inprocess-exhaustive",
        technique="exhaustive fault enumeration (depth-first over every outcome of every device step actually issued) through the real RpcClient/transitioner over loopback gRPC against a simulated OCC device; oracle = image of the simulated device's real state, success-implies-destination, rollback-to-source",
        level_text="Fault enumeration, complete for the stated space: every (mode, event, valid source, real device state incl. wrong sources) root and every assignment of the 6 step outcomes to the steps the transitioner issues is executed against the real client code (doTransition acceptance rule included) and compared with the simulated device's true state. The space is finite and small, so it is enumerated rather than sampled.",
        level_note="Trusts the device simulation (written from occ/plugin/OccFMQCommon.cxx and the FairMQ state table); 'unknown' reports are accepted only in the three situations listed in the assumptions.",
    ),
    "C07": dict(
        engine="inprocess-rapid",
        technique="property-based testing (rapid) with a harness-owned schedule: every Consul KV request on the run counter is held by the simulated Consul and served in a generated order with generated faults (CAS refusal, dropped/cut connections, foreign writers); invariant over the recorded call history (uniqueness, real-time monotonicity, every number backed by an applied CAS)",
        level_text="Generated-schedule search where the interleaving of the read and compare-and-set steps of all callers is chosen by the generator, not by the Go scheduler: thousands of schedules per run including crash points before/after the CAS is applied and foreign writers. Exploration level: the schedule space is unbounded in callers and steps; it is sampled with shrinking to minimal interleavings.",
        level_note="Trusts the simulated Consul's cas= semantics; the whole-core part (START_ACTIVITY cancelled when no number can be obtained) is covered by the simworld checks, not here.",
    ),
    "C05": dict(
        engine="inprocess-rapid + simworld",
        technique="property-based testing (rapid): reference implementations for constraint merge/satisfaction, port-expression round trip, offer/wants set arithmetic; native go fuzzing of the port expression parser; end-to-end placement check joins ACCEPT/DECLINE calls at the simulated Mesos master with the offers it sent",
        level_text="Generated-input search against independent references for every pure placement predicate (tens of thousands of cases per run) plus generated whole-core deployments whose ACCEPT/DECLINE calls are checked against the offers. Exploration level: the input space (offers x descriptors x constraint trees) is unbounded.",
        level_note="Only acceptance of an unsuitable agent/offer counts as a violation; the numeric port thresholds (9000/30000) are not part of the oracle.",
    ),
    "C02": dict(
        engine="simworld",
        technique="property-based testing with fault enumeration (rapid): generated workflow shapes and per-task outcome matrices executed against the whole real core (child process) and a simulated Mesos master/executors; reference model success <=> every critical task ok; destination-never-reported checked on replies, polled listings and forwarded events",
        level_text="Fault enumeration by generated outcome matrices over the real task manager, command queue, scheduler and environment state machine, driven through the public gRPC API: ~150 histories per quick run, thousands in the thorough tier, plus a slow shard for silent/dying tasks (90-120 s compiled-in timeouts). The oracle is a reference model written from the property statement. The space of shapes x outcome assignments is sampled, not exhausted.",
        level_note="Trusts the Mesos/executor simulation (built on mesos-go's own wire types); per-task 'undeliverable' is modelled as silence because a real master accepts MESSAGE calls it cannot deliver; one open known finding (non-critical undeployable task) is excluded by construction and reproduced by a canary.",
    ),
    "C01": dict(
        engine="simworld",
        technique="stateful property-based testing (rapid): generated request histories with concurrent batches (first request parked by a gated probe) against the whole real core; oracle = reference FSM walked over the core's synchronously forwarded transition events joined with probe reports and executor commands (history invariant + serial-execution model)",
        level_text="Generated-history search over the public gRPC API of the real core: ~100 (quick) to ~3700 (thorough) histories with illegal requests, failing transitions, destroy requests and 2-3 concurrent callers whose overlap is forced by the harness. The oracle is independent of the implementation's tables (documented graph, bracket non-overlap, no effects of illegal requests, ERROR after failures, DONE terminal). Exploration level: histories and interleavings are sampled.",
        level_note="Trusts the forwarded event stream as the core's own account of its transitions (hook H3 only installs a writer; events are written synchronously by the code under test); Go-level schedules inside the core are not enumerated.",
    ),
    "C03": dict(
        engine="simworld",
        technique="property-based fault injection (rapid): generated workflow, live state, victim, failure kind and injection instant (including racing with a transition parked by a gated executor reply) against the whole real core; oracle = criticality model over the set of affected tasks, observed through GetEnvironment polling and forwarded run events",
        level_text="Fault enumeration: the complete kind x state x criticality matrix as fixed cases on every run plus generated shapes/instants (~100 quick, ~2000 thorough). The failing component is the real status/failure/device-event path of the task manager, the role tree and the environment watcher. Timing bounds are generous (15 s for a 0.5 s mechanism).",
        level_note="Trusts the simulation's causality rule (a dead task sends nothing more); 'bounded time' = 15 s; two open findings (critical task TASK_FINISHED) are excluded by construction and reproduced by canaries.",
    ),
    "C04": dict(
        engine="simworld",
        technique="stateful property-based testing (rapid): generated multi-environment histories with concurrent callers, slow kill acknowledgements / slow KILL calls / slow executor replies, against the whole real core; invariants over API snapshots (disjoint ownership, disjoint detectors) joined with every KILL/MESSAGE call at the simulated master",
        level_text="Generated-history search with ownership invariants checked after every batch and every master-side call attributed against the ownership at the start of the batch; ~100 histories quick, ~2300 thorough, with task reuse on and off. Exploration level: interleavings are induced by delays and concurrent callers, not enumerated.",
        level_note="Ownership snapshots are read through the public API at quiescence; the seeded change in KillTasks (stale kill list) is not reachable through the API because CreateEnvironment kills every unlocked task before deploying (see DESIGN.md).",
    ),
    "C06": dict(
        engine="simworld",
        technique="property-based fault enumeration (rapid): generated teardown and failing-creation scenarios (state, flags, DESTROY hook sets, pending calls, pre-destroy task/executor faults, refused kills, failure stage) against the whole real core; oracle = residue invariants read through the API, the simulated master's call log, a probe that inspects ownership at the very moment a DESTROY hook runs, and the core's own goroutine dump",
        level_text="Fault enumeration over every destroy source state x flag combination and every creation failure stage as fixed cases on each run, plus generated combinations (~100 quick, ~3000 thorough). Checks the real TeardownEnvironment / DestroyEnvironment / CreateEnvironment cleanup paths end to end.",
        level_note="Whether kept tasks are killed on the server's forced paths and whether every DESTROY hook runs are deliberately not claimed (not in the statement); goroutine leaks are read from net/http/pprof served by simcore.",
    ),
    "C18": dict(
        engine="simworld",
        technique="property-based crash-point / fault injection (rapid): SIGKILL of the real core at generated points of an environment's life followed by a restart against the surviving simulated master and Consul, and generated sequences of dropped subscription streams; oracle over the master's call log (SUBSCRIBE identity, RECONCILE, KILL per surviving task) and the new instance's API",
        level_text="Fault enumeration: every crash point and every reconnect point is run as a fixed case on each run, plus generated combinations (tasks, environments, number of drops). The restart path exercised is the real one: stored framework id, subscription, implicit reconciliation, kill of unknown tasks.",
        level_note="Crash = SIGKILL of the core process (no graceful shutdown); the simulated master's reconciliation answer follows Mesos' implicit reconciliation (one update per non-terminal task).",
    ),
    "C08": dict(
        engine="simworld",
        technique="property-based testing (rapid): generated hook sets (triggers, weights, await points incl. never-reached) over generated walks against the whole real core with the verifprobe plugin; oracle = ordering/await invariants over the joined history of probe reports, the core's transition-step events and executor commands; equal-weight hooks gated until all have started; round-trip property for trigger expressions",
        level_text="Generated-configuration search: ~120 generated hook sets per quick run (~3700 thorough) plus fixed sets, each executed on the real environment state machine and hook machinery; the oracle checks every started call against the documented order, weight and await semantics. Exploration level: the space of hook sets x walks is unbounded.",
        level_note="DESTROY / after_DESTROY hooks are undocumented teardown specials and outside the generator; hook tasks are covered in C09; probe reports of calls awaited later are asynchronous, so their arrival order is not used as start order.",
    ),
    "C09": dict(
        engine="simworld",
        technique="property-based fault enumeration (rapid): generated hook sets with generated failing subsets (call error, call timeout, hook task non-zero exit / involuntary termination / hook timeout; critical or not; alone or simultaneous) on a drawn transition of the whole real core; oracle = model of one transition (first critical failure decides cancel vs. report-only) over probe reports, TriggerHook/transition commands, the core's transition events and API replies; -race core in the thorough tier",
        level_text="Fault enumeration by generated failure assignments: the moment x transition matrix of a single critical failure as fixed cases on every run plus generated sets (~130 quick, ~3600 thorough + 120 under the race detector). Exercises the real handleHooks / AwaitAll / runTasksAsHooks and the simulated executors' hook-task protocol (TriggerHook reply, BASIC_TASK_TERMINATED, final status).",
        level_note="Hook tasks are placed only at moments that occur first in the transition under test (a hook task runs once per environment); later weights of the failing pass at enter_/after_ are not claimed.",
    ),
    "C10": dict(
        engine="simworld",
        technique="stateful property-based testing (rapid): generated start/stop/error/teardown histories over one environment of the whole real core, observed by probe calls at weights -1/+1 of every moment that snapshot the variable stack; oracle = per-run invariants over the ordered snapshots (visibility window of the run number, set-once and ordered timestamps, end timestamps however the run ends, no leakage into the next run) plus forwarded run events",
        level_text="Generated-history search (~120 histories quick, ~3000 thorough, plus fixed histories for every way a run can end and every hook-failure placement) against the real before_event/after_event/leave_state code of the environment and the teardown path; the oracle only uses equality and ordering of the reported values.",
        level_note="Not claimed: disappearance of run_start_time_ms after the run; disappearance of the run number after a run that ended by error or teardown (the statement ties it to after_STOP_ACTIVITY).",
    ),
}
NA_REASONS = {}

TEXTS = {
    "C20": dict(
        engine="inprocess-rapid",
        technique="property-based testing (rapid): reference-model oracle for the 4-step fallback, independent parser round-trip for query/parameter strings, reference renderer for templated payloads; exhaustive 16-pattern enumeration; native go fuzzing of the parsers (thorough)",
        level_text="Generated-input search: tens of thousands of generated configurations/strings per run are compared with an independent reference (first-existing-candidate model, hand-written parser, mini template renderer) on both a YAML file backend and a simulated Consul KV; the 16 existence patterns are enumerated completely for fixed name tuples. Exploration is the right level: the property quantifies over unbounded input strings and store contents, which sampling plus exhaustive small-scope enumeration covers well but cannot exhaust.",
        level_note="Trusts: the simulated Consul KV behaves like Consul for GET/PUT/keys/recurse; pongo2 rendering of plain {{var}} / {% include %} as modelled; inputs with empty inner entry segments are outside the oracle.",
    ),
}
NA_REASONS = {}

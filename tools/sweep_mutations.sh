#!/bin/bash
# sweep_mutations.sh [tier]: run every seeded (/verif/seeded/Cxx/patch.diff) and sensitivity (/verif/sensitivity/Cxx-*.diff)
# change against its property's check and write the table /verif/sensitivity/RESULTS.md.
# Must not run concurrently with anything else that builds from /repo (each patch is applied to /repo and undone).
TIER=${1:-quick}
OUT=/verif/sensitivity/RESULTS.md
TMP=$(mktemp)
echo "| change | property | tier | verdict |" > $TMP
echo "|---|---|---|---|" >> $TMP
for d in /verif/seeded/C??; do
  id=$(basename $d)
  [ -f $d/patch.diff ] || continue
  r=$(/verif/tools/try_patch.sh $d/patch.diff $id $TIER | grep '^RESULT\|PATCH-DOES-NOT-APPLY\|repo dirty' | head -1)
  case "$r" in *"exit=1"*) v="caught";; *"exit=0"*) v="MISSED";; *"exit=2"*) v="inconclusive";; *) v="n/a ($r)";; esac
  echo "| seeded/$id/patch.diff | $id | $TIER | $v |" >> $TMP
  echo "seeded $id: $v"
done
for p in /verif/sensitivity/C??-*.diff; do
  id=$(basename $p | cut -c1-3)
  r=$(/verif/tools/try_patch.sh $p $id $TIER | grep '^RESULT\|PATCH-DOES-NOT-APPLY\|repo dirty' | head -1)
  case "$r" in *"exit=1"*) v="caught";; *"exit=0"*) v="MISSED";; *"exit=2"*) v="inconclusive";; *) v="n/a ($r)";; esac
  echo "| sensitivity/$(basename $p) | $id | $TIER | $v |" >> $TMP
  echo "$(basename $p): $v"
done
mv $TMP $OUT
git -C /repo status --short

#!/bin/bash
# try_patch_wt.sh <patch> <Cxx> [tier] : like try_patch.sh but in a scratch worktree of /repo (VERIF_REPO), so /repo is never
# touched and several mutants can be evaluated at the same time. Everything is removed afterwards.
P=$(readlink -f "$1"); ID=$2; TIER=${3:-quick}
N=$(basename $(dirname $P))-$(basename $P .diff)-$ID-$$
WT=/tmp/mwt/$N; OUT=/tmp/mwt-out/$N
mkdir -p /tmp/mwt /tmp/mwt-out
git -C /repo worktree add -q --detach $WT HEAD || exit 2
( cd $WT && { git apply "$P" 2>/dev/null || git apply -C1 "$P"; } ) || { echo "PATCH-DOES-NOT-APPLY $P"; git -C /repo worktree remove --force $WT; exit 2; }
cd /verif && VERIF_REPO=$WT VERIF_OUT=$OUT VERIF_WORKERS=${VERIF_WORKERS:-16} ./check $ID --tier $TIER > $OUT.log 2>&1; RC=$?
echo "RESULT patch=$(basename $(dirname $P))/$(basename $P) check=$ID tier=$TIER exit=$RC $(grep -c '^VIOLATION' $OUT.log) violation lines"
grep -m2 -A1 '^VIOLATION' $OUT.log | cut -c1-400
[ $RC -eq 2 ] && tail -5 $OUT.log | cut -c1-400
git -C /repo worktree remove --force $WT; [ -n "$KEEP" ] || rm -rf $OUT
exit $RC

#!/bin/bash
# try_patch.sh <patch> <Cxx> [tier]: apply a patch to /repo, run the check, undo the patch. Prints the verdict line.
P=$1; ID=$2; TIER=${3:-quick}
cd /repo || exit 2
git diff --quiet || { echo "repo dirty"; exit 2; }
git apply "$P" 2>/dev/null || git apply -C1 "$P" || { echo "PATCH-DOES-NOT-APPLY $P"; exit 2; }
cd /verif && ./check $ID --tier $TIER > /tmp/try_patch.out 2>&1; RC=$?
git -C /repo checkout -- .
find /verif/replays -type f -delete 2>/dev/null
echo "RESULT patch=$(basename $(dirname $P))/$(basename $P) check=$ID tier=$TIER exit=$RC $(grep -c '^VIOLATION' /tmp/try_patch.out) violation lines"
grep -m2 -A1 '^VIOLATION' /tmp/try_patch.out | cut -c1-300
exit $RC

#!/bin/bash
# run_all.sh <seed> <tier> [parallel]: run every claimed check once; print one line per check. Used to make sure
# every check is silent on the unchanged tree at several seeds and under load.
SEED=${1:-1}; TIER=${2:-quick}; PAR=${3:-1}
cd "$(dirname "$(readlink -f "$0")")/.."
ids=$(python3 -c "import json;print(' '.join(c['property_id'] for c in json.load(open('MANIFEST.json'))['checks']))")
run() { id=$1; VERIF_SEED=$SEED ./check $id --tier $TIER > ${RUNALL_LOGDIR:-/tmp}/runall_${SEED}_${TIER}_$id.log 2>&1; rc=$?; echo "seed=$SEED $id rc=$rc $(grep -c '^VIOLATION' ${RUNALL_LOGDIR:-/tmp}/runall_${SEED}_${TIER}_$id.log) violations | $(tail -1 ${RUNALL_LOGDIR:-/tmp}/runall_${SEED}_${TIER}_$id.log | cut -c1-150) | tw=$(ss -s | sed -n 2p | sed 's/.*timewait //; s/)//')"; }
if [ "$PAR" = 1 ]; then for id in $ids; do run $id; done
else
  for id in $ids; do
    while [ $(jobs -r | wc -l) -ge $PAR ]; do sleep 1; done
    run $id &
  done; wait
fi

#!/bin/bash
# confirm_seeded2.sh <Cxx> <name> : re-verify a second-round seeded change (sub-agent output in /tmp/mutout2/<name>, scratch
# worktree /tmp/mut2/<Cxx>) and store it under /verif/seeded/<name>: the demo passes on the pristine tree, fails with the
# patch, the project builds, the existing suite is unchanged (the 4 known walnut failures ignored).
set -u
ID=$1; NAME=$2
SRC=${MUTOUT:-/tmp/mutout2}/$NAME; WT=/tmp/mut2/$ID
export GOFLAGS=-mod=mod GOPROXY=off GOSUMDB=off GOTOOLCHAIN=local
cd $WT || exit 2
git checkout -q -- . ; git clean -fdq
META=$SRC/meta.json
PKG=$(python3 -c "import json;print(json.load(open('$META'))['demo_pkg'])")
CMD=$(python3 -c "import json;print(json.load(open('$META'))['demo_cmd'])")
for f in $SRC/*_test.go; do cp $f $WT/$PKG/; done
LOG=$SRC/confirm.log; : > $LOG
echo "== demo on pristine" >> $LOG
( cd $WT && bash -c "$CMD" ) >> $LOG 2>&1; P=$?
git apply $SRC/patch.diff || { echo "patch does not apply" >> $LOG; exit 2; }
echo "== build" >> $LOG
go build ./... >> $LOG 2>&1; B=$?
echo "== demo on mutated" >> $LOG
( cd $WT && bash -c "$CMD" ) >> $LOG 2>&1; M=$?
for f in $SRC/*_test.go; do rm -f $WT/$PKG/$(basename $f); done
echo "== suite on mutated" >> $LOG
go test -vet=off -count=1 ./... 2>&1 | grep -v "no test files" > $SRC/suite.log
BADFAILS=$(grep "^FAIL\s" $SRC/suite.log | grep -v "walnut/converter\|walnut/schemata" | wc -l)
git checkout -q -- . ; git clean -fdq
( cd /repo && git apply --check $SRC/patch.diff 2>/dev/null ) && APPLIES=yes || APPLIES=no
echo "RESULT $NAME demo_pristine_rc=$P build_rc=$B demo_mutated_rc=$M suite_unexpected_fails=$BADFAILS applies_to_repo_head=$APPLIES" | tee -a $LOG
if [ $P -eq 0 ] && [ $B -eq 0 ] && [ $M -ne 0 ] && [ $BADFAILS -eq 0 ]; then
  mkdir -p /verif/seeded/$NAME && cp $SRC/patch.diff $SRC/*_test.go $SRC/meta.json /verif/seeded/$NAME/
  python3 - <<PY
import json
m=json.load(open('/verif/seeded/$NAME/meta.json'))
m['confirmed_by_verif']={'demo_pristine':'pass','build':'ok','demo_mutated':'fail','suite':'unchanged (only the 4 pre-existing walnut failures)','applies_to_repo_head':'$APPLIES','command':'tools/confirm_seeded2.sh $ID $NAME'}
json.dump(m,open('/verif/seeded/$NAME/meta.json','w'),indent=1)
PY
  echo CONFIRMED $NAME
else
  echo NOT-CONFIRMED $NAME
fi

#!/usr/bin/env python3
"""Regenerates MANIFEST.json from checks_table.py + manifest_texts.py (keeps it valid at all times)."""
import json, os
from checks_table import CHECKS
from manifest_texts import TEXTS, NA_REASONS

props = [json.loads(l)["id"] for l in open(os.path.join(os.path.dirname(os.path.abspath(__file__)), "properties.jsonl"))]
checks = []
for pid in props:
    if pid not in CHECKS:
        continue
    t = TEXTS[pid]
    c = {
        "property_id": pid,
        "quick_cmd": "./check %s --tier quick" % pid,
        "thorough_cmd": "./check %s --tier thorough" % pid,
        "evidence_file": "/verif/evidence/%s.json" % pid,
        "replay_cmd_template": "./check %s --replay {path}" % pid,
        "engine": t["engine"],
        "level_claimed": {"category": CHECKS[pid]["level"], "text": t["level_text"], "design_ref": "DESIGN.md section 7, " + pid},
        "level_note": t["level_note"],
        "technique": t["technique"],
    }
    checks.append(c)
na = [{"property_id": p, "reason": NA_REASONS.get(p, "check not yet implemented in this revision of /verif (work in progress; no other technique substituted)")}
      for p in props if p not in CHECKS]
m = {
    "version": 1,
    "setup_cmd": "./setup.sh",
    "hooks": {
        "guard": "verif",
        "enable": "go build/test -tags verif -overlay /verif/harness/overlay/overlay.json (hook sources live in /verif/harness/overlay/**.go.src and are injected at build time; nothing is committed to /repo)",
        "baseline_off_cmd": "cd /repo && GOFLAGS=-mod=mod GOPROXY=off GOSUMDB=off go test -vet=off -count=1 -timeout 25m ./...",
        "source_commits": [],
        "add_only": True,
    },
    "engines": [
        {"name": "simworld", "path": "harness/simworld + harness/cmd/simcore", "kind_free_text": "whole core as child process against simulated Mesos master / executors / Consul / workflow repo, driven over gRPC by rapid-generated histories",
         "serves_properties": [p for p in props if p in CHECKS and TEXTS[p]["engine"].startswith("simworld")]},
        {"name": "inprocess-rapid", "path": "harness/props", "kind_free_text": "in-process rapid properties and state machines on exported APIs (+ overlay hooks)",
         "serves_properties": [p for p in props if p in CHECKS and TEXTS[p]["engine"].startswith("inprocess")]},
    ],
    "checks": checks,
    "not_applicable": na,
    "notes": "Technique family: property-based testing and fuzzing (pgregory.net/rapid v1.3.0, native go fuzzing in the thorough tier). ./check is the single driver; exit 2 = inconclusive (build failure / watchdog). Known findings: /verif/known_findings.json.",
}
json.dump(m, open("MANIFEST.json", "w"), indent=1)
print("MANIFEST.json:", len(checks), "checks,", len(na), "not_applicable")

#!/bin/sh
# Offline setup after a fresh restore: warm the Go build cache for the harness (no network needed).
set -e
cd "$(dirname "$0")/harness"
export GOFLAGS=-mod=mod GOPROXY=off GOSUMDB=off GOTOOLCHAIN=local
go build ./vh ./simworld
cd ..
mkdir -p evidence replays .build .work
echo setup ok

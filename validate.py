#!/usr/bin/env python3
# validates MANIFEST.json and evidence/*.json against the schemas (uses the tooling venv's jsonschema)
import json, glob, sys
import jsonschema
ok = True
jsonschema.validate(json.load(open('/verif/MANIFEST.json')), json.load(open('/root/.vp/MANIFEST.schema.json')))
es = json.load(open('/root/.vp/EVIDENCE.schema.json'))
for f in sorted(glob.glob('/verif/evidence/*.json')):
    try:
        jsonschema.validate(json.load(open(f)), es)
    except Exception as e:
        ok = False
        print("INVALID", f, str(e)[:300])
print("valid" if ok else "invalid")
sys.exit(0 if ok else 1)

# Per-property configuration of ./check: package, test runs (regex, rapid checks, shards, watchdog),
# level, non-triviality rule, assumptions. See DESIGN.md section 7 for the reasoning.

def R(run, checks, shards=1, timeout=300, **kw):
    d = dict(run=run, checks=checks, shards=shards, timeout=timeout)
    d.update(kw)
    return d


def FZ(target, seconds, parallel=8):
    return dict(fuzz=dict(target=target, seconds=seconds, parallel=parallel), run="", checks=0, timeout=seconds + 300)


CHECKS = {
    "C20": dict(
        pkg="./props/c20", level="exploration",
        rule=("rapid-generated (component, run type over all enum values, role, entry with sub-paths, existence pattern of the 4 "
              "candidates, noise entries) on a YAML file backend and a simulated Consul KV; generated well-formed / blank-padded / "
              "mutated query and parameter strings against an independent parser; generated entry templates ({{var}}, {% include %}) "
              "against a reference renderer with several variable sets per service. Non-trivial: the exact entry is missing and a "
              "fallback (or nothing) exists; a mutated/blank-padded query or parameter string; a templated entry with an include or a "
              "second call with other variables. Distinct = distinct case digests. All 16 existence patterns are additionally "
              "enumerated for 10 (backend, name tuple) pairs."),
        assumptions=["simulated Consul KV implements GET/PUT/keys/recurse as the consul/api client uses them",
                     "entries with empty inner segments (a//b) are outside the oracle (neither accepted nor rejected)",
                     "template values are restricted to characters that pongo2 autoescape leaves unchanged"],
        quick=[R("^TestResolveExhaustive$", 1, 1, 120), R("^TestResolve$", 1500, 4, 300), R("^TestQueryParse$", 6000, 2, 300),
               R("^TestParams$", 6000, 1, 300), R("^TestProcess$", 1200, 3, 300)],
        thorough=[R("^TestResolveExhaustive$", 1, 1, 120), R("^TestResolve$", 15000, 6, 1500), R("^TestQueryParse$", 100000, 3, 1500),
                  R("^TestParams$", 100000, 2, 1500), R("^TestProcess$", 12000, 5, 1500),
                  FZ("FuzzNewQuery", 150), FZ("FuzzNewQueryParameters", 100)],
        floors={"fallback-used": ("TestResolve", 0.2)},
    ),
    "C12": dict(
        pkg="./props/c12", bins=["./cmd/simcore"], level="exploration",
        rule=("rapid-generated sets of 1-5 control commands (1-6 targets each, response timeouts 150-220 ms) on one command queue "
              "(production shape) or on 2-4 queues sharing one servent (stress: commands in flight at the same time), each target with a "
              "drawn behaviour (reply, error reply, send failure, silence, duplicate, late reply after the timeout, reply with an unknown "
              "command id, reply with the id of another command, reply from a foreign sender) and a drawn arrival slot; every reply carries a "
              "unique token. Oracle: exactly one completion per command within its timeout, one entry per target, own token or an error. "
              "Non-trivial: a multi-target command with >=1 abnormal target, or >=2 commands in flight. Distinct = distinct case digests. "
              "Whole core (TestWholeCoreAttribution): during START_ACTIVITY / RESET of an environment with 1-4 tasks a foreign executor (other agent and "
              "executor id) sends a success reply naming the pending command and one task, 150 ms before that task's own answer (error or success): "
              "the foreign reply neither completes nor alters the command."),
        assumptions=["replies are delivered in their own goroutine, as core/task/scheduler.go does",
                     "real-time timeouts: a verdict is reported only if a second execution of the same case reproduces it"],
        quick=[R("^TestCommandsFixed$", 1, 1, 120), R("^TestCommands$", 150, 14, 400), R("^TestWholeCoreAttributionFixed$", 1, 1, 300), R("^TestWholeCoreAttribution$", 8, 1, 400, shrinktime="30s")],
        thorough=[R("^TestCommandsFixed$", 1, 1, 120), R("^TestCommands$", 2500, 16, 3000), R("^TestWholeCoreAttributionFixed$", 1, 1, 300), R("^TestWholeCoreAttribution$", 150, 2, 3000, shrinktime="60s")],
        floors={"concurrent-commands": ("TestCommands", 0.15), "multi-target": ("TestCommands", 0.5)},
    ),
    "C19": dict(
        pkg="./props/c19", level="exploration",
        rule=("rapid-generated publishing scripts: 1-8 concurrent producers, bursts of 1-3000 events of mixed types (environment, run, role, "
              "call, integrated-service, task) for 1-4 environment/task ids, each payload tagged producer-sequence; broker (injected write "
              "function, hook H1) scripted per batch: immediate, 0-20 ms latency, or held until released; Close requested 0-5 ms after the last "
              "WriteEvent returned. Oracle on the batches handed to the broker: permutation of the accepted events without duplicates, "
              "per-producer order, batch size 1..100, partition key = environment id (task id for task events), everything delivered when "
              "Close returns, producers finish while the broker is held. Non-trivial: >=2 producers and a backlog >100 when Close is called. The hand-over channel has its production capacity or (hook H1 variant) "
              "4-64 slots, so that 'channel full' is reached. TestWriterPerTopic: 2-24 goroutines ask the.EventWriterWithTopic for the writer of a fresh "
              "topic at the same moment and must all be given the same one. TestCloseRepeated: a writer is created, 0-2 events are published and "
              "Close is called, 45000 times (360000 thorough): Close returns within 5 s with everything handed over."),
        assumptions=["the Kafka broker is replaced by the injected write function (overlay hook H1 builds the writer exactly like NewWriterWithTopic)",
                     "goroutine scheduling inside the writer is not owned by the harness; schedules are sampled by repetition"],
        quick=[R("^TestWriterFixed$", 1, 1, 200), R("^TestWriter$", 40, 12, 400), R("^TestWriterPerTopic$", 150, 2, 300), R("^TestCloseRepeated$", 1, 1, 300)],
        thorough=[R("^TestWriterFixed$", 1, 1, 200), R("^TestWriter$", 700, 14, 3000), R("^TestWriter$", 100, 2, 3000, race=True), R("^TestWriterPerTopic$", 3000, 2, 3000), R("^TestCloseRepeated$", 1, 1, 1500)],
        floors={"backlog>100": ("TestWriter", 0.2)},
    ),
    "C11": dict(
        pkg="./props/c11", level="exploration",
        rule=("rapid-generated role trees (depth <=5, <=4 children, task and call leaves of either criticality, built from YAML through "
              "overlay hook H2) and 1-40 leaf updates (state in STANDBY/CONFIGURED/RUNNING/ERROR/DONE, status in INACTIVE/ACTIVE/UNDEPLOYABLE) "
              "applied through PublicUpdatable sequentially (every node compared with an independent fold after every step) or "
              "concurrently with one goroutine per leaf (compared at quiescence); the environment-side ParentAdapter subscription must see "
              "ERROR iff a critical leaf was ever in ERROR; metamorphic variant with permuted children and permuted arrival order. State.X / "
              "Status.X are enumerated exhaustively (pairs, triples, multisets <=4) against the fold. Non-trivial: tree with >=2 levels, both "
              "criticalities and >=1 ERROR or status update. Distinct = distinct case digests. TestFoldLoaded: the same state fold on trees "
              "produced by the real template processing (hook H4): 1-3 groups, each plain tasks, an iterator over task roles, over "
              "aggregators or over an included sub-workflow (1-3 elements), optionally nested in one more aggregator and with a sibling task; "
              "non-trivial there: an iterator and an ERROR update."),
        assumptions=["role trees are built by overlay hook H2 (yaml.Unmarshal into aggregatorRole + LinkChildrenToParents), as workflow.Load does before template processing",
                     "MIXED/PARTIAL/UNDEFINED are never injected at a leaf (the task manager never sends them)",
                     "goroutine interleavings of concurrent updates are sampled, not enumerated"],
        quick=[R("^(TestAlgebraExhaustive|TestFoldFixed|TestCanary.*)$", 1, 1, 120), R("^TestFold$", 1200, 6, 300), R("^TestConcurrentSavedCase$", 1, 4, 300), R("^TestConcurrentDeployment$", 1, 4, 300),
               R("^TestFoldLoadedFixed$", 1, 1, 120), R("^TestFoldLoaded$", 1500, 2, 300),
               R("^TestHooksCollectedFixed$", 1, 1, 120), R("^TestHooksCollected$", 1500, 2, 300)],
        thorough=[R("^(TestAlgebraExhaustive|TestFoldFixed|TestCanary.*)$", 1, 1, 120), R("^TestFold$", 12000, 12, 2400), R("^TestFold$", 1500, 2, 2400, race=True), R("^TestConcurrentSavedCase$", 1, 8, 2400), R("^TestConcurrentDeployment$", 1, 8, 2400),
                  R("^TestFoldLoadedFixed$", 1, 1, 120), R("^TestFoldLoaded$", 40000, 4, 2400),
                  R("^TestHooksCollectedFixed$", 1, 1, 120), R("^TestHooksCollected$", 30000, 4, 2400)],
        floors={"concurrent": ("TestFold", 0.15), "mixed-criticality": ("TestFold", 0.4)},
    ),
    "C16": dict(
        pkg="./props/c16", bins=["./cmd/execworker"], level="fault_enumeration",
        rule=("exhaustive depth-first enumeration, through the real executorcmd.RpcClient over loopback gRPC against an in-process OCC server "
              "that follows occ/plugin/OccFMQCommon.cxx::doTransition, of: control mode (FairMQ, direct) x event (CONFIGURE, START, STOP, RESET, EXIT) "
              "x claimed source state (4) x real device state (9 FairMQ / 5 direct, i.e. including wrong sources) x every assignment of an outcome "
              "(done, refused in place by reply, refused by gRPC error, device goes to ERROR, transport error before applying, transport error after "
              "applying) to every device step the transitioner actually issues. Non-trivial: a path with >=1 non-done step (counted, all distinct by construction)."),
        assumptions=["the simulated device follows the OCC plugin's doTransition (source-state check, expected final state per event, ok/trigger rules) and the FairMQ state table",
                     "'unknown' (empty) is an admissible report only when the device is in an intermediate state, after an injected gRPC-level failure of the last request, or when the caller's claimed source was wrong"],
        quick=[R("^TestCommitExhaustive$", 1, 1, 300), R("^TestWorkerResponsesFixed$", 1, 1, 300), R("^TestWorkerResponses$", 6, 6, 600, shrinktime="30s")],
        thorough=[R("^TestCommitExhaustive$", 1, 1, 300), R("^TestWorkerResponsesFixed$", 1, 1, 300), R("^TestWorkerResponses$", 120, 12, 3000, shrinktime="60s")],
    ),
    "C07": dict(
        pkg="./props/c07", bins=["./cmd/simcore"], level="exploration",
        rule=("rapid-generated schedules for the shared run counter: 1-5 callers with 1-4 NewRunNumber calls each (some through fresh Service "
              "instances = restarts), counter initially absent / small / large; the simulated Consul holds every request on the counter key and "
              "the drawn script decides which held request is served next, with which verdict (serve, drop before applying, apply then cut the "
              "reply, 500, CAS refused) and whether a foreign writer bumps the counter first. Oracle on the call history: successful values "
              "pairwise distinct, increasing in real-time order, each backed by an applied CAS of its own caller, counter never behind. "
              "Non-trivial: >=1 CAS conflict or injected fault. Whole core (TestRunNumbersCore): 1-4 rounds in which one or two fresh environments of "
              "the real core START concurrently while the script decides the fate of every write on the counter (serve, CAS refused, 500, "
              "dropped, applied with the reply cut) and a foreign writer may advance it; the core may be restarted between rounds. Oracle on the "
              "ControlEnvironment replies: a RUNNING environment has a non-zero number, numbers are pairwise distinct, larger than every number "
              "handed out before (and than the initial counter), never ahead of the counter; a START that got no number is not RUNNING and its "
              "tasks received no START; the counter never goes back. Distinct = distinct case digests."),
        assumptions=["the harness owns the order in which Consul serves requests; Go's HTTP transport may transparently retry a request whose connection was cut (accepted: the retry is an ordinary request)",
                     "simulated Consul implements cas= semantics (cas=0 creates only if absent; otherwise ModifyIndex must match)"],
        quick=[R("^(TestRunNumbersFixed|TestRunNumbersCoreFixed)$", 1, 1, 300), R("^TestRunNumbers$", 700, 8, 300), R("^TestRunNumbersCore$", 25, 6, 900, shrinktime="60s")],
        thorough=[R("^(TestRunNumbersFixed|TestRunNumbersCoreFixed)$", 1, 1, 300), R("^TestRunNumbers$", 8000, 14, 2400), R("^TestRunNumbersCore$", 600, 8, 3400, shrinktime="180s")],
        floors={"cas-conflict": ("TestRunNumbers", 0.2), "injected-fault": ("TestRunNumbersCore", 0.3), "run-started": ("TestRunNumbersCore", 0.5)},
    ),
    "C05": dict(
        pkg="./props/c05", bins=["./cmd/simcore"], level="exploration",
        rule=("(a) rapid-generated agent attribute sets (incl. comma lists) and constraint stacks of 1-5 levels with the same attribute overridden "
              "nearer to the task, against a map-based reference for MergeParent and Attributes.Satisfy; generated port expressions (print/parse "
              "round trip); generated offers (cpu/mem/port ranges with holes) and wants (static ranges, dynamic port counts) against set "
              "arithmetic for Resources.Satisfy. Non-trivial: the reference rejects the (descriptor, agent) pair, an attribute is overridden, or "
              "the expression contains a true range. (b) Whole core (TestPlacement): 1-3 generated agents (rack/kind attributes, ample or tight "
              "cpu/memory, port ranges with holes, optionally tiny control-port region) and 1-6 generated tasks (constraints at task-template, "
              "aggregator and role level incl. a nearer definition correcting or breaking a farther one, machine_id, wants, static port "
              "ranges that may collide between tasks, 0-2 inbound TCP and IPC channels in the template and 0-2 more declared on the role, several "
              "roles optionally running one task template, direct/basic/fairmq) deployed by the real scheduler; "
              "every LAUNCH received by the simulated master is joined with the offer it refers to: agent satisfies the merged constraints, "
              "every port of the task is in the offer, static ports as written, exactly one port per inbound TCP channel (template and role level) "
              "plus a control port for controllable tasks (a surplus control port of a basic task is tolerated), ports pairwise distinct on an agent, cpu/memory of all tasks of one offer within the offer, every offer "
              "accepted or declined, the core survives. Distinct = distinct case digests."),
        assumptions=["only acceptance of an unsuitable agent/offer is a violation; refusing a suitable one is counted (class false-negative / deployment-failed) but is not part of this property",
                     "executor resources added by the framework to every task are not counted against the offer in the whole-core part"],
        quick=[R("^(TestConstraintsFixed|TestPortExpressionsFixed)$", 1, 1, 120), R("^TestConstraints$", 5000, 2, 300), R("^TestPortExpressions$", 3000, 1, 300), R("^TestResources$", 5000, 2, 300),
               R("^TestPlacementFixed$", 1, 1, 600), R("^TestPlacement$", 12, 8, 900, shrinktime="60s")],
        thorough=[R("^(TestConstraintsFixed|TestPortExpressionsFixed)$", 1, 1, 120), R("^TestConstraints$", 100000, 4, 1500), R("^TestPortExpressions$", 50000, 2, 1500), R("^TestResources$", 100000, 4, 1500),
                  R("^TestPlacementFixed$", 1, 1, 600), R("^TestPlacement$", 250, 8, 3400, shrinktime="180s"),
                  FZ("FuzzPortExpression", 120)],
        floors={"deployed": ("TestPlacement", 0.3), "offer-shared-by-tasks": ("TestPlacement", 0.25), "constraint-overridden": ("TestPlacement", 0.3), "static-ports": ("TestPlacement", 0.3)},
    ),
    "C02": dict(
        pkg="./props/c02", bins=["./cmd/simcore"], level="fault_enumeration",
        rule=("whole core (real task/environment managers, scheduler, gRPC server) against the simulated Mesos master/executors; rapid-generated "
              "workflow shapes (0-6 task roles on 1-3 hosts, critical/non-critical, basic/direct/fairmq) with a per-task deployment outcome (active, "
              "launch fails, never reports, no matching agent) and, for CONFIGURE/START/STOP/RESET along a legal walk of up to 6 transitions, a "
              "per-task outcome (ok, error reply with state=source, error reply with state=ERROR, undeliverable MESSAGE; slow shard: silent, dies), "
              "in a quarter of the rounds as a correlated fault (every task of one host fails, all others are fine). "
              "Oracle: success iff every critical task is ok; on failure the destination is never reported (replies, GetEnvironments polled "
              "every 15 ms, forwarded events) and the environment ends in ERROR; commands carry the right event and go only to active tasks. "
              "Non-trivial: >=1 non-ok outcome, nothing to command, or mixed criticality. Distinct = distinct (shape, outcome matrix) digests."),
        assumptions=["Mesos master, agents and executors are simulated from the scheduler HTTP API as the core uses it",
                     "silent / dying tasks cost the compiled-in 90-120 s command timeout and are sampled sparsely in a dedicated slow shard"],
        quick=[R("^(TestFixed|TestCanary.*)$", 1, 1, 400), R("^TestTransitions$", 14, 10, 500, shrinktime="60s"),
               R("^TestTransitions$", 1, 2, 600, env={"VERIF_C02_SLOW": "1"}, shrinktime="1s"), R("^TestFixedSlow$", 1, 1, 600),
               R("^TestFixedLate$", 1, 1, 900), R("^TestFixedQueued$", 1, 1, 900)],
        thorough=[R("^(TestFixed|TestCanary.*)$", 1, 1, 400), R("^TestTransitions$", 300, 14, 3000, shrinktime="120s"),
                  R("^TestTransitions$", 8, 2, 3000, env={"VERIF_C02_SLOW": "1"}, shrinktime="1s"), R("^TestFixedSlow$", 1, 1, 600),
                  R("^TestFixedLate$", 1, 1, 900), R("^TestFixedQueued$", 1, 1, 900)],
        floors={"has-fault": ("TestTransitions", 0.5)},
    ),
    "C01": dict(
        pkg="./props/c01", bins=["./cmd/simcore"], level="exploration",
        rule=("whole core against the simulated world; rapid-generated histories over one environment: 1-7 batches of requests "
              "(ControlEnvironment DEPLOY/CONFIGURE/START_ACTIVITY/STOP_ACTIVITY/RESET/GO_ERROR, DestroyEnvironment with drawn flags), each batch "
              "issued by one caller or by 2-3 concurrent callers (the first request is parked inside its transition by a gated probe while "
              "the others are fired; for 250 ms no second transition may start), and a drawn outcome (ok / critical task error / critical "
              "hook failure) for every executed transition. Oracle on the core's own, synchronously forwarded event stream joined with probe "
              "reports and executor commands: transitions never overlap, reported states follow the documented graph, every transition starts "
              "from the state left by the previous one (serial model walk), illegal requests have no hooks and no commands, failures end in "
              "ERROR, DONE is terminal. Non-trivial: an illegal request, a failed transition or a concurrent batch."),
        assumptions=["goroutine scheduling inside the core is not owned; the harness owns the order of external stimuli (held probes, request issue order)",
                     "the gRPC status and the state field of a reply in a concurrent batch are not part of the oracle (read after the lock is released)"],
        quick=[R("^TestFixed$", 1, 1, 400), R("^TestHistories$", 12, 10, 600, shrinktime="60s"), R("^TestSavedDoneToError$", 1, 3, 400)],
        thorough=[R("^TestFixed$", 1, 1, 400), R("^TestHistories$", 250, 15, 3000, shrinktime="120s"), R("^TestSavedDoneToError$", 1, 4, 3000)],
        floors={"concurrent-batch": ("TestHistories", 0.3), "illegal-request": ("TestHistories", 0.3)},
    ),
    "C03": dict(
        pkg="./props/c03", bins=["./cmd/simcore"], level="fault_enumeration",
        rule=("whole core against the simulated world; rapid-generated workflows (1-5 tasks on 1-3 hosts, mixed criticality, optionally nested in "
              "aggregators), live state CONFIGURED or RUNNING, a victim task, a failure kind (TASK_FAILED, TASK_LOST, TASK_KILLED, TASK_FINISHED, "
              "executor FAILURE, agent FAILURE, TASK_INTERNAL_ERROR device event) and an instant (idle, while a START/STOP is parked on a gated "
              "reply of another task, right after a transition returned, or 'burst': together with the held replies of all other tasks to an "
              "in-flight START/STOP), optionally after the master connection was dropped and re-established (reconciliation answers with or "
              "without the fields only executors fill in); plus the full kind x state x criticality matrix, the after-reconnection cases and "
              "a repeated six-task burst as fixed cases. "
              "Oracle: any affected critical task => ERROR within 15 s, stays ERROR, never RUNNING again, end of run recorded "
              "(run_end_time_ms and a run event); only non-critical tasks affected => state unchanged after 1.5 s. Every whole-core case is "
              "non-trivial; distinct = distinct (shape, state, victim criticality, kind, instant) digests. In process (TestNotifyInProcess, hook H2): "
              "role trees of 2-7 task leaves in up to two aggregator levels and 2-14 state updates; the environment-side subscription is a "
              "one-slot mailbox that the harness empties before an update (watcher ready) or leaves full (watcher busy, the notification is "
              "dropped by the non-blocking send); oracle: once a critical task is in ERROR and a critical task reports while the mailbox is "
              "empty, the watcher has been told ERROR; never told ERROR without a critical ERROR. Non-trivial there: a notification arrived "
              "while the watcher was busy and a critical ERROR had to be announced."),
        assumptions=["'bounded time' is taken as 15 s (the mechanism's own delay is 0.5 s)",
                     "executor/agent failures affect every task sharing that executor/agent, as in Mesos"],
        quick=[R("^(TestFixedMatrix|TestCanary.*)$", 1, 1, 900), R("^TestFixedReconnectAndBurst$", 1, 1, 900), R("^TestFaults$", 9, 10, 900, shrinktime="90s"),
               R("^TestNotifyFixed$", 1, 1, 120), R("^TestNotifyInProcess$", 10000, 2, 300)],
        thorough=[R("^(TestFixedMatrix|TestCanary.*)$", 1, 1, 900), R("^TestFixedReconnectAndBurst$", 1, 2, 3400), R("^TestFaults$", 150, 15, 3400, shrinktime="180s"),
                  R("^TestNotifyFixed$", 1, 1, 120), R("^TestNotifyInProcess$", 200000, 4, 1500)],
    ),
    "C04": dict(
        pkg="./props/c04", bins=["./cmd/simcore"], level="exploration",
        rule=("whole core against the simulated world with 3 hosts mapped to 3 detectors; rapid-generated histories of 2-12 operations over "
              "several environments: create (workflow on a subset of hosts, sometimes needing a detector in use), ControlEnvironment, "
              "DestroyEnvironment (force / keepTasks), CleanupTasks (all or listed ids including ids owned by other environments), optionally "
              "overlapping the previous transition (parked on gated executor replies), with task reuse on or off. Oracle after every operation: "
              "task lists of live environments pairwise disjoint and consistent with GetTasks.locked / GetTask.envId, includedDetectors pairwise "
              "disjoint and equal to GetActiveDetectors, every KILL / command MESSAGE at the master joined with ownership at the start of the "
              "operation never reaches a task of another live environment, refused creates leave the holder untouched. Non-trivial: >=2 live "
              "environments, a detector conflict, or a cleanup while an environment is live. TestTeardownInProgress: an environment is being "
              "destroyed and one of its DESTROY / after_DESTROY hooks is held by the harness; a creation needing one of its detectors is refused "
              "until the destroy request has returned and succeeds afterwards. "
              "In process (TestManagerOwnership, overlay hook H5): the real task.Manager without the Mesos controller; rapid-generated "
              "sequences of 4-17 operations (acquire for a new environment on a subset of 3 hosts with or without a descriptor that is not "
              "deployed, teardown = release + KillTasks or release only, KillTasks with listed ids including owned ones, Cleanup, release of "
              "another environment's tasks, answer a parked item, deliver a pending status) where every KILL call, every deployment verdict, "
              "every TASK_RUNNING and TASK_KILLED can be parked and answered (accepted or refused) in the drawn order while other operations "
              "run, with task reuse on or off. Oracle at every KILL call and after every operation: no KILL for a task that is locked or that "
              "an environment acquired and has not released; no task held by two environments; an acquired task keeps reporting its "
              "environment and stays in the roster unless a KILL was accepted for it; kill/cleanup results never list an owned task; at "
              "quiescence no task is locked by an environment that does not hold it. Non-trivial there: >=2 acquired environments and an "
              "overlap, a cleanup, a listed kill or a foreign release."),
        assumptions=["ownership at the start of an operation is read through the API at quiescence and cross-checked for consistency",
                     "interleavings inside the core beyond the forced overlap are not owned",
                     "in-process part: the deployment verdict is produced by the harness (hook H5 builds the launched tasks with the manager's own newTaskForMesosOffer); "
                     "operations that are neither finished nor parked after a short quiet period are taken to wait on an internal lock (affects which interleavings are explored, not the verdict)"],
        quick=[R("^(TestFixed|TestSavedDetectorRace)$", 1, 1, 500), R("^TestOwnership$", 10, 10, 800, shrinktime="90s"),
               R("^TestManagerFixed$", 1, 1, 300), R("^TestManagerOwnership$", 60, 5, 400, shrinktime="60s"),
               R("^TestTeardownInProgressFixed$", 1, 1, 400), R("^TestTeardownInProgress$", 6, 2, 600, shrinktime="60s")],
        thorough=[R("^(TestFixed|TestSavedDetectorRace)$", 1, 1, 500), R("^TestOwnership$", 150, 15, 3400, shrinktime="180s"),
                  R("^TestManagerFixed$", 1, 1, 300), R("^TestManagerOwnership$", 1500, 12, 3400, shrinktime="180s"),
                  R("^TestTeardownInProgressFixed$", 1, 1, 400), R("^TestTeardownInProgress$", 80, 2, 3400, shrinktime="120s")],
        floors={"multi-env": ("TestOwnership", 0.25), "overlap": ("TestManagerOwnership", 0.3), "reuse": ("TestManagerOwnership", 0.4)},
    ),
    "C06": dict(
        pkg="./props/c06", bins=["./cmd/simcore"], level="fault_enumeration",
        rule=("whole core against the simulated world; rapid-generated teardown scenarios: workflow with 1-3 tasks, 0-3 DESTROY/after_DESTROY probe "
              "hooks at weights -2..2, optionally a call whose await point is never reached; either drive to DEPLOYED/CONFIGURED/RUNNING/ERROR and "
              "destroy with drawn force / allowInRunningState / keepTasks flags (rarely with every KILL refused by the master), or make the "
              "creation fail at a drawn stage (template error, detector in use, launch failure, no agent, critical CONFIGURE error, or a critical "
              "hook failing at before_CONFIGURE while another call started earlier in that moment waits to be collected at a later weight; the "
              "same hook pair at before_START_ACTIVITY is one of the two ways the ERROR state is reached); optionally a CleanupTasks request that "
              "names the environment's own tasks precedes the destroy (a no-op). TestDestroyDuringDeployment: the creation is slowed down "
              "(tasks take 0.3-1.5 s to report TASK_RUNNING), the id is read from the listing and a forced destroy is requested 0-900 ms "
              "later; afterwards not listed, no launched task still owned, every surviving launched task asked to terminate after a clean-up. Oracle after "
              "the call returns: not listed, no launched task still locked, every task ever owned received a KILL unless keepTasks, unowned "
              "leftovers die at the next CleanupTasks, detectors free and the workflow can be created again, no hook-call goroutine left "
              "(pprof dump of the core), DESTROY hooks ran exactly once and only when no task was owned any more, refused kills => error. "
              "Every case is non-trivial; distinct = distinct case digests."),
        assumptions=["goroutine leak detection reads the core's own net/http/pprof dump (served by simcore on a private port)",
                     "an HTTP-level refusal of KILL disconnects the mesos-go client; such cases end the shared world"],
        quick=[R("^TestFixed$", 1, 1, 600), R("^TestTeardown$", 10, 10, 800, shrinktime="90s"),
               R("^TestDestroyDuringDeploymentFixed$", 1, 1, 600), R("^TestDestroyDuringDeployment$", 5, 3, 800, shrinktime="60s"),
               R("^TestKillOutcomesFixed$", 1, 1, 300), R("^TestKillOutcomes$", 300, 1, 600, shrinktime="30s")],
        thorough=[R("^TestFixed$", 1, 1, 600), R("^TestTeardown$", 200, 15, 3400, shrinktime="180s"),
                  R("^TestDestroyDuringDeploymentFixed$", 1, 1, 600), R("^TestDestroyDuringDeployment$", 60, 3, 3400, shrinktime="120s"),
                  R("^TestKillOutcomesFixed$", 1, 1, 300), R("^TestKillOutcomes$", 5000, 2, 1800, shrinktime="60s")],
    ),
    "C18": dict(
        pkg="./props/c18", bins=["./cmd/simcore"], level="fault_enumeration",
        rule=("whole core against the simulated world, one fresh world per case; rapid-generated crash/reconnect points: 1-3 tasks, 1-2 environments; "
              "either SIGKILL the core at a drawn point of an environment's life (after ACCEPT before RUNNING, deployed, while a START is parked on "
              "gated replies, RUNNING, while a teardown waits for kill acknowledgements) and start a new core against the same Consul and master "
              "state, or drop the master's subscription stream 1-3 times while environments are CONFIGURED / RUNNING / mid-transition. Oracle: the new "
              "SUBSCRIBE carries the framework id stored by the previous life; within 20 s every task the master still has non-terminal received "
              "a KILL; the new instance lists no environments and no tasks; after a mere reconnection no KILL reaches a task of a live "
              "environment and states/tasks are unchanged. Every case is non-trivial; every crash and reconnect point is also run as a fixed case."),
        assumptions=["the simulated master answers RECONCILE implicitly with one REASON_RECONCILIATION update per non-terminal task, as Mesos does",
                     "a crash is SIGKILL of the core process; the simulated master and Consul keep their state"],
        quick=[R("^(TestFixed|TestCanary.*)$", 1, 1, 900), R("^TestCrashPoints$", 4, 8, 900, shrinktime="60s"), R("^TestFirstRegistrationRepeated$", 1, 3, 600)],
        thorough=[R("^(TestFixed|TestCanary.*)$", 1, 1, 900), R("^TestCrashPoints$", 40, 15, 3400, shrinktime="120s"), R("^TestFirstRegistrationRepeated$", 1, 4, 3400)],
    ),
    "C08": dict(
        pkg="./props/c08", bins=["./cmd/simcore"], level="exploration",
        rule=("whole core against the simulated world; rapid-generated hook sets (1-8 probe calls; trigger = any moment of the creation, of a legal "
              "walk of 1-5 transitions, or of the teardown; weights -3..3 with duplicates; await = trigger, a later weight of the same moment, a "
              "later moment of the same or a later transition, or a point that is never reached) over the walk, then a forced destroy. Probes "
              "of one (moment, weight) are held until all of them have started (a sequential implementation trips the 6 s gate); calls awaited "
              "later take 120 ms. Oracle on the joined log (probe start/end reports, the core's transition-step events, executor commands): "
              "moments in documented order, each call started once per occurrence of its trigger moment and never before it, ascending "
              "weights, next weight only after the awaited calls of the previous one returned, nothing beyond an await point (later hooks, end "
              "of the moment, task commands) before the awaited call returned, every started call returns once, none left after teardown "
              "(goroutine dump). ParseTriggerExpression gets a round-trip property. Non-trivial: two weights in one moment or an await != trigger."),
        assumptions=["hook tasks (as opposed to calls) are exercised by the C09 check; relative order of a call and a hook task of one weight is not claimed",
                     "all hooks succeed in this check"],
        quick=[R("^(TestFixed|TestTriggerExpressions)$", 2000, 1, 600), R("^TestHooks$", 12, 10, 900, shrinktime="90s")],
        thorough=[R("^(TestFixed|TestTriggerExpressions)$", 50000, 1, 600), R("^TestHooks$", 250, 15, 3400, shrinktime="180s")],
        floors={"deferred-await": ("TestHooks", 0.3), "two-weights-in-a-moment": ("TestHooks", 0.2)},
    ),
    "C09": dict(
        pkg="./props/c09", bins=["./cmd/simcore"], race_bins=["./cmd/simcore"], level="fault_enumeration",
        rule=("whole core against the simulated world; for a drawn transition T (START_ACTIVITY, STOP_ACTIVITY, RESET, CONFIGURE) rapid generates "
              "1-8 hooks (probe calls, and hook tasks at moments that occur first in T) at before_T / leave_<src> / enter_<dst> / after_T with "
              "weights -2..2, each critical or not, and a failing subset (call returns an error, call reports a timeout, hook task exits "
              "non-zero, terminates involuntarily, never terminates within its 400 ms timeout), alone or several at one (moment, weight). "
              "Oracle (model of one transition): first critical failure at before/leave => no later hook, no task command, error naming the "
              "trigger, source state kept, GO_ERROR starts from the source; at enter/after => destination kept, all moments still run, error "
              "reported, GO_ERROR starts from the destination; no critical failure => success whatever non-critical hooks did; the core survives "
              "(thorough: -race core, race reports in AwaitAll/handleHooks/runTasksAsHooks are violations). Non-trivial: >=1 failing hook."),
        assumptions=["hooks of later weights in the same pass of an enter_/after_ moment after a critical failure are not claimed either way",
                     "all hooks are awaited at their trigger in this check (deferred awaits are C08's subject)"],
        quick=[R("^(TestFixed|TestCanary.*)$", 1, 1, 900), R("^TestDeferredAwaitFailure$", 1, 1, 300), R("^TestHookFailures$", 12, 10, 900, shrinktime="90s")],
        thorough=[R("^(TestFixed|TestCanary.*)$", 1, 1, 900), R("^TestDeferredAwaitFailure$", 1, 1, 300), R("^TestHookFailures$", 250, 14, 3400, shrinktime="180s"),
                  R("^TestHookFailures$", 60, 2, 3400, race=True, env={"VERIF_RACE": "1"}, shrinktime="60s")],
        floors={"critical-failure": ("TestHookFailures", 0.3), "simultaneous-failures": ("TestHookFailures", 0.05)},
    ),
    "C10": dict(
        pkg="./props/c10", bins=["./cmd/simcore"], level="exploration",
        rule=("whole core against the simulated world; probe calls at weights -1 and +1 of every moment of START_ACTIVITY, STOP_ACTIVITY, GO_ERROR and of "
              "the teardown report the run number and the four run timestamps from their variable stack; rapid-generated histories of 2-9 "
              "operations over one environment: start, stop, START with a failing critical task, START/STOP with a critical hook failing at "
              "before/leave/enter/after, death of a critical task while running, forced destroy (also while running). Oracle per run: the "
              "weight -1 hook of before_START_ACTIVITY does not see the number, every hook from weight +1 on until the STOP_ACTIVITY transition "
              "has finished sees the same number and start time, the number is gone afterwards (hooks and currentRunNumber), each timestamp is "
              "set at most once and in the order start <= start-completion <= end <= end-completion, the end ones are set in the last snapshot "
              "however the run ended, nothing of run r is visible in run r+1, start and end records are published. Non-trivial: >=2 runs, a "
              "run ended by error or teardown, or a failing hook inside a run."),
        assumptions=["whether run_start_time_ms disappears after the run, and whether the run number disappears after a run ended by error or teardown, is not claimed (not stated)",
                     "values are compared through equality/ordering only; the wall clock of the core is opaque"],
        quick=[R("^TestFixed$", 1, 1, 900), R("^TestRuns$", 12, 10, 900, shrinktime="90s")],
        thorough=[R("^TestFixed$", 1, 1, 900), R("^TestRuns$", 200, 15, 3400, shrinktime="180s")],
        floors={"run-ended-by-error-or-teardown": ("TestRuns", 0.3)},
    ),
    "C13": dict(
        pkg="./props/c13", bins=["./cmd/simcore"], level="exploration",
        rule=("whole core against the simulated world; rapid-generated workflows of 2-6 direct/FairMQ tasks on 1-3 hosts with 0-3 inbound channels each "
              "(declared in the task template or at role level, role level optionally overriding a template declaration; tcp or ipc addressing; "
              "transports default/zeromq/shmem; optional global alias) and 0-3 outbound channels (declared in the template, at the task role or "
              "on the enclosing aggregator) whose target is <role path>:<channel>, ::alias, an explicit tcp:// / ipc:// address, or matches "
              "nothing; optionally two tasks claiming one alias. Oracle from the CONFIGURE arguments each simulated executor receives and the "
              "ports in the launched TaskInfo: inbound = method bind on tcp://*:<port launched for this task> or an ipc path, declared transport; "
              "named outbound = tcp://<host of the binding task>:<that task's own bound port> (or its ipc path) with the inbound side's transport; "
              "explicit targets byte for byte; unmatched target or conflicting alias => creation fails. Non-trivial: a cross-host connection, "
              "an alias, or a role-level override. TestIteratedChannels: bind/connect declared on iterated roles (2-4 elements; an iterator of "
              "producers beside an iterator of consumers, or an iterated aggregator holding both, the connect declaration on the role or on "
              "the iterated aggregator; target by role path or by global alias, both templated on the iteration variable; optionally a second, "
              "explicit target that depends on the element): consumer x is told to connect to where producer x was bound."),
        assumptions=["channel arguments are read from the CONFIGURE command as the executor would receive it"],
        quick=[R("^(TestFixed|TestIteratedFixed)$", 1, 1, 600), R("^TestChannels$", 25, 8, 900, shrinktime="90s"), R("^TestIteratedChannels$", 10, 2, 900, shrinktime="60s")],
        thorough=[R("^(TestFixed|TestIteratedFixed)$", 1, 1, 600), R("^TestChannels$", 300, 15, 3400, shrinktime="180s"), R("^TestIteratedChannels$", 60, 2, 3400, shrinktime="120s")],
        floors={"cross-host": ("TestChannels", 0.3), "alias": ("TestChannels", 0.3)},
    ),
    "C14": dict(
        pkg="./props/c14", bins=["./cmd/simcore"], level="exploration",
        rule=("(A1) rapid-generated wrap/unwrap/set/del histories over up to 5 gera maps against a nearest-definition list-of-maps model (Flattened, "
              "Get, Has, Len, WrappedAndFlattened after every step); (A2) generated chains of 1-4 levels of defaults/vars/user vars (+locals) "
              "evaluated through template.Sequence at every stage 0-5 against the documented visibility table; (B) whole core: generated role "
              "trees of depth 1-5 (optionally with an iterator level) where each of 5 keys is present / empty / absent in defaults and vars of "
              "every level, in the environment-wide Consul defaults/vars, in the request's user variables and in the task template's own "
              "defaults/vars; compared with the consolidated stack of every role (GetEnvironment workflow tree), the launched command line, the "
              "CONFIGURE properties and the variable stack seen by a call at every level, using a reference resolver written from the "
              "handbook. Non-trivial: a key defined in >=2 kinds at >=2 levels with >=1 empty value (B), a chain of >=3 maps with an empty "
              "value (A1), >=2 definitions over >=2 levels (A2)."),
        assumptions=["the relative rank of a task template's own defaults and vars is not claimed (statement silent)",
                     "role-level user variables exist only through the request (root) in the generated cases"],
        quick=[R("^TestGeraMap$", 3000, 1, 300), R("^TestStageVisibility$", 600, 2, 300), R("^TestPrecedenceFixed$", 1, 1, 300), R("^TestPrecedence$", 25, 8, 900, shrinktime="90s"),
               R("^TestRuntimeVarScopeFixed$", 1, 1, 300), R("^TestRuntimeVarScope$", 8, 2, 600, shrinktime="60s")],
        thorough=[R("^TestGeraMap$", 100000, 2, 1500), R("^TestStageVisibility$", 15000, 4, 1500), R("^TestPrecedenceFixed$", 1, 1, 300), R("^TestPrecedence$", 300, 14, 3400, shrinktime="180s"),
                  R("^TestRuntimeVarScopeFixed$", 1, 1, 300), R("^TestRuntimeVarScope$", 100, 2, 3400, shrinktime="120s")],
    ),
    "C15": dict(
        pkg="./props/c15", bins=["./cmd/simcore"], race_bins=["./cmd/simcore"], level="exploration",
        rule=("Grammar-generated workflow templates (aggregators, tasks, calls, an include of a second generated file; every role optionally an "
              "iterator over a JSON range variable or begin/end with 0-4 elements, nested up to 4 deep; enabled expressions that evaluate to "
              "true/false through variables, comparisons, padding and '1'; inner iterator ranges that are expressions over an enclosing iteration variable; role vars that reference iteration variables of enclosing levels) loaded by two real cores -- all three concurrency switches on, and "
              "all off -- and twice on the same core. Oracle: (i) the canonical dump of the loaded tree (role paths in order, task counts, "
              "iteration and flag variables of every role) is identical across the three loads; (ii) it equals the output of a reference "
              "expander (disabled roles and emptied aggregators absent, iterators expanded in range order, iteration variable bound per "
              "instance); (iii) with a template error injected in a role that is instantiated (role name, enabled expression, iterator "
              "range) the load fails on every core, no environment is listed and no task was launched. (B) The same grammar enriched with defaults/vars "
              "referring to other levels, constraints, bind/connect channels, task and call traits and errors that occur in only some "
              "instances of an iterator, processed in process (workflow.ProcessTemplates through an overlay hook) under all eight switch "
              "settings, twice each: the canonical dump of every role (path, kind, enabled, own and consolidated variables, own and inherited "
              "constraints, channels, traits) must be identical, equal the reference expansion, and a reached error must fail every load. "
              "(C) Stress: an iterator with exactly one failing instance among 2-17 is loaded thousands of times with all switches on; every "
              "load must fail. (D) -race core: reports inside ProcessTemplates/expandTemplate/generateRole/GetRange are violations. "
              "Non-trivial: >=1 iterator and >=1 disabled role, or an injected error."),
        assumptions=["an injected error in a role that is never instantiated (disabled ancestor, empty range) is not required to fail the load; such cases are counted inconclusive",
                     "expansions are capped at 24 roles so that every load can be deployed"],
        quick=[R("^(TestLoadFixed|TestLoadInProcessFixed)$", 1, 1, 300), R("^TestLoad$", 40, 6, 900, shrinktime="30s"),
               R("^TestLoadInProcess$", 250, 6, 900, shrinktime="30s"), R("^TestErrorNeverLost$", 1, 2, 900),
               R("^TestLoad$", 15, 1, 900, race=True, env={"VERIF_RACE": "1"}, shrinktime="30s")],
        thorough=[R("^(TestLoadFixed|TestLoadInProcessFixed)$", 1, 1, 300), R("^TestLoad$", 1500, 6, 3400, shrinktime="180s"),
                  R("^TestLoadInProcess$", 8000, 8, 3400, shrinktime="180s"), R("^TestErrorNeverLost$", 1, 6, 3400),
                  R("^TestLoad$", 300, 2, 3400, race=True, env={"VERIF_RACE": "1"}, shrinktime="60s")],
        floors={"iterator": ("TestLoad", 0.5), "disabled-role": ("TestLoad", 0.4), "injected-error": ("TestLoad", 0.08),
                "range-depends-on-outer-iteration": ("TestLoad", 0.15), "cross-level-variable-reference": ("TestLoad", 0.2),
                "nested-iterator": ("TestLoadInProcess", 0.2), "injected-error-reached": ("TestLoadInProcess", 0.08)},
    ),
    "C17": dict(
        pkg="./props/c17", bins=["./cmd/execworker"], level="fault_enumeration",
        rule=("rapid-generated plans executed against the real executor task code (executable.NewTask with recording status / device-event / "
              "message senders, as executor/handlers.go wires them), one worker process per plan. Task kind basic / hook / controllable "
              "(direct, or fairmq with the device speaking the FairMQ state machine); child behaviour: lives until told, or exits by itself "
              "after 50-1500 ms with code 0/1/3, ignores TERM/INT, forks 0-2 children into its process group (which may ignore signals too), "
              "optionally started under a named user; for controllable tasks a simulated OCC control plugin: port "
              "opens after 0-1.5 s, ready after 0-1.5 s or starts in ERROR/DONE, reports its pid or not, each transition (each device step "
              "for fairmq) ok / refused / to ERROR / hanging with 0-1.5 s delay, exits 0-2.5 s after DONE or never; request script: walks over the task state machine "
              "(CONFIGURE, START, STOP, RESET, repeated starts), hook triggers, a kill at a drawn instant (0-1.2 s after the previous "
              "request; requests after a terminal status are not delivered, as in the executor). Oracle over the recorded history: (1) at "
              "most one terminal status and nothing after it; (2) a task alive and ready when killed is not reported TASK_FAILED, a basic "
              "task stopped while its child runs is not reported FAILED in BASIC_TASK_TERMINATED; (3) 0.5 s after a kill (or a STOP of a "
              "started basic task) returned, no live process is left in the task's process group (/proc scan by pgid; judged when the child "
              "was surely alive at the request); (4) the worker neither panics (stack in executor code = crash) nor does a kill/stop/trigger "
              "request fail to return within 8 s (25 s for controllable tasks). TestKillExitRace repeats the schedule-dependent shape "
              "'exits non-zero the moment EXIT arrives'. Non-trivial: the plan contains a kill or a STOP."),
        assumptions=["survivors are not judged for hook tasks (a DESTROY hook may legitimately run after the kill) nor when the child had already exited by itself before the request (the anchored mechanism kills the group 'unless it already exited')",
                     "a device that never answers a transition makes that request hang; only kill/stop/trigger must return",
                     "kill requests that reach a controllable task before TASK_RUNNING are excluded while KF-C17-kill-during-startup is open (canary cases run them)"],
        quick=[R("^(TestFixed|TestCanary.*)$", 1, 1, 900), R("^TestKillExitRace$", 1, 1, 900), R("^TestTaskLife$", 6, 13, 900, shrinktime="60s")],
        thorough=[R("^(TestFixed|TestCanary.*)$", 1, 1, 900), R("^TestKillExitRace$", 1, 2, 1800), R("^TestTaskLife$", 150, 13, 3400, shrinktime="180s")],
        floors={"kind:direct": ("TestTaskLife", 0.25), "kind:basic": ("TestTaskLife", 0.25), "kill": ("TestTaskLife", 0.5), "child-forks": ("TestTaskLife", 0.25), "child-ignores-signals": ("TestTaskLife", 0.1)},
    ),
}

# Additions of the fourth campaign (DESIGN.md section 14), appended to the rule texts above.
_ADDENDA = {
    "C02": (" Slow shard also: acknowledged late but in time (105 s after CONFIGURE, whose response timeout is 120 s; 60 s after the other commands) "
            "counts as ok; TestFixedLate runs that shape at CONFIGURE and START; TestFixedQueued: a silent critical task of one environment queued "
            "behind a silent task of another (verdict after about 180 s): both requests fail, neither environment shows RUNNING."),
    "C06": (" Also drawn: a DESTROY hook task (triggered fine, trigger answered with an error, or dead before the destroy), a critical leave_DEPLOYED "
            "call failing during the teardown, only the first KILL refused; the verdict 'refused kills => error' is taken from the KILL calls the master "
            "actually refused; the DESTROY probe ignores the hook task itself. TestKillOutcomes (in process, overlay hook H5): the real task.Manager "
            "with 2-6 released tasks, any subset of the KILL calls of a KillTasks/Cleanup request refused by the caller: error iff a call was refused, "
            "reported killed exactly the accepted ones, refused ones still known to the manager."),
    "C09": (" Race reports count when both conflicting accesses are in the hook machinery; fixed cases for a critical failure at a negative weight of "
            "enter_/after_ moments (the weights >= 0 of that moment still run)."),
    "C11": (" TestHooksCollected: hook collections (GetAllHooks / GetHooksMapForTrigger at the root or at a drawn aggregator, after which every call below "
            "has no opinion) interleaved with task updates, every node compared with the fold after every step; often a group holding nothing but calls."),
    "C14": " (B) optionally one aggregator level is an include role with defaults/vars of its own (also iterated), its subtree living in a second file.",
    "C15": " An inner iterator reuses the variable name of an enclosing one in a third of the cases (the nearest binding wins).",
    "C16": (" TestWorkerResponses: the last hop, executable.ControllableTask.Transition, through the executor stand-in of C17 (real task code, simulated "
            "FairMQ/direct device): generated walks of 1-5 transition requests, a third of them asked from a source state the device is not in (the "
            "plugin answers 'state mismatch'), device steps refused or failing at random; every response carries no state or a state of the O2 "
            "vocabulary, never a raw device state."),
    "C17": (" Child behaviour also: a command (no shell) naming a binary that does not exist; device outcome also: the device process dies while handling "
            "the transition."),
    "C18": (" Restart variants: the first KILL per task refused (at most three tasks); reconciliation answers 1.5 s late, offers 3 s late and a NewEnvironment "
            "request issued at once, so that the answers arrive while a deployment is in progress (afterwards that environment is all the core knows); "
            "9-14 tasks per environment with a master that takes 250 ms per KILL call."),
    "C20": (" Every resolve case is asked again over the REST endpoints (GET .../resolve and the payload route of local.NewHttpService in front of the "
            "same service) with the same reference."),
}
# Additions of the fifth campaign (DESIGN.md section 15).
_ADDENDA5 = {
    "C02": " A critical task whose device goes to ERROR by itself 60 ms before the request stays a target of the command and refuses it (the request must fail).",
    "C04": (" In-process engine: reconciliation answers (status updates with reason RECONCILIATION for known tasks, running or still starting up) as an operation: "
            "no KILL for a task a live environment holds; a deployment that completes while another teardown's KILL call is pending and then fails."),
    "C05": " Agents with so few ports that the tasks placed there use every one of them (the last ports of an offer taken exactly).",
    "C06": (" TestKillOutcomes: after a request with refused KILL calls the following clean-up of unowned tasks must send a KILL to every survivor. "
            "Creation failure stage deploy-noresources: two critical tasks that cannot both fit one machine (three deployment attempts, every launched task asked to terminate by the next clean-up at the latest)."),
    "C07": " A quarter of the callers go through an apricot server (remote.NewServer / remote.NewService in front of the Service), as a core in apricot:// mode does.",
    "C09": " Hook task failure kind 'late' (reports its end 300 ms after its 400 ms timeout) and hook tasks that take 1.2 s within a 3 s timeout, so that a late report meets a core that is still collecting; 'trigger-error' (the trigger command is answered with an error; later hooks must still be collected).",
    "C10": (" A START vetoed in front of everything it does (critical call at before_START_ACTIVITY-3) is not a run: what the previous run left stays as it was; a run "
            "whose tasks fail to start is closed like any run ending in error (both end timestamps)."),
    "C11": (" Concurrent mode with yield patterns drawn by rapid (the environment-id callback in every update prologue yields or sleeps 20-80 us); "
            "TestConcurrentDeployment: five tasks report ACTIVE at once, 3000 repetitions per shard, every role ACTIVE at quiescence."),
    "C13": " A channel name declared on the aggregator and again on the role below (the nearest wins); non-critical tasks (an unmatched target fails the configuration all the same).",
    "C14": (" (B) the task template carries a default that is an expression over the role's variables (kx: \"X{{ it }}\", resolved per task); the inner iterator "
            "ranges over an expression of the outer iteration variable."),
    "C17": (" (5) a basic/hook command that exits by itself is reported (BASIC_TASK_TERMINATED or a final status) within 2 s, also when it leaves processes "
            "behind that hold its output (forked children inherit stdout/stderr). Fixed: a second kill while the first waits for the device to exit; a FairMQ "
            "device stuck in an intermediate state (BIND/CONNECT refused, roll-back refused) at kill."),
    "C18": (" Reconnection point 'deploying' (tasks accepted, TASK_RUNNING 2.5 s away: the answers say TASK_STAGING; no KILL, the creation completes). "
            "TestFirstRegistrationRepeated: 25 first registrations on fresh worlds per shard, the framework id is in the store within a second."),
    "C20": (" Candidates may exist with empty content (they exist all the same). TestProcess: entries in a subdirectory of the role directory that include their "
            "siblings by short name, decoys of the same names one level up."),
}
for _k, _v in list(_ADDENDA.items()) + list(_ADDENDA5.items()):
    CHECKS[_k]["rule"] += _v

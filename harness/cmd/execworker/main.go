// execworker plays the executor for one task: it builds the task through executable.NewTask with recording
// status / device-event / message senders (as executor/handlers.go does), runs a plan of requests against it and
// prints what it observed as JSON lines. One worker process per case: a panic or a hang of the code under test
// takes only this process down, and the parent sees it.
package main

import (
	"context"
	"encoding/json"
	"fmt"
	"io"
	"net"
	"os"
	"os/exec"
	"os/signal"
	"os/user"
	"path/filepath"
	"strconv"
	"strings"
	"sync"
	"syscall"
	"time"

	"github.com/AliceO2Group/Control/common"
	"github.com/AliceO2Group/Control/common/controlmode"
	"github.com/AliceO2Group/Control/common/event"
	"github.com/AliceO2Group/Control/common/utils/uid"
	"github.com/AliceO2Group/Control/core/controlcommands"
	"github.com/AliceO2Group/Control/executor/executable"
	pb "github.com/AliceO2Group/Control/executor/protos"
	mesos "github.com/mesos/mesos-go/api/v1/lib"
	"github.com/sirupsen/logrus"
	"google.golang.org/grpc"
	"google.golang.org/grpc/codes"
	"google.golang.org/grpc/status"
)

type ChildSpec struct {
	ExitAfterMs        int  // -1: runs until told otherwise
	ExitCode           int  // exit code when it exits by itself or on USR1 (device told to exit)
	IgnoreSignals      bool // TERM and INT are ignored
	Forks              int  // background children in the same process group
	ForksIgnoreSignals bool
	AsUser             bool // the task command names a user (the one the executor itself runs as)
	MissingBinary      bool // the task command is not run through a shell and names a binary that does not exist: the child never starts
}

type TransitionSpec struct {
	Outcome string // ok | refuse | error | hang | crash (the device process dies while handling the request; the call fails without a state)
	DelayMs int
}

type DeviceSpec struct {
	ListenAfterMs int    // -1: the control port never opens
	ReadyAfterMs  int    // time after listening at which the state becomes InitialState (before: INITIALIZING); -1 never
	InitialState  string // STANDBY | ERROR | DONE
	ReportPid     bool
	Transitions   map[string]TransitionSpec // by event; default ok
	ExitOnDoneMs  int                       // -1: the process stays after reaching DONE; otherwise it exits ExitOnDoneMs later
	FairMQ        bool                      // the device speaks the FairMQ state machine (control mode fairmq); Transitions are then keyed by device steps
}

type Step struct {
	DelayMs int
	Op      string // transition | trigger | kill
	Event   string
	Src     string
	Dst     string
	Async   bool // do not wait for the request to finish before the next step
}

type Plan struct {
	Kind          string // basic | hook | direct
	Dir           string
	Child         ChildSpec
	Device        DeviceSpec
	Steps         []Step
	HookTimeoutMs int
	OpTimeoutMs   int // a request that has not returned after this long is reported as hanging
	SettleMs      int // pause after the last request before the process group is inspected
	KeepWalking   bool // go on with the transition requests after one failed (each answer is judged by itself)
}

type Obs struct {
	T      int64  `json:"t"`
	Kind   string `json:"kind"` // status | devevent | message | op-start | op-end | op-hang | group | note
	Step   int    `json:"step,omitempty"`
	State  string `json:"state,omitempty"`
	Detail string `json:"detail,omitempty"`
	Alive  []int  `json:"alive,omitempty"`
	Pgid   int    `json:"pgid,omitempty"`
}

var (
	t0    = time.Now()
	outMu sync.Mutex
)

func emit(o Obs) {
	o.T = time.Since(t0).Milliseconds()
	b, _ := json.Marshal(o)
	outMu.Lock()
	os.Stdout.Write(append(b, '\n'))
	outMu.Unlock()
}

// ---------------------------------------------------------------------------------------------
// the simulated OCC device: a gRPC server in this process standing for the control plugin of the child

type device struct {
	pb.UnimplementedOccServer
	mu    sync.Mutex
	spec  DeviceSpec
	state string
	plan  *Plan
	srv   *grpc.Server
	stop  chan struct{}
}

func (d *device) devicePid() int {
	b, err := os.ReadFile(filepath.Join(d.plan.Dir, "pids"))
	if err != nil {
		return 0
	}
	last := 0
	for _, l := range strings.Split(string(b), "\n") {
		f := strings.Fields(l)
		if len(f) == 2 && f[0] == "device" {
			last, _ = strconv.Atoi(f[1]) // the most recent one: a basic task may be started several times
		}
	}
	return last
}

func (d *device) GetState(context.Context, *pb.GetStateRequest) (*pb.GetStateReply, error) {
	d.mu.Lock()
	defer d.mu.Unlock()
	r := &pb.GetStateReply{State: d.state}
	if d.spec.ReportPid {
		r.Pid = int32(d.devicePid())
	}
	return r, nil
}

var table = map[string]map[string]string{
	"STANDBY":    {"CONFIGURE": "CONFIGURED", "EXIT": "DONE"},
	"CONFIGURED": {"START": "RUNNING", "RESET": "STANDBY", "EXIT": "DONE"},
	"RUNNING":    {"STOP": "CONFIGURED"},
	"ERROR":      {"RECOVER": "STANDBY", "EXIT": "DONE"},
}

var fmqTable = map[string]map[string]string{
	"IDLE":                {"INIT DEVICE": "INITIALIZING DEVICE", "END": "EXITING"},
	"INITIALIZING DEVICE": {"COMPLETE INIT": "INITIALIZED", "RESET DEVICE": "IDLE"},
	"INITIALIZED":         {"BIND": "BOUND", "RESET DEVICE": "IDLE"},
	"BOUND":               {"CONNECT": "DEVICE READY", "RESET DEVICE": "IDLE"},
	"DEVICE READY":        {"INIT TASK": "READY", "RESET DEVICE": "IDLE"},
	"READY":               {"RUN": "RUNNING", "RESET TASK": "DEVICE READY"},
	"RUNNING":             {"STOP": "READY"},
	"ERROR":               {"END": "EXITING"},
}

// fmqName: the plan names states the way the executor does; a FairMQ device has its own names for them
func (d *device) native(st string) string {
	if !d.spec.FairMQ {
		return st
	}
	switch st {
	case "STANDBY":
		return "IDLE"
	case "DONE":
		return "EXITING"
	}
	return st
}

func (d *device) Transition(ctx context.Context, req *pb.TransitionRequest) (*pb.TransitionReply, error) {
	d.mu.Lock()
	spec, ok := d.spec.Transitions[req.TransitionEvent]
	if !ok {
		spec = TransitionSpec{Outcome: "ok"}
	}
	cur := d.state
	d.mu.Unlock()
	emit(Obs{Kind: "note", Detail: fmt.Sprintf("device: %s requested in %s (src %s) -> %s", req.TransitionEvent, cur, req.SrcState, spec.Outcome)})
	if req.SrcState != cur {
		return nil, status.Error(codes.InvalidArgument, "state mismatch")
	}
	tbl := table
	if d.spec.FairMQ {
		tbl = fmqTable
	}
	dst, valid := tbl[cur][req.TransitionEvent]
	if !valid {
		return nil, status.Error(codes.Internal, "no transitions made")
	}
	if spec.DelayMs > 0 {
		select {
		case <-time.After(time.Duration(spec.DelayMs) * time.Millisecond):
		case <-d.stop:
			return nil, status.Error(codes.Unavailable, "device gone")
		}
	}
	switch spec.Outcome {
	case "hang":
		select {
		case <-d.stop:
		case <-ctx.Done():
		}
		return nil, status.Error(codes.Unavailable, "device gone")
	case "crash":
		if p := d.devicePid(); p > 0 {
			syscall.Kill(p, syscall.SIGKILL)
		}
		// the caller sees the failure after the executor had time to notice that its child is gone
		select {
		case <-time.After(400 * time.Millisecond):
		case <-ctx.Done():
		}
		return nil, status.Error(codes.Unavailable, "transport is closing")
	case "refuse":
		return &pb.TransitionReply{Trigger: pb.StateChangeTrigger_DEVICE_INTENTIONAL, State: cur, TransitionEvent: req.TransitionEvent, Ok: false}, nil
	case "error":
		d.mu.Lock()
		d.state = "ERROR"
		d.mu.Unlock()
		return &pb.TransitionReply{Trigger: pb.StateChangeTrigger_DEVICE_ERROR, State: "ERROR", TransitionEvent: req.TransitionEvent, Ok: false}, nil
	}
	d.mu.Lock()
	d.state = dst
	d.mu.Unlock()
	if (dst == "DONE" || dst == "EXITING") && d.spec.ExitOnDoneMs >= 0 {
		go func() {
			time.Sleep(time.Duration(d.spec.ExitOnDoneMs) * time.Millisecond)
			if p := d.devicePid(); p > 0 {
				syscall.Kill(p, syscall.SIGUSR1)
			}
		}()
	}
	return &pb.TransitionReply{Trigger: pb.StateChangeTrigger_EXECUTOR, State: dst, TransitionEvent: req.TransitionEvent, Ok: true}, nil
}

func (d *device) EventStream(_ *pb.EventStreamRequest, s pb.Occ_EventStreamServer) error {
	select {
	case <-d.stop:
	case <-s.Context().Done():
	}
	return nil
}

func (d *device) run(port int) {
	if d.spec.ListenAfterMs < 0 {
		return
	}
	time.Sleep(time.Duration(d.spec.ListenAfterMs) * time.Millisecond)
	ln, err := net.Listen("tcp", fmt.Sprintf("127.0.0.1:%d", port))
	if err != nil {
		emit(Obs{Kind: "note", Detail: "device cannot listen: " + err.Error()})
		return
	}
	d.mu.Lock()
	d.state = "INITIALIZING"
	d.mu.Unlock()
	d.srv = grpc.NewServer()
	pb.RegisterOccServer(d.srv, d)
	go d.srv.Serve(ln)
	if d.spec.ReadyAfterMs >= 0 {
		time.Sleep(time.Duration(d.spec.ReadyAfterMs) * time.Millisecond)
		d.mu.Lock()
		d.state = d.native(d.spec.InitialState)
		d.mu.Unlock()
	}
	// the control plugin lives inside the child: when the child is gone, so is the server
	for {
		time.Sleep(50 * time.Millisecond)
		if p := d.devicePid(); p > 0 && !alive(p) {
			close(d.stop)
			d.srv.Stop()
			emit(Obs{Kind: "note", Detail: "device process gone, control port closed"})
			return
		}
	}
}

// ---------------------------------------------------------------------------------------------

func alive(pid int) bool {
	b, err := os.ReadFile(fmt.Sprintf("/proc/%d/stat", pid))
	if err != nil {
		return false
	}
	s := string(b)
	i := strings.LastIndex(s, ")")
	f := strings.Fields(s[i+1:])
	return len(f) > 0 && f[0] != "Z" && f[0] != "X"
}

// groupMembers lists the live processes whose process group is pgid
func groupMembers(pgid int) []int {
	var out []int
	ents, _ := os.ReadDir("/proc")
	for _, e := range ents {
		pid, err := strconv.Atoi(e.Name())
		if err != nil {
			continue
		}
		b, err := os.ReadFile(fmt.Sprintf("/proc/%d/stat", pid))
		if err != nil {
			continue
		}
		s := string(b)
		i := strings.LastIndex(s, ")")
		f := strings.Fields(s[i+1:])
		if len(f) < 3 || f[0] == "Z" || f[0] == "X" {
			continue
		}
		if g, _ := strconv.Atoi(f[2]); g == pgid {
			out = append(out, pid)
		}
	}
	return out
}

func wrapperPgid(dir string) int {
	b, err := os.ReadFile(filepath.Join(dir, "pids"))
	if err != nil {
		return 0
	}
	last := 0
	for _, l := range strings.Split(string(b), "\n") {
		f := strings.Fields(l)
		if len(f) == 2 && f[0] == "wrapper" {
			last, _ = strconv.Atoi(f[1])
		}
	}
	return last
}

// childMain is the simulated task process ("device"): started by the wrapping shell, it records its pid, forks
// background children into the same process group and then lives until told otherwise.
func childMain() {
	dir := os.Getenv("VERIF_DIR")
	f, _ := os.OpenFile(filepath.Join(dir, "pids"), os.O_APPEND|os.O_WRONLY|os.O_CREATE, 0o644)
	fmt.Fprintf(f, "device %d\n", os.Getpid())
	code, _ := strconv.Atoi(os.Getenv("VERIF_CODE"))
	forks, _ := strconv.Atoi(os.Getenv("VERIF_FORKS"))
	usr1 := make(chan os.Signal, 1)
	signal.Notify(usr1, syscall.SIGUSR1)
	if os.Getenv("VERIF_FIGN") == "1" {
		signal.Ignore(syscall.SIGTERM, syscall.SIGINT) // inherited by the forked children
	}
	for i := 0; i < forks; i++ {
		c := exec.Command("sleep", "300")
		// like a background job of a shell script, the forked process keeps the task's stdout and stderr
		c.Stdout, c.Stderr = os.Stdout, os.Stderr
		if err := c.Start(); err == nil {
			fmt.Fprintf(f, "fork %d\n", c.Process.Pid)
		}
	}
	if os.Getenv("VERIF_IGN") == "1" {
		signal.Ignore(syscall.SIGTERM, syscall.SIGINT)
	} else {
		signal.Reset(syscall.SIGTERM, syscall.SIGINT)
	}
	fmt.Fprintf(f, "started\n")
	f.Close()
	var exitTimer <-chan time.Time
	if v := os.Getenv("VERIF_EXIT_AFTER"); v != "-1" {
		ms, _ := strconv.Atoi(v)
		exitTimer = time.After(time.Duration(ms) * time.Millisecond)
	}
	select {
	case <-usr1:
	case <-exitTimer:
	}
	os.Exit(code)
}

func freePort() int {
	// (several checks share the machine: when the ephemeral ports run out for a moment, wait for one instead of dying)
	for i := 0; ; i++ {
		ln, err := net.Listen("tcp", "127.0.0.1:0")
		if err == nil {
			defer ln.Close()
			return ln.Addr().(*net.TCPAddr).Port
		}
		if i > 600 {
			fmt.Fprintln(os.Stderr, "execworker: no free port:", err)
			os.Exit(4)
		}
		time.Sleep(100 * time.Millisecond)
	}
}

func main() {
	if len(os.Args) > 1 && os.Args[1] == "--child" {
		childMain()
		return
	}
	logrus.SetOutput(io.Discard)
	logrus.SetLevel(logrus.PanicLevel)
	var plan Plan
	b, err := os.ReadFile(os.Args[1])
	if err == nil {
		err = json.Unmarshal(b, &plan)
	}
	if err != nil {
		fmt.Fprintln(os.Stderr, "execworker: bad plan:", err)
		os.Exit(3)
	}
	self, _ := os.Executable()
	port := freePort()

	envId := uid.New()
	shell := true
	// the wrapping shell is the process group leader; the "device" is its child, as with real task commands
	value := fmt.Sprintf("echo \"wrapper $$\" >> %s/pids; %s --child; exit $?", plan.Dir, self)
	if plan.Child.MissingBinary {
		shell = false
		value = plan.Dir + "/no-such-binary"
	}
	none := "none"
	var asUser *string
	if plan.Child.AsUser {
		if u, err := user.Current(); err == nil {
			asUser = &u.Username
		}
	}
	tci := common.TaskCommandInfo{
		CommandInfo: common.CommandInfo{
			Shell: &shell, Value: &value, Stdout: &none, Stderr: &none, User: asUser,
			Env: []string{
				"VERIF_DIR=" + plan.Dir,
				fmt.Sprintf("VERIF_IGN=%d", b2i(plan.Child.IgnoreSignals)),
				fmt.Sprintf("VERIF_FIGN=%d", b2i(plan.Child.ForksIgnoreSignals)),
				fmt.Sprintf("VERIF_FORKS=%d", plan.Child.Forks),
				fmt.Sprintf("VERIF_CODE=%d", plan.Child.ExitCode),
				fmt.Sprintf("VERIF_EXIT_AFTER=%d", plan.Child.ExitAfterMs),
			},
		},
		ControlPort: uint64(port),
	}
	switch plan.Kind {
	case "basic":
		tci.ControlMode = controlmode.BASIC
	case "hook":
		tci.ControlMode = controlmode.HOOK
		tci.Timeout = time.Duration(plan.HookTimeoutMs) * time.Millisecond
	default:
		tci.ControlMode = controlmode.DIRECT
		if plan.Device.FairMQ {
			tci.ControlMode = controlmode.FAIRMQ
		}
	}
	data, _ := json.Marshal(&tci)
	taskID := mesos.TaskID{Value: "verif-task-1"}
	ti := mesos.TaskInfo{
		Name:     "repo/tasks/verifclass@rev#verif-task-1",
		TaskID:   taskID,
		AgentID:  mesos.AgentID{Value: "agent-1"},
		Executor: &mesos.ExecutorInfo{ExecutorID: mesos.ExecutorID{Value: "exec-1"}},
		Data:     data,
		Labels:   &mesos.Labels{Labels: []mesos.Label{{Key: "environmentId", Value: sp(envId.String())}, {Key: "detector", Value: sp("TST")}}},
	}

	sendStatus := func(_ uid.ID, st mesos.TaskState, msg string) {
		if st != mesos.TASK_STARTING && st != mesos.TASK_STAGING {
			runMu.Lock()
			running = true
			if st != mesos.TASK_RUNNING {
				gone = true // performStatusUpdate removes the task from activeTasks: later requests find no task
			}
			runMu.Unlock()
		}
		emit(Obs{Kind: "status", State: st.String(), Detail: msg})
	}
	sendDev := func(_ uid.ID, ev event.DeviceEvent) {
		o := Obs{Kind: "devevent", Detail: ev.GetName()}
		if btt, ok := ev.(*event.BasicTaskTerminated); ok {
			o.State = btt.FinalMesosState.String()
			o.Detail = fmt.Sprintf("BASIC_TASK_TERMINATED exit=%d voluntary=%v", btt.ExitCode, btt.VoluntaryTermination)
		}
		emit(o)
	}
	sendMsg := func(m []byte) { emit(Obs{Kind: "message", Detail: string(m)}) }

	var dev *device
	if plan.Kind == "direct" {
		dev = &device{spec: plan.Device, plan: &plan, stop: make(chan struct{}), state: "INITIALIZING"}
		go dev.run(port)
	}

	task := executable.NewTask(ti, sendStatus, sendDev, sendMsg)
	if task == nil {
		emit(Obs{Kind: "note", Detail: "NewTask returned nil"})
		os.Exit(0)
	}
	emit(Obs{Kind: "op-start", Step: -1, Detail: "launch"})
	lerr := task.Launch()
	emit(Obs{Kind: "op-end", Step: -1, Detail: fmt.Sprintf("launch err=%v", lerr)})

	opTimeout := time.Duration(plan.OpTimeoutMs) * time.Millisecond
	var pending []chan struct{}
	for i, st := range plan.Steps {
		if st.Op != "await" {
			time.Sleep(time.Duration(st.DelayMs) * time.Millisecond)
		}
		done := make(chan struct{})
		i, st := i, st
		if st.Op != "await" && taskGone() {
			// executor/handlers.go: "no active task" / "invalid task ID"
			emit(Obs{Kind: "note", Step: i, Detail: "request not delivered: the task has reported a terminal status and is no longer active"})
			continue
		}
		if st.Op == "transition" && walkBroken() && !plan.KeepWalking {
			// the core does not send further transitions after one failed or timed out; it goes on to tear down
			emit(Obs{Kind: "note", Step: i, Detail: "transition skipped after an earlier failure"})
			continue
		}
		if st.Op == "await" {
			// wait until the task reported TASK_RUNNING (or any terminal status), at most DelayMs more
			deadline := time.Now().Add(time.Duration(st.DelayMs) * time.Millisecond)
			for time.Now().Before(deadline) && !sawRunning() {
				time.Sleep(10 * time.Millisecond)
			}
			emit(Obs{Kind: "note", Step: i, Detail: fmt.Sprintf("await done running=%v", sawRunning())})
			continue
		}
		{
			pg := wrapperPgid(plan.Dir)
			o := Obs{Kind: "op-start", Step: i, Detail: st.Op + " " + st.Event, Pgid: pg}
			if pg > 0 {
				o.Alive = groupMembers(pg)
			}
			emit(o)
		}
		go func() {
			defer close(done)
			switch st.Op {
			case "transition":
				cmd := controlcommands.NewMesosCommand_Transition(envId, []controlcommands.MesosCommandTarget{{AgentId: ti.AgentID, ExecutorId: ti.Executor.ExecutorID, TaskId: taskID}}, st.Src, st.Event, st.Dst, nil)
				raw, _ := json.Marshal(cmd)
				ec, err := task.UnmarshalTransition(raw)
				if err != nil {
					emit(Obs{Kind: "op-end", Step: i, Detail: "unmarshal error: " + err.Error(), State: "UNMARSHAL_ERROR"})
					breakWalk()
					return
				}
				resp := task.Transition(ec)
				es := ""
				if resp.Err() != nil {
					es = resp.Err().Error()
				}
				if resp.CurrentState != st.Dst {
					breakWalk()
				}
				emit(Obs{Kind: "op-end", Step: i, State: resp.CurrentState, Detail: es})
			case "trigger":
				ht, ok := task.(*executable.HookTask)
				if !ok {
					emit(Obs{Kind: "op-end", Step: i, Detail: "not a hook"})
					return
				}
				err := ht.Trigger()
				emit(Obs{Kind: "op-end", Step: i, Detail: fmt.Sprintf("trigger err=%v", err)})
			case "kill":
				err := task.Kill()
				emit(Obs{Kind: "op-end", Step: i, Detail: fmt.Sprintf("kill err=%v", err)})
			}
		}()
		if st.Async {
			pending = append(pending, done)
			continue
		}
		select {
		case <-done:
		case <-time.After(opTimeout):
			emit(Obs{Kind: "op-hang", Step: i, Detail: st.Op + " " + st.Event})
			breakWalk()
		}
	}
	for _, p := range pending {
		select {
		case <-p:
		case <-time.After(opTimeout):
			emit(Obs{Kind: "op-hang", Step: -2, Detail: "asynchronous request"})
		}
	}
	time.Sleep(time.Duration(plan.SettleMs) * time.Millisecond)
	pg := wrapperPgid(plan.Dir)
	o := Obs{Kind: "group", Pgid: pg}
	if pg > 0 {
		o.Alive = groupMembers(pg)
	}
	emit(o)
	emit(Obs{Kind: "cleanup"})
	if b, err := os.ReadFile(filepath.Join(plan.Dir, "pids")); err == nil {
		for _, l := range strings.Split(string(b), "\n") {
			if f := strings.Fields(l); len(f) == 2 && f[0] == "wrapper" {
				if g, _ := strconv.Atoi(f[1]); g > 1 {
					syscall.Kill(-g, syscall.SIGKILL)
				}
			}
		}
	}
	emit(Obs{Kind: "note", Detail: "worker done"})
	os.Exit(0)
}

var (
	runMu   sync.Mutex
	running bool
)

var broken, gone bool

func taskGone() bool {
	runMu.Lock()
	defer runMu.Unlock()
	return gone
}

func breakWalk() {
	runMu.Lock()
	broken = true
	runMu.Unlock()
}
func walkBroken() bool {
	runMu.Lock()
	defer runMu.Unlock()
	return broken
}

func sawRunning() bool {
	runMu.Lock()
	defer runMu.Unlock()
	return running
}

func b2i(b bool) int {
	if b {
		return 1
	}
	return 0
}
func sp(s string) *string { return &s }

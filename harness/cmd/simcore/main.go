// simcore is the real AliECS core (core.NewConfig + core.Run, exactly like cmd/o2-aliecs-core) plus
// one integration plugin registered through the public integration.RegisterPlugin ("verifprobe")
// and an event.Writer that forwards every published event to the verification harness.
package main

import (
	"bytes"
	"encoding/json"
	"fmt"
	"net/http"
	_ "net/http/pprof"
	"os"
	"sync/atomic"
	"time"

	"github.com/AliceO2Group/Control/common/event/topic"
	"github.com/AliceO2Group/Control/common/utils/uid"
	"github.com/AliceO2Group/Control/core"
	"github.com/AliceO2Group/Control/core/integration"
	"github.com/AliceO2Group/Control/core/integration/testplugin"
	"github.com/AliceO2Group/Control/core/the"
	"github.com/AliceO2Group/Control/core/workflow/callable"
	log "github.com/sirupsen/logrus"
	"google.golang.org/protobuf/encoding/protojson"
	"google.golang.org/protobuf/proto"
)

var harness = os.Getenv("VERIF_HARNESS")
var seq int64
var client = &http.Client{Timeout: 0}

func post(path string, v interface{}) map[string]interface{} {
	b, _ := json.Marshal(v)
	resp, err := client.Post("http://"+harness+path, "application/json", bytes.NewReader(b))
	if err != nil {
		return nil
	}
	defer resp.Body.Close()
	var out map[string]interface{}
	json.NewDecoder(resp.Body).Decode(&out)
	return out
}

type probe struct{}

func (p *probe) GetName() string                                       { return "verifprobe" }
func (p *probe) GetPrettyName() string                                 { return "verif probe" }
func (p *probe) GetEndpoint() string                                   { return harness }
func (p *probe) GetConnectionState() string                            { return "READY" }
func (p *probe) GetData(_ []any) string                                { return "" }
func (p *probe) GetEnvironmentsData(_ []uid.ID) map[uid.ID]string      { return nil }
func (p *probe) GetEnvironmentsShortData(_ []uid.ID) map[uid.ID]string { return nil }
func (p *probe) Init(_ string) error                                   { return nil }
func (p *probe) Destroy() error                                        { return nil }
func (p *probe) ObjectStack(_ map[string]string, _ map[string]string) map[string]interface{} {
	return map[string]interface{}{}
}

func (p *probe) CallStack(data interface{}) map[string]interface{} {
	call, ok := data.(*callable.Call)
	if !ok {
		return nil
	}
	return map[string]interface{}{
		// P([tag]) reports the call and its variable stack to the harness and obeys the reply
		"P": func(args ...string) string {
			vs := make(map[string]string, len(call.VarStack))
			for k, v := range call.VarStack {
				vs[k] = v
			}
			arg := ""
			if len(args) > 0 {
				arg = args[0]
			}
			rec := map[string]interface{}{
				"seq": atomic.AddInt64(&seq, 1), "phase": "start", "env": vs["environment_id"],
				"role": call.GetParentRolePath(), "trigger": call.Traits.Trigger, "await": call.Traits.Await, "arg": arg, "vars": vs,
			}
			reply := post("/probe", rec)
			ret := ""
			if reply != nil {
				if f, _ := reply["fail"].(string); f != "" {
					call.VarStack["__call_error"] = f
				}
				if set, ok := reply["set"].(map[string]interface{}); ok {
					if pr, ok := call.GetParentRole().(callable.ParentRole); ok {
						for k, v := range set {
							s, _ := v.(string)
							if len(k) > 7 && k[:7] == "global:" {
								pr.SetGlobalRuntimeVar(k[7:], s)
							} else if k == "return" {
								ret = s
							} else {
								pr.SetRuntimeVar(k, s)
							}
						}
					}
				}
			}
			rec["seq"] = atomic.AddInt64(&seq, 1)
			rec["phase"] = "end"
			delete(rec, "vars")
			post("/probe", rec)
			return ret
		},
	}
}

type fwd struct{ topic string }

func (f *fwd) WriteEvent(e interface{}) { f.WriteEventWithTimestamp(e, time.Now()) }
func (f *fwd) WriteEventWithTimestamp(e interface{}, _ time.Time) {
	m, ok := e.(proto.Message)
	if !ok {
		return
	}
	b, _ := protojson.MarshalOptions{UseProtoNames: false, EmitUnpopulated: false}.Marshal(m)
	post("/event", map[string]interface{}{"seq": atomic.AddInt64(&seq, 1), "topic": f.topic, "type": fmt.Sprintf("%T", e), "ev": json.RawMessage(b)})
}
func (f *fwd) Close() {}

func main() {
	integration.RegisterPlugin("testplugin", "testPluginEndpoint", testplugin.NewPlugin)
	integration.RegisterPlugin("verifprobe", "verifProbeEndpoint", func(string) integration.Plugin { return &probe{} })
	for _, t := range []topic.Topic{topic.Environment, topic.Run, topic.Call, topic.Role, topic.Task, topic.Core, topic.IntegratedService, topic.Root} {
		the.VerifInstallEventWriter(t, &fwd{string(t)})
	}
	if pp := os.Getenv("VERIF_PPROF"); pp != "" {
		go http.ListenAndServe(pp, nil)
	}
	log.SetOutput(os.Stdout)
	if err := core.NewConfig(); err != nil {
		log.Fatal(err)
	}
	if err := core.Run(); err != nil {
		log.Fatal(err)
	}
}

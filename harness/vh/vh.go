// Package vh is the glue between the generated checks and the ./check driver:
// case logging (JSONL), replay files, known-findings lookup, replay mode.
package vh

import (
	"crypto/sha256"
	"encoding/hex"
	"encoding/json"
	"fmt"
	"os"
	"path/filepath"
	"strconv"
	"strings"
	"sync"
	"testing"

	"pgregory.net/rapid"
)

// Result is what one executed case reports.
type Result struct {
	Classes      []string    // labels for the class histogram
	NonTrivial   bool        // non-trivial by the property's stated rule
	Digest       string      // optional; defaults to sha256 of the case JSON
	Violation    string      // non-empty: the oracle's explanation of the violation
	Signature    string      // structural signature of the violation (matched against known findings)
	Inconclusive string      // non-empty: the case could not be decided (budget / environment)
	ExcludedBy   string      // finding id whose exclusion shaped this case ("" if none)
	History      interface{} // observed history, stored in the replay file
	Sample       interface{} // optional compact rendering of the case for evidence samples
}

type record struct {
	Kind         string      `json:"kind"` // case | violation | known | canary | note
	Test         string      `json:"test"`
	Digest       string      `json:"digest,omitempty"`
	Classes      []string    `json:"classes,omitempty"`
	NonTrivial   bool        `json:"nontrivial,omitempty"`
	Shrink       bool        `json:"shrink,omitempty"`
	Inconclusive string      `json:"inconclusive,omitempty"`
	ExcludedBy   string      `json:"excluded_by,omitempty"`
	Sample       interface{} `json:"sample,omitempty"`
	Replay       string      `json:"replay,omitempty"`
	Message      string      `json:"message,omitempty"`
	Signature    string      `json:"signature,omitempty"`
	Finding      string      `json:"finding,omitempty"`
	N            int         `json:"n,omitempty"`
}

var (
	mu        sync.Mutex
	logf      *os.File
	failed    = map[string]bool{} // test name -> a failure was already seen (later cases are shrink runs)
	sampleCnt = map[string]int{}
)

func logRecord(r record) {
	mu.Lock()
	defer mu.Unlock()
	if logf == nil {
		p := os.Getenv("VERIF_CASELOG")
		if p == "" {
			return
		}
		f, err := os.OpenFile(p, os.O_CREATE|os.O_WRONLY|os.O_APPEND, 0o644)
		if err != nil {
			return
		}
		logf = f
	}
	b, _ := json.Marshal(r)
	logf.Write(append(b, '\n'))
}

// Tier returns "quick" or "thorough".
func Tier() string {
	if os.Getenv("VERIF_TIER") == "thorough" {
		return "thorough"
	}
	return "quick"
}

// Scale picks a value by tier.
func Scale(quick, thorough int) int {
	if Tier() == "thorough" {
		return thorough
	}
	return quick
}

// Shard returns this worker's shard index and the number of shards.
func Shard() (int, int) {
	i, _ := strconv.Atoi(os.Getenv("VERIF_SHARD"))
	n, _ := strconv.Atoi(os.Getenv("VERIF_SHARDS"))
	if n <= 0 {
		n = 1
	}
	return i, n
}

// Seed is the per-shard seed derived by the driver (never 0).
func Seed() int64 {
	s, _ := strconv.ParseInt(os.Getenv("VERIF_SHARD_SEED"), 10, 64)
	if s == 0 {
		s = 1
	}
	return s
}

func digestOf(v interface{}) string {
	b, _ := json.Marshal(v)
	h := sha256.Sum256(b)
	return hex.EncodeToString(h[:8])
}

// ---------------------------------------------------------------------------------------------
// known findings

type Finding struct {
	ID        string `json:"id"`
	Property  string `json:"property"`
	Status    string `json:"status"` // open | fixed
	Commit    string `json:"commit,omitempty"`
	Signature string `json:"signature"`
	WhatFails string `json:"what_fails"`
}

var (
	findingsOnce sync.Once
	findings     []Finding
)

func loadFindings() {
	findingsOnce.Do(func() {
		p := os.Getenv("VERIF_FINDINGS")
		if p == "" {
			p = "/verif/known_findings.json"
		}
		b, err := os.ReadFile(p)
		if err != nil {
			return
		}
		var doc struct {
			Findings []Finding `json:"findings"`
		}
		if json.Unmarshal(b, &doc) == nil {
			findings = doc.Findings
		}
	})
}

// Open reports whether finding id is listed as open in the committed known-findings file.
func Open(id string) bool {
	loadFindings()
	for _, f := range findings {
		if f.ID == id && f.Status == "open" {
			return true
		}
	}
	return false
}

// openBySignature returns the id of the open finding with exactly this signature.
func openBySignature(prop, sig string) string {
	loadFindings()
	if sig == "" {
		return ""
	}
	for _, f := range findings {
		if f.Status == "open" && f.Property == prop && f.Signature == sig {
			return f.ID
		}
	}
	return ""
}

// ---------------------------------------------------------------------------------------------
// running properties

func replayDir() string {
	d := os.Getenv("VERIF_REPLAY_DIR")
	if d == "" {
		d = "/verif/replays"
	}
	os.MkdirAll(d, 0o755)
	return d
}

type replayFile struct {
	Property  string          `json:"property"`
	Test      string          `json:"test"`
	Seed      int64           `json:"seed"`
	Case      json.RawMessage `json:"case"`
	Violation string          `json:"violation"`
	Signature string          `json:"signature,omitempty"`
	History   interface{}     `json:"history,omitempty"`
}

func writeReplay(prop, test string, c interface{}, res Result) string {
	cb, _ := json.Marshal(c)
	shard, _ := Shard()
	p := filepath.Join(replayDir(), fmt.Sprintf("%s-%s-seed%d-shard%d.json", prop, strings.NewReplacer("/", "_", " ", "_").Replace(test), Seed(), shard))
	b, _ := json.MarshalIndent(replayFile{Property: prop, Test: test, Seed: Seed(), Case: cb, Violation: res.Violation, Signature: res.Signature, History: res.History}, "", " ")
	os.WriteFile(p, b, 0o644)
	return p
}

// TB is the subset of testing.TB / *rapid.T used by check bodies.
type TB interface {
	Logf(format string, args ...any)
}

// handle logs one executed case; returns the violation message to fail with ("" if none).
func handle(prop, test string, c interface{}, res Result, canary bool) string {
	d := res.Digest
	if d == "" {
		d = digestOf(c)
	}
	mu.Lock()
	shrink := failed[test]
	var sample interface{}
	if !shrink && res.NonTrivial && sampleCnt[test] < 4 {
		sampleCnt[test]++
		sample = res.Sample
		if sample == nil {
			sample = c
		}
	}
	mu.Unlock()
	logRecord(record{Kind: "case", Test: test, Digest: d, Classes: res.Classes, NonTrivial: res.NonTrivial, Shrink: shrink,
		Inconclusive: res.Inconclusive, ExcludedBy: res.ExcludedBy, Sample: sample})
	if res.Violation == "" {
		return ""
	}
	if id := openBySignature(prop, res.Signature); id != "" {
		logRecord(record{Kind: "known", Test: test, Finding: id, Message: res.Violation, Signature: res.Signature})
		return ""
	}
	p := writeReplay(prop, test, c, res)
	mu.Lock()
	failed[test] = true
	mu.Unlock()
	logRecord(record{Kind: "violation", Test: test, Replay: p, Message: res.Violation, Signature: res.Signature})
	return res.Violation
}

// Check runs a generated property: gen draws a JSON-serialisable case, run executes it against
// the real code and the oracle. In replay mode (VERIF_REPLAY set and naming this test) the saved
// case is executed once without rapid.
func Check[C any](t *testing.T, prop string, gen func(*rapid.T) C, run func(C) Result) {
	test := t.Name()
	if rp := os.Getenv("VERIF_REPLAY"); rp != "" {
		b, err := os.ReadFile(rp)
		if err != nil {
			t.Skipf("replay file: %v", err)
		}
		var rf replayFile
		if err := json.Unmarshal(b, &rf); err != nil || rf.Test != test {
			t.Skip("replay file is for another test")
		}
		var c C
		if err := json.Unmarshal(rf.Case, &c); err != nil {
			t.Fatalf("replay case: %v", err)
		}
		res := run(c)
		if res.Violation != "" {
			logRecord(record{Kind: "violation", Test: test, Replay: rp, Message: res.Violation, Signature: res.Signature})
			t.Fatalf("REPLAY reproduces violation: %s", res.Violation)
		}
		logRecord(record{Kind: "note", Test: test, Message: "replay did not reproduce"})
		return
	}
	if os.Getenv("VERIF_ONLY_FIXED") != "" {
		t.Skip("fixed-cases-only run")
	}
	rapid.Check(t, func(rt *rapid.T) {
		c := gen(rt)
		res := run(c)
		if msg := handle(prop, test, c, res, false); msg != "" {
			rt.Fatalf("%s", msg)
		}
	})
}

// Fixed runs one hand-written or previously shrunk case as a plain regression check.
func Fixed[C any](t *testing.T, prop string, name string, c C, run func(C) Result) {
	test := t.Name() + "/" + name
	if rp := os.Getenv("VERIF_REPLAY"); rp != "" {
		b, err := os.ReadFile(rp)
		var rf replayFile
		if err != nil || json.Unmarshal(b, &rf) != nil || rf.Test != test {
			return
		}
		res := run(c)
		if res.Violation != "" {
			logRecord(record{Kind: "violation", Test: test, Replay: rp, Message: res.Violation, Signature: res.Signature})
			t.Errorf("REPLAY reproduces violation: %s", res.Violation)
		}
		return
	}
	res := run(c)
	if msg := handle(prop, test, c, res, false); msg != "" {
		t.Errorf("%s: %s", name, msg)
	}
}

// Canary runs the fixed reproduction of an open known finding. It is skipped (and nothing is
// printed) when the finding is not listed as open. If the case still violates, the driver prints
// KNOWN-FINDING; if not, a notice.
func Canary[C any](t *testing.T, prop, finding string, c C, run func(C) Result) {
	if !Open(finding) || os.Getenv("VERIF_REPLAY") != "" {
		return
	}
	res := run(c)
	if res.Violation != "" {
		logRecord(record{Kind: "canary", Test: t.Name(), Finding: finding, Message: res.Violation, Signature: res.Signature, N: 1})
	} else {
		msg := "canary did not reproduce on this run"
		if res.Inconclusive != "" {
			msg += " (inconclusive: " + res.Inconclusive + ")"
		}
		logRecord(record{Kind: "canary", Test: t.Name(), Finding: finding, Message: msg, N: 0})
		t.Logf("canary %s: %s; classes=%v history=%v", finding, msg, res.Classes, res.History)
	}
}

// Note writes a free-form note into the case log (shown in evidence).
func Note(test, msg string) { logRecord(record{Kind: "note", Test: test, Message: msg}) }

// LogCase lets non-rapid loops (exhaustive enumerations, fuzz targets) record a case.
// It returns the violation message to fail with.
func LogCase(prop, test string, c interface{}, res Result) string {
	return handle(prop, test, c, res, false)
}

// Summary records an aggregated count of cases (used by exhaustive enumerations that would
// otherwise write millions of lines): n evaluations of which nt distinct non-trivial.
func Summary(test string, n, nt int, classes map[string]int, samples []interface{}, exhaustive bool) {
	type sum struct {
		Kind       string         `json:"kind"`
		Test       string         `json:"test"`
		N          int            `json:"n"`
		NT         int            `json:"nt"`
		Classes    map[string]int `json:"class_counts"`
		Samples    []interface{}  `json:"samples"`
		Exhaustive bool           `json:"exhaustive"`
	}
	b, _ := json.Marshal(sum{"summary", test, n, nt, classes, samples, exhaustive})
	mu.Lock()
	defer mu.Unlock()
	if logf == nil {
		p := os.Getenv("VERIF_CASELOG")
		if p == "" {
			return
		}
		f, err := os.OpenFile(p, os.O_CREATE|os.O_WRONLY|os.O_APPEND, 0o644)
		if err != nil {
			return
		}
		logf = f
	}
	logf.Write(append(b, '\n'))
}

// Confirmed wraps a whole-core check whose verdict depends on real time: a violation is reported only if a
// second execution of the same case reports one too (crashes and race reports of the core are never retried).
func Confirmed[C any](run func(C) Result) func(C) Result {
	return func(c C) Result {
		r := run(c)
		if r.Violation == "" || strings.HasPrefix(r.Signature, "core-crash") || strings.HasPrefix(r.Signature, "data-race") {
			return r
		}
		r2 := run(c)
		if r2.Violation == "" {
			r2.Inconclusive = "a violation was reported by the first execution and not by the second: " + r.Violation
			r2.Classes = append(r2.Classes, "unconfirmed-violation")
			return r2
		}
		return r2
	}
}

// Package hooklib runs generated hook sets (probe calls and hook tasks) over generated walks of one
// environment against the whole core and returns the joined trace; the oracles of C08, C09 and C10 work on it.
package hooklib

import (
	"fmt"
	"os"
	"strings"
	"sync"
	"sync/atomic"
	"time"

	pb "github.com/AliceO2Group/Control/core/protos"

	"verifharness/simworld"
)

// Hook is one generated hook.
type Hook struct {
	Kind     string // call | task
	Trigger  string // moment name, e.g. before_START_ACTIVITY, leave_CONFIGURED, DESTROY
	TWeight  int
	Await    string // moment name ("" = same as trigger)
	AWeight  int
	Critical bool
	Timeout  string
}

func (h Hook) TriggerExpr() string { return fmt.Sprintf("%s%+d", h.Trigger, h.TWeight) }
func (h Hook) AwaitExpr() string {
	if h.Await == "" {
		return h.TriggerExpr()
	}
	return fmt.Sprintf("%s%+d", h.Await, h.AWeight)
}

// Spec is a generated scenario.
type Spec struct {
	NTasks  int
	Hooks   []Hook
	Walk    []string // transitions requested after creation: START_ACTIVITY STOP_ACTIVITY RESET CONFIGURE GO_ERROR
	Destroy bool     // destroy (forced) at the end
}

// ProbeEvent is a probe report attributed to its hook.
type ProbeEvent struct {
	Seq     int64
	Hook    int
	Phase   string // start | end
	Bracket int    // index into Trace.Brackets (-1: outside any transition)
	Step    string // moment the report fell into ("" = none)
	Vars    map[string]string
}

type CommandEvent struct {
	Seq     int64
	Event   string
	TaskID  string
	Name    string // MesosCommand_Transition | MesosCommand_TriggerHook
	Bracket int
}

type StepResult struct {
	Op    string
	State string
	Run   uint32
	Err   string
}

type Trace struct {
	EnvID     string
	Created   bool
	CreateErr string
	Brackets  []simworld.Bracket
	Probes    []ProbeEvent
	Commands  []CommandEvent
	Results   []StepResult
	Viol      []string // structural violations found while parsing brackets
	Events    []simworld.EnvEvent
	Crash     string
}

// Moments returns the documented order of moments of transition ev from state src.
func Moments(ev, src string) []string {
	dst, _ := simworld.LegalFrom(ev, src)
	return []string{"before_" + ev, "leave_" + src, "tasks_" + ev, "enter_" + dst, "after_" + ev}
}

var ops = map[string]pb.ControlEnvironmentRequest_Optype{
	"CONFIGURE": pb.ControlEnvironmentRequest_CONFIGURE, "START_ACTIVITY": pb.ControlEnvironmentRequest_START_ACTIVITY,
	"STOP_ACTIVITY": pb.ControlEnvironmentRequest_STOP_ACTIVITY, "RESET": pb.ControlEnvironmentRequest_RESET,
	"GO_ERROR": pb.ControlEnvironmentRequest_GO_ERROR, "DEPLOY": pb.ControlEnvironmentRequest_DEPLOY,
}

var seq int64
var hostNames = []string{"hosta", "hostb", "hostc"}

// Callbacks let a property script the world while the scenario runs.
type Callbacks struct {
	// OnProbe decides the reply for the start report of hook h (may block). occurrence counts starts of that hook.
	OnProbe func(h int, occurrence int, p simworld.ProbeRec) simworld.ProbeReply
	// OnCommand decides the reply of a (non-hook) task to a transition command.
	OnCommand func(task int, cmd *simworld.Command) simworld.Reply
	// OnTrigger decides how hook task h reacts to its trigger: the executor's reply plus the termination it announces afterwards.
	OnTrigger func(h int, cmd *simworld.Command) HookRun
	// BeforeStep is called before each walk step is requested.
	BeforeStep func(i int, op string)
}

// HookRun describes what a triggered hook task does.
type HookRun struct {
	ReplyError  string        // non-empty: the trigger command itself is answered with an error
	NoReply     bool          // trigger command never answered
	ExitCode    int           // exit code announced with BASIC_TASK_TERMINATED
	Involuntary bool          // termination not voluntary
	Never       bool          // never terminates (hook timeout)
	After       time.Duration // run time before termination
	Hold        *simworld.Gate
}

// Run executes the scenario on w and returns the joined trace.
func Run(w *simworld.World, spec Spec, cb Callbacks) *Trace {
	n := atomic.AddInt64(&seq, 1)
	wf := fmt.Sprintf("wfh%dx%d", os.Getpid(), n)
	var sb strings.Builder
	fmt.Fprintf(&sb, "name: %s\ndefaults:\n  deploy_timeout: 6s\nroles:\n", wf)
	taskIdx := map[string]int{}
	hookIdx := map[string]int{}
	for i := 0; i < spec.NTasks; i++ {
		cls := fmt.Sprintf("h%dx%dt%d", os.Getpid(), n, i)
		taskIdx[cls] = i
		fmt.Fprintf(&sb, "  - name: t%d\n    constraints:\n      - attribute: machine_id\n        value: %s\n    task:\n      load: %s\n", i, hostNames[i%3], cls)
		w.WriteTask(cls, simworld.TaskClassYAML(cls, "direct", ""))
	}
	for i, h := range spec.Hooks {
		to := h.Timeout
		if to == "" {
			to = "8s"
		}
		if h.Kind == "task" {
			cls := fmt.Sprintf("h%dx%dk%d", os.Getpid(), n, i)
			hookIdx[cls] = i
			fmt.Fprintf(&sb, "  - name: hk%d\n    constraints:\n      - attribute: machine_id\n        value: %s\n    task:\n      load: %s\n      trigger: %s\n      timeout: %s\n      critical: %v\n",
				i, hostNames[i%3], cls, h.TriggerExpr(), to, h.Critical)
			w.WriteTask(cls, simworld.TaskClassYAML(cls, "hook", ""))
			continue
		}
		fmt.Fprintf(&sb, "  - name: hk%d\n    call:\n      func: verifprobe.P(\"h%d\")\n      trigger: %s\n      await: %s\n      timeout: %s\n      critical: %v\n", i, i, h.TriggerExpr(), h.AwaitExpr(), to, h.Critical)
	}
	w.WriteWorkflow(wf, sb.String())

	var mu sync.Mutex
	occ := map[int]int{}
	w.OnProbe = func(p simworld.ProbeRec) simworld.ProbeReply {
		if !strings.HasPrefix(p.Role, wf+".") || !strings.HasPrefix(p.Arg, "h") {
			return simworld.ProbeReply{}
		}
		var hi int
		fmt.Sscanf(p.Arg, "h%d", &hi)
		mu.Lock()
		occ[hi]++
		o := occ[hi]
		mu.Unlock()
		if cb.OnProbe != nil {
			return cb.OnProbe(hi, o, p)
		}
		return simworld.ProbeReply{}
	}
	w.Master.OnCommand = func(t *simworld.SimTask, cmd *simworld.Command) simworld.Reply {
		if i, ok := taskIdx[simworld.ClassOf(t)]; ok && cb.OnCommand != nil {
			return cb.OnCommand(i, cmd)
		}
		return simworld.Reply{}
	}
	w.Master.OnTrigger = func(t *simworld.SimTask, cmd *simworld.Command) simworld.Reply {
		hi, ok := hookIdx[simworld.ClassOf(t)]
		if !ok {
			return simworld.Reply{}
		}
		hr := HookRun{}
		if cb.OnTrigger != nil {
			hr = cb.OnTrigger(hi, cmd)
		}
		id := t.ID
		terminate := func() {
			if hr.Hold != nil {
				hr.Hold.Wait()
			}
			if hr.After > 0 {
				time.Sleep(hr.After)
			}
			if hr.Never {
				return
			}
			simworld.AnnounceBasicTaskTerminated(w.Master, id, hr.ExitCode, !hr.Involuntary)
		}
		if hr.NoReply {
			return simworld.Reply{NoReply: true}
		}
		if hr.ReplyError != "" {
			return simworld.Reply{Error: hr.ReplyError}
		}
		return simworld.Reply{Then: func() { go terminate() }}
	}

	tr := &Trace{}
	env, err := w.NewEnv(wf, nil, 60*time.Second)
	tr.EnvID = env.GetId()
	if err != nil {
		tr.CreateErr = err.Error()
		// the id is needed to read the events of the failed creation
		for _, e := range w.EnvEvents("") {
			if e.Transition == "CREATE" {
				tr.EnvID = e.Env
			}
		}
	} else {
		tr.Created = true
		for i, op := range spec.Walk {
			if cb.BeforeStep != nil {
				cb.BeforeStep(i, op)
			}
			rep, err := w.Control(tr.EnvID, ops[op], 120*time.Second)
			sr := StepResult{Op: op, State: rep.GetState(), Run: rep.GetCurrentRunNumber()}
			if err != nil {
				sr.Err = err.Error()
			}
			tr.Results = append(tr.Results, sr)
			if c := w.CoreCrash(); c != "" {
				tr.Crash = c
				return tr
			}
		}
		if spec.Destroy {
			if cb.BeforeStep != nil {
				cb.BeforeStep(len(spec.Walk), "DESTROY")
			}
			_, err := w.Destroy(tr.EnvID, true, true, false, 120*time.Second)
			sr := StepResult{Op: "DESTROY"}
			if err != nil {
				sr.Err = err.Error()
			}
			tr.Results = append(tr.Results, sr)
		}
	}
	tr.Crash = w.CoreCrash()
	// calls that nobody awaited may still be running (asynchronously): give their reports a moment to arrive
	deadline := time.Now().Add(2 * time.Second)
	for time.Now().Before(deadline) {
		st, en := 0, 0
		for _, p := range w.Probes() {
			if strings.HasPrefix(p.Role, wf+".") {
				if p.Phase == "start" {
					st++
				} else {
					en++
				}
			}
		}
		if st == en {
			break
		}
		time.Sleep(20 * time.Millisecond)
	}
	Collect(w, tr, wf, taskIdx, hookIdx)
	return tr
}

// Collect joins events, probes and commands into the trace.
func Collect(w *simworld.World, tr *Trace, wf string, taskIdx, hookIdx map[string]int) {
	tr.Events = w.EnvEvents(tr.EnvID)
	tr.Brackets, tr.Viol = simworld.ParseBrackets(tr.Events)
	where := func(seq int64) (int, string) {
		for bi, b := range tr.Brackets {
			cl := b.Close
			if cl == 0 {
				cl = 1 << 62
			}
			if seq > b.Open && seq < cl {
				for _, sw := range b.Windows {
					e := sw.End
					if e == 0 {
						e = 1 << 62
					}
					if seq > sw.Start && seq < e {
						return bi, sw.Name
					}
				}
				return bi, ""
			}
		}
		return -1, ""
	}
	for _, p := range w.Probes() {
		if !strings.HasPrefix(p.Role, wf+".") || !strings.HasPrefix(p.Arg, "h") {
			continue
		}
		var hi int
		fmt.Sscanf(p.Arg, "h%d", &hi)
		bi, st := where(p.Seq)
		tr.Probes = append(tr.Probes, ProbeEvent{Seq: p.Seq, Hook: hi, Phase: p.Phase, Bracket: bi, Step: st, Vars: p.Vars})
	}
	for _, cl := range w.Master.Calls() {
		if cl.Type != "MESSAGE" || cl.Command == nil || cl.Command.EnvId != tr.EnvID {
			continue
		}
		bi, _ := where(cl.Seq)
		tr.Commands = append(tr.Commands, CommandEvent{Seq: cl.Seq, Event: cl.Command.Event, TaskID: cl.TaskID, Name: cl.Command.Name, Bracket: bi})
	}
}

package c15

import (
	"encoding/json"
	"fmt"
	"os"
	"path/filepath"
	"sort"
	"strings"
	"sync/atomic"
	"testing"
	"time"

	pb "github.com/AliceO2Group/Control/core/protos"
	"pgregory.net/rapid"

	"verifharness/simworld"
	"verifharness/vh"
)

const prop = "C15"

// N is a node of the generated workflow template grammar.
type N struct {
	Kind     string // agg | task | call | include
	Base     string
	Enabled  string // "" | "true" | "false" | "{{ fa }}" ...
	Iter     string // "" | range | beginend : the role is an iterator over the list variable / begin..end
	IterN    int    // number of elements (0-4)
	IterVar  string
	Children []*N
	Err      string // "" | name | enabled | range | instance : a template error injected in this role (instance: only where ErrVar is a,b,c,d or 0)
	ErrVar   string
	DepVar   string // iterator only: the number of elements depends on this enclosing iteration variable (depCount)
	VarRef   string // the role defines vars.v<Base> = "{{ VarRef }}x" (a reference to an iteration variable of this or an enclosing role)
}

// depCount: number of elements of a dependent iterator as a function of the enclosing iteration value
var depCount = map[string]int{"a": 1, "b": 3, "c": 2, "d": 0, "0": 2, "1": 0, "2": 3, "3": 1}
var depOrder = []string{"a", "b", "c", "d", "0", "1", "2", "3"}

func depExpr(v string, render func(n int) string) string {
	e := render(0)
	for i := len(depOrder) - 1; i >= 0; i-- {
		e = fmt.Sprintf("%s == '%s' ? %s : (%s)", v, depOrder[i], render(depCount[depOrder[i]]), e)
	}
	return "{{ " + e + " }}"
}

type Case struct {
	Root     []*N
	Included []*N // roles of the second file (used by include roles)
}

var caseSeq int64

// ---- reference: truth value of the generated enabled expressions (root defaults: fa=true fb=false fc=x)
var enabledTruth = map[string]bool{"": true, "true": true, "false": false, "{{ fa }}": true, "{{ fb }}": false, "{{ fc == 'x' }}": true, "{{ fc == 'y' }}": false, " true ": true, "1": true}

var elems = []string{"a", "b", "c", "d"}

func (n *N) yaml(sb *strings.Builder, indent string, cls string, incl string) {
	name := n.Base
	if n.Iter != "" {
		name = n.Base + "-{{ " + n.IterVar + " }}"
	}
	if n.Err == "name" {
		name = n.Base + "{{ no_such_function(1) }}"
	}
	if n.Err == "unclosed-name" {
		name = n.Base + "-{{ fc }" // "}}" mistyped
	}
	fmt.Fprintf(sb, "%s- name: \"%s\"\n", indent, name)
	en := n.Enabled
	if n.Err == "enabled" {
		en = "{{ no_such_function(2) }}"
	}
	if n.Err == "unclosed-enabled" {
		en = "{{ fa }"
	}
	if en != "" {
		fmt.Fprintf(sb, "%s  enabled: \"%s\"\n", indent, en)
	}
	switch n.Iter {
	case "range":
		r := fmt.Sprintf("{{ lst%d }}", n.IterN)
		if n.DepVar != "" {
			r = depExpr(n.DepVar, func(k int) string { return fmt.Sprintf("lst%d", k) })
		}
		if n.Err == "range" {
			r = "{{ no_such_list }}"
		}
		fmt.Fprintf(sb, "%s  for:\n%s    range: \"%s\"\n%s    var: %s\n", indent, indent, r, indent, n.IterVar)
	case "beginend":
		e := fmt.Sprintf("%d", n.IterN-1)
		if n.DepVar != "" {
			e = depExpr(n.DepVar, func(k int) string { return fmt.Sprintf("%d", k-1) })
		}
		if n.Err == "range" {
			e = "{{ no_such_end }}"
		}
		fmt.Fprintf(sb, "%s  for:\n%s    begin: \"0\"\n%s    end: \"%s\"\n%s    var: %s\n", indent, indent, indent, e, indent, n.IterVar)
	}
	if n.VarRef != "" || n.Err == "scope" || n.Err == "unclosed-var" {
		fmt.Fprintf(sb, "%s  vars:\n", indent)
		if n.VarRef != "" {
			fmt.Fprintf(sb, "%s    v%s: \"{{ %s }}x\"\n", indent, n.Base, n.VarRef)
		}
		if n.Err == "unclosed-var" {
			fmt.Fprintf(sb, "%s    verr: \"{{ fc }-x\"\n", indent)
		}
		if n.Err == "scope" {
			// the iteration variable of an iterator elsewhere in the document (role scsrc): not in scope here. The same text is a
			// valid expression there.
			fmt.Fprintf(sb, "%s    verr: \"{{ oos }}x\"\n", indent)
		}
	}
	switch n.Kind {
	case "agg":
		fmt.Fprintf(sb, "%s  roles:\n", indent)
		for _, ch := range n.Children {
			ch.yaml(sb, indent+"    ", cls, incl)
		}
	case "task":
		fmt.Fprintf(sb, "%s  constraints:\n%s    - attribute: machine_id\n%s      value: hosta\n%s  task:\n%s    load: %s\n", indent, indent, indent, indent, indent, cls)
	case "call":
		fmt.Fprintf(sb, "%s  call:\n%s    func: verifprobe.P(\"c15\")\n%s    trigger: before_START_ACTIVITY\n%s    timeout: 5s\n%s    critical: false\n", indent, indent, indent, indent, indent)
	case "include":
		fmt.Fprintf(sb, "%s  include: %s\n", indent, incl)
	}
}

type expRole struct {
	Path string
	Kind string
	Iter map[string]string // iteration variables bound for this role
}

// expand: the reference expander
func expand(nodes []*N, prefix string, bound map[string]string, included []*N, out *[]expRole, reached *bool) int {
	count := 0
	for _, n := range nodes {
		if !enabledTruth[n.Enabled] && n.Err != "enabled" && n.Err != "unclosed-enabled" {
			continue
		}
		inst := []map[string]string{bound}
		names := []string{n.Base}
		if n.Iter != "" {
			if n.Err == "range" {
				*reached = true
				continue
			}
			inst, names = nil, nil
			cnt := n.IterN
			if n.DepVar != "" {
				cnt = depCount[bound[n.DepVar]]
			}
			for i := 0; i < cnt; i++ {
				e := elems[i%4]
				if n.Iter == "beginend" {
					e = fmt.Sprintf("%d", i)
				}
				b := map[string]string{}
				for k, v := range bound {
					b[k] = v
				}
				b[n.IterVar] = e
				inst = append(inst, b)
				names = append(names, n.Base+"-"+e)
			}
		}
		for i, b := range inst {
			if n.Err != "" && (n.Err != "instance" || strings.Contains("abcd0", b[n.ErrVar])) {
				*reached = true
			}
			if n.VarRef != "" {
				b2 := map[string]string{}
				for k, v := range b {
					b2[k] = v
				}
				b2["v"+n.Base] = b[n.VarRef] + "x"
				b = b2
			}
			path := prefix + "." + names[i]
			switch n.Kind {
			case "task", "call":
				*out = append(*out, expRole{path, n.Kind, b})
				count++
			case "agg", "include":
				mark := len(*out)
				*out = append(*out, expRole{path, "agg", b})
				ch := n.Children
				if n.Kind == "include" {
					ch = included
				}
				if expand(ch, path, b, included, out, reached) == 0 {
					*out = (*out)[:mark] // an aggregator left empty disappears
				} else {
					count++
				}
			}
		}
	}
	return count
}

type coreSet struct {
	on, off *simworld.World
}

var cores coreSet

func getCores() (*coreSet, error) {
	mk := func(flags []string, name string) (*simworld.World, error) {
		ag, det := simworld.DefaultAgents()
		return simworld.NewWorld(simworld.Options{Agents: ag, Detectors: det, CoreFlags: flags, ScratchName: name, Race: os.Getenv("VERIF_RACE") != ""})
	}
	if cores.on == nil || !cores.on.CoreAlive() {
		if cores.on != nil {
			cores.on.Close()
		}
		w, err := mk(nil, "on")
		if err != nil {
			return nil, err
		}
		cores.on = w
	}
	if cores.off == nil || !cores.off.CoreAlive() {
		if cores.off != nil {
			cores.off.Close()
		}
		w, err := mk([]string{"--concurrentWorkflowTemplateProcessing=false", "--concurrentWorkflowTemplateIteratorProcessing=false", "--concurrentIteratorRoleExpansion=false"}, "off")
		if err != nil {
			return nil, err
		}
		cores.off = w
	}
	return &cores, nil
}

func closeCores() {
	if cores.on != nil {
		cores.on.Close()
		cores.on = nil
	}
	if cores.off != nil {
		cores.off.Close()
		cores.off = nil
	}
}

// dump: canonical rendering of the loaded tree (paths in order, iteration variables, own vars of the generated keys)
func dump(r *pb.RoleInfo, out *[]string) {
	keys := []string{}
	for k := range r.ConsolidatedStack {
		if strings.HasPrefix(k, "it") || strings.HasPrefix(k, "f") && len(k) == 2 || strings.HasPrefix(k, "lst") || strings.HasPrefix(k, "vr") {
			keys = append(keys, k)
		}
	}
	sort.Strings(keys)
	kv := []string{}
	for _, k := range keys {
		kv = append(kv, k+"="+r.ConsolidatedStack[k])
	}
	*out = append(*out, fmt.Sprintf("%s tasks=%d %s", r.FullPath, len(r.TaskIds), strings.Join(kv, ",")))
	for _, ch := range r.Roles {
		dump(ch, out)
	}
}

func run(c Case) (res vh.Result) {
	cs, err := getCores()
	if err != nil {
		res.Inconclusive = "cores: " + err.Error()
		return
	}
	n := atomic.AddInt64(&caseSeq, 1)
	wf := fmt.Sprintf("wf%dx%d", os.Getpid(), n)
	incl := fmt.Sprintf("wi%dx%d", os.Getpid(), n)
	cls := fmt.Sprintf("z%dx%d", os.Getpid(), n)
	var sb strings.Builder
	fmt.Fprintf(&sb, "name: %s\ndefaults:\n  deploy_timeout: 8s\n  fa: \"true\"\n  fb: \"false\"\n  fc: \"x\"\n", wf)
	for i := 0; i <= 4; i++ {
		l, _ := json.Marshal(elems[:i])
		fmt.Fprintf(&sb, "  lst%d: '%s'\n", i, string(l))
	}
	sb.WriteString("roles:\n")
	scope := false
	var findScope func(ns []*N)
	findScope = func(ns []*N) {
		for _, x := range ns {
			if x.Err == "scope" {
				scope = true
			}
			findScope(x.Children)
		}
	}
	findScope(c.Root)
	findScope(c.Included)
	if scope {
		sb.WriteString("  - name: \"scsrc-{{ oos }}\"\n    for:\n      range: \"{{ lst1 }}\"\n      var: oos\n    vars:\n      vsrc: \"{{ oos }}x\"\n    call:\n      func: verifprobe.P(\"c15\")\n      trigger: before_START_ACTIVITY\n      timeout: 5s\n      critical: false\n")
	}
	for _, ch := range c.Root {
		ch.yaml(&sb, "  ", cls, incl)
	}
	var sbi strings.Builder
	fmt.Fprintf(&sbi, "name: %s\nroles:\n", incl)
	for _, ch := range c.Included {
		ch.yaml(&sbi, "  ", cls, incl)
	}
	var want []expRole
	reached := false
	if scope {
		want = append(want, expRole{wf + ".scsrc-a", "call", map[string]string{"oos": "a"}})
	}
	total := expand(c.Root, wf, map[string]string{}, c.Included, &want, &reached)
	if scope {
		total++
	}
	hasErr := false
	var anyErr func(ns []*N) bool
	anyErr = func(ns []*N) bool {
		for _, x := range ns {
			if x.Err != "" || anyErr(x.Children) {
				return true
			}
		}
		return false
	}
	hasErr = anyErr(c.Root) || anyErr(c.Included)
	iters, disabled, deps, refs := 0, 0, 0, 0
	var count func(ns []*N)
	count = func(ns []*N) {
		for _, x := range ns {
			if x.Iter != "" {
				iters++
			}
			if !enabledTruth[x.Enabled] {
				disabled++
			}
			if x.DepVar != "" {
				deps++
			}
			if x.VarRef != "" {
				refs++
			}
			count(x.Children)
		}
	}
	count(c.Root)
	count(c.Included)
	res.NonTrivial = (iters >= 1 && disabled >= 1) || hasErr
	res.Classes = []string{}
	if iters > 0 {
		res.Classes = append(res.Classes, "iterator")
	}
	if disabled > 0 {
		res.Classes = append(res.Classes, "disabled-role")
	}
	if hasErr {
		res.Classes = append(res.Classes, "injected-error")
	}
	if deps > 0 {
		res.Classes = append(res.Classes, "range-depends-on-outer-iteration")
	}
	if refs > 0 {
		res.Classes = append(res.Classes, "cross-level-variable-reference")
	}
	wantPaths := []string{wf}
	for _, r := range want {
		wantPaths = append(wantPaths, r.Path)
	}
	defer func() {
		res.History = map[string]interface{}{"workflow": sb.String(), "included": sbi.String(), "expected_paths": wantPaths}
	}()
	fail := func(sig, f string, a ...interface{}) vh.Result {
		res.Violation = fmt.Sprintf(f, a...)
		res.Signature = sig
		closeCores()
		return res
	}
	if hasErr && !reached {
		res.Inconclusive = "the injected error sits in a role that is never instantiated"
		return
	}
	if total == 0 && !hasErr {
		res.Inconclusive = "the workflow expands to nothing"
		return
	}
	var dumps [][]string
	for ci, w := range []*simworld.World{cs.on, cs.off, cs.on} {
		w.WriteWorkflow(wf, sb.String())
		w.WriteWorkflow(incl, sbi.String())
		w.WriteTask(cls, simworld.TaskClassYAML(cls, "direct", ""))
		tasksBefore := len(w.Master.Tasks())
		env, cerr := w.NewEnv(wf, nil, 60*time.Second)
		if crash := w.CoreCrash(); crash != "" {
			return fail("core-crash", "the core died while loading the workflow: %s", crash)
		}
		for _, blk := range strings.Split(w.RaceReports(), "==================") {
			// only the two conflicting accesses (the part before the goroutine creation stacks) decide whose race it is
			head := blk
			if i := strings.Index(head, "Goroutine "); i >= 0 {
				head = head[:i]
			}
			// the racing accesses themselves (top frame of each of the two stacks) must be in the template processing code
			fn := ""
			lines := strings.Split(head, "\n")
			for li, l := range lines {
				if (strings.Contains(l, " at 0x") && strings.Contains(l, "by goroutine")) && li+1 < len(lines) {
					top := strings.TrimSpace(lines[li+1])
					if strings.Contains(top, "Control/core/workflow.") || strings.Contains(top, "Control/configuration/template.") {
						fn = strings.TrimSuffix(top[strings.LastIndex(top, "/")+1:], "()")
					}
				}
			}
			if fn != "" && (strings.Contains(head, "ProcessTemplates") || strings.Contains(head, "expandTemplate")) {
				if len(blk) > 3500 {
					blk = blk[:3500]
				}
				return fail("data-race:"+fn, "data race in the concurrent template processing (core %d): %s", ci, blk)
			}
		}
		if hasErr {
			if cerr == nil {
				w.Destroy(env.Id, true, true, false, 30*time.Second)
				return fail("template-error-ignored", "a template error was injected in a role that is instantiated, yet the load succeeded (core %d)", ci)
			}
			envs, _ := w.Envs()
			for _, e := range envs {
				if e.GetRootRole() == wf {
					return fail("partial-environment-left", "the load failed but environment %s is listed in state %s", e.GetId(), e.GetState())
				}
			}
			if len(w.Master.Tasks()) != tasksBefore {
				return fail("tasks-launched-for-failed-load", "the load failed but %d tasks were launched", len(w.Master.Tasks())-tasksBefore)
			}
			continue
		}
		if cerr != nil {
			// the template was loaded; that its tasks did not all come up within the deploy timeout says nothing about the
			// load (it happens with the machine under heavy load) - the case cannot be judged
			if strings.Contains(cerr.Error(), "deployment timed out") || strings.Contains(cerr.Error(), "DeadlineExceeded") {
				res.Inconclusive = fmt.Sprintf("deployment of the loaded workflow did not finish on core %d: %v", ci, cerr)
				// keep what the core was doing for a later look, and do not let a core that may be wedged decide the following cases
				if dir := os.Getenv("VERIF_REPLAY_DIR"); dir != "" && strings.Contains(cerr.Error(), "DeadlineExceeded") {
					os.MkdirAll(dir, 0o755)
					os.WriteFile(filepath.Join(dir, fmt.Sprintf("C15-note-core-not-answering-%d-%d.txt", os.Getpid(), time.Now().UnixNano())),
						[]byte(res.Inconclusive+"\n\nworld log tail:\n"+strings.Join(w.LogLines(200), "\n")+"\n\ngoroutines of the core:\n"+w.Goroutines()), 0o644)
				}
				for _, cw := range []**simworld.World{&cores.on, &cores.off} {
					if *cw != nil {
						(*cw).Close()
						*cw = nil
					}
				}
				simworld.Discard()
				return
			}
			return fail("load-failed", "loading a well-formed workflow failed on core %d: %v", ci, cerr)
		}
		ge, err := w.GetEnv(env.Id, true)
		if err != nil {
			return fail("api-error", "GetEnvironment: %v", err)
		}
		var d []string
		dump(ge.Workflow, &d)
		// environment-specific prefix is the workflow name: identical on every core
		dumps = append(dumps, d)
		// (ii) reference expander
		var got []string
		var paths func(r *pb.RoleInfo)
		paths = func(r *pb.RoleInfo) {
			got = append(got, r.FullPath)
			for _, ch := range r.Roles {
				paths(ch)
			}
		}
		paths(ge.Workflow)
		if strings.Join(got, "\n") != strings.Join(wantPaths, "\n") {
			w.Destroy(env.Id, true, true, false, 30*time.Second)
			return fail("wrong-tree", "core %d loaded the roles\n%s\nthe reference expander gives\n%s", ci, strings.Join(got, "\n"), strings.Join(wantPaths, "\n"))
		}
		// iteration variables bound as expected
		byPath := map[string]*pb.RoleInfo{}
		var index func(r *pb.RoleInfo)
		index = func(r *pb.RoleInfo) {
			byPath[r.FullPath] = r
			for _, ch := range r.Roles {
				index(ch)
			}
		}
		index(ge.Workflow)
		for _, er := range want {
			for k, v := range er.Iter {
				if byPath[er.Path].ConsolidatedStack[k] != v {
					w.Destroy(env.Id, true, true, false, 30*time.Second)
					return fail("iteration-variable", "role %s: iteration variable %s=%q, expected %q", er.Path, k, byPath[er.Path].ConsolidatedStack[k], v)
				}
			}
		}
		w.Destroy(env.Id, true, true, false, 30*time.Second)
	}
	for i := 1; i < len(dumps); i++ {
		if strings.Join(dumps[i], "\n") != strings.Join(dumps[0], "\n") {
			what := "sequential and concurrent template processing"
			if i == 2 {
				what = "two loads on the same core"
			}
			return fail("nondeterministic-load", "%s produced different trees:\n%s\n--- vs ---\n%s", what, strings.Join(dumps[0], "\n"), strings.Join(dumps[i], "\n"))
		}
	}
	return
}

// ---------------------------------------------------------------------------------------------

var enabledChoices = []string{"", "", "", "true", "false", "{{ fa }}", "{{ fb }}", "{{ fc == 'x' }}", "{{ fc == 'y' }}", " true ", "1"}

func genNode(t *rapid.T, depth int, ctr *int, allowInclude bool, encl []string) *N {
	*ctr++
	n := &N{Base: fmt.Sprintf("r%d", *ctr), Enabled: rapid.SampledFrom(enabledChoices).Draw(t, "enabled")}
	kinds := []string{"task", "task", "call"}
	if depth > 0 {
		kinds = append(kinds, "agg", "agg", "agg")
		if allowInclude {
			kinds = append(kinds, "include")
		}
	}
	n.Kind = rapid.SampledFrom(kinds).Draw(t, "kind")
	if rapid.IntRange(0, 2).Draw(t, "isIter") == 0 && n.Kind != "include" {
		n.Iter = rapid.SampledFrom([]string{"range", "beginend"}).Draw(t, "iterKind")
		n.IterN = rapid.IntRange(0, 4).Draw(t, "iterN")
		n.IterVar = fmt.Sprintf("it%d", depth)
		if len(encl) > 0 && rapid.IntRange(0, 2).Draw(t, "shadows") == 0 {
			// the same variable name as an enclosing iterator (the ubiquitous "it"): the nearest binding wins below
			n.IterVar = rapid.SampledFrom(encl).Draw(t, "shadowed")
		}
		if len(encl) > 0 && rapid.IntRange(0, 1).Draw(t, "dependent") == 0 {
			n.DepVar = rapid.SampledFrom(encl).Draw(t, "depVar")
		}
		encl = append(append([]string{}, encl...), n.IterVar)
	}
	if len(encl) > 0 && rapid.IntRange(0, 2).Draw(t, "hasVarRef") == 0 {
		n.VarRef = rapid.SampledFrom(encl).Draw(t, "varRef")
	}
	if n.Kind == "agg" {
		k := rapid.IntRange(1, 3).Draw(t, "children")
		for i := 0; i < k; i++ {
			n.Children = append(n.Children, genNode(t, depth-1, ctr, allowInclude, encl))
		}
	}
	return n
}

func gen(t *rapid.T) Case {
	c := Case{}
	ctr := 0
	k := rapid.IntRange(1, 3).Draw(t, "rootChildren")
	for i := 0; i < k; i++ {
		c.Root = append(c.Root, genNode(t, 3, &ctr, true, nil))
	}
	ki := rapid.IntRange(1, 2).Draw(t, "inclChildren")
	for i := 0; i < ki; i++ {
		c.Included = append(c.Included, genNode(t, 1, &ctr, false, nil))
	}
	if rapid.IntRange(0, 4).Draw(t, "injectError") == 0 {
		var all []*N
		var collect func(ns []*N)
		collect = func(ns []*N) {
			for _, x := range ns {
				all = append(all, x)
				collect(x.Children)
			}
		}
		collect(c.Root)
		x := all[rapid.IntRange(0, len(all)-1).Draw(t, "errAt")]
		kinds := []string{"name", "enabled", "scope", "scope", "unclosed-name", "unclosed-enabled", "unclosed-var"}
		if x.Iter != "" {
			kinds = append(kinds, "range")
		}
		x.Err = rapid.SampledFrom(kinds).Draw(t, "errKind")
	}
	capExpansion(&c, 24)
	return c
}

// capExpansion keeps the expansion small: it shortens the longest iterator until at most max roles remain
func capExpansion(c *Case, max int) {
	for {
		var want []expRole
		reached := false
		expand(c.Root, "x", map[string]string{}, c.Included, &want, &reached)
		if len(want) <= max {
			break
		}
		var best *N
		var visit func(ns []*N)
		visit = func(ns []*N) {
			for _, x := range ns {
				if x.Iter != "" && x.DepVar == "" && (best == nil || x.IterN > best.IterN) {
					best = x
				}
				visit(x.Children)
			}
		}
		visit(c.Root)
		visit(c.Included)
		if best == nil || best.IterN <= 1 {
			// only dependent iterators are left: make one of them independent
			var dep *N
			var find func(ns []*N)
			find = func(ns []*N) {
				for _, x := range ns {
					if x.DepVar != "" && dep == nil {
						dep = x
					}
					find(x.Children)
				}
			}
			find(c.Root)
			if dep == nil {
				break
			}
			dep.DepVar, dep.IterN = "", 1
			continue
		}
		best.IterN--
	}
}

func TestLoad(t *testing.T) {
	defer closeCores()
	vh.Check(t, prop, gen, vh.Confirmed(run))
}

func leafN(base, enabled string) *N { return &N{Kind: "task", Base: base, Enabled: enabled} }

func TestLoadFixed(t *testing.T) {
	defer closeCores()
	tree := []*N{
		{Kind: "agg", Base: "dets", Iter: "range", IterN: 3, IterVar: "it3", Children: []*N{
			{Kind: "task", Base: "flp", Iter: "beginend", IterN: 2, IterVar: "it2"},
			{Kind: "call", Base: "hook", Enabled: "{{ fb }}"},
			{Kind: "agg", Base: "qc", Enabled: "{{ fc == 'x' }}", Children: []*N{leafN("w", "false"), leafN("v", "{{ fa }}")}},
			{Kind: "agg", Base: "empty", Children: []*N{leafN("gone", "false")}}}},
		{Kind: "include", Base: "sub"},
		{Kind: "task", Base: "none", Iter: "range", IterN: 0, IterVar: "it3"},
	}
	vh.Fixed(t, prop, "nested-iterators-disabled-include", Case{Root: tree, Included: []*N{leafN("inc1", ""), {Kind: "call", Base: "inc2", Iter: "range", IterN: 2, IterVar: "it1"}}}, vh.Confirmed(run))
	dep := []*N{{Kind: "agg", Base: "det", Iter: "range", IterN: 3, IterVar: "it3", Children: []*N{
		{Kind: "task", Base: "r1", Iter: "beginend", IterVar: "it2", DepVar: "it3", VarRef: "it3"},
		{Kind: "agg", Base: "r2", Iter: "range", IterVar: "it2", DepVar: "it3", Children: []*N{{Kind: "task", Base: "r3", VarRef: "it2"}, {Kind: "call", Base: "r4", Iter: "range", IterVar: "it1", DepVar: "it2"}}}}}}
	shadow := []*N{{Kind: "agg", Base: "det", Iter: "range", IterN: 2, IterVar: "it", Children: []*N{
		{Kind: "agg", Base: "flp", Iter: "beginend", IterN: 2, IterVar: "it", Children: []*N{{Kind: "task", Base: "readout", VarRef: "it"}, {Kind: "call", Base: "mon", Iter: "range", IterN: 2, IterVar: "it"}}},
		{Kind: "task", Base: "outer", VarRef: "it"}}}}
	vh.Fixed(t, prop, "nested-iterators-sharing-one-variable-name", Case{Root: shadow, Included: []*N{leafN("inc", "")}}, vh.Confirmed(run))
	vh.Fixed(t, prop, "inner-range-depends-on-outer-variable", Case{Root: dep, Included: []*N{leafN("inc", "")}}, vh.Confirmed(run))
	bad := []*N{{Kind: "agg", Base: "a", Children: []*N{leafN("ok", ""), {Kind: "agg", Base: "b", Children: []*N{{Kind: "task", Base: "bad", Err: "name"}, leafN("ok2", "")}}}}, leafN("ok3", "")}
	vh.Fixed(t, prop, "iterator-with-enabled-expression", Case{Root: []*N{{Kind: "task", Base: "e", Enabled: "{{ fa }}", Iter: "range", IterN: 2, IterVar: "it3"}, leafN("k", "")}, Included: []*N{leafN("inc", "")}}, vh.Confirmed(run))
	vh.Fixed(t, prop, "aggregator-with-only-an-empty-iterator", Case{Root: []*N{{Kind: "agg", Base: "a", Children: []*N{{Kind: "task", Base: "e", Iter: "range", IterN: 0, IterVar: "it2"}}}, leafN("k", "")}, Included: []*N{leafN("inc", "")}}, vh.Confirmed(run))
	vh.Fixed(t, prop, "aggregator-with-only-disabled-iterator-instances", Case{Root: []*N{{Kind: "agg", Base: "a", Children: []*N{{Kind: "task", Base: "e", Enabled: "false", Iter: "range", IterN: 2, IterVar: "it2"}}}, leafN("k", "")}, Included: []*N{leafN("inc", "")}}, vh.Confirmed(run))
	vh.Fixed(t, prop, "error-in-enabled", Case{Root: []*N{{Kind: "agg", Base: "a", Children: []*N{{Kind: "task", Base: "e", Err: "enabled"}}}, leafN("k", "")}, Included: []*N{leafN("inc", "")}}, vh.Confirmed(run))
	vh.Fixed(t, prop, "variable-out-of-scope-same-text-valid-elsewhere", Case{Root: []*N{leafN("k", ""), {Kind: "agg", Base: "a", Children: []*N{{Kind: "task", Base: "e", Err: "scope"}, leafN("k2", "")}}}, Included: []*N{leafN("inc", "")}}, vh.Confirmed(run))
	for _, k := range []string{"unclosed-name", "unclosed-enabled", "unclosed-var"} {
		vh.Fixed(t, prop, "expression-not-closed-"+k, Case{Root: []*N{leafN("k", ""), {Kind: "agg", Base: "a", Children: []*N{{Kind: "task", Base: "e", Err: k}, leafN("k2", "")}}}, Included: []*N{leafN("inc", "")}}, vh.Confirmed(run))
	}
	vh.Fixed(t, prop, "error-in-range", Case{Root: []*N{{Kind: "agg", Base: "a", Children: []*N{{Kind: "task", Base: "e", Iter: "range", IterN: 2, IterVar: "it2", Err: "range"}}}, leafN("k", "")}, Included: []*N{leafN("inc", "")}}, vh.Confirmed(run))
	vh.Fixed(t, prop, "error-deep-in-tree", Case{Root: bad, Included: []*N{leafN("inc", "")}}, vh.Confirmed(run))
}

package c15

import (
	"encoding/json"
	"fmt"
	"os"
	"sort"
	"strings"
	"sync/atomic"
	"testing"
	"time"

	pb "github.com/AliceO2Group/Control/core/protos"
	"pgregory.net/rapid"

	"verifharness/simworld"
	"verifharness/vh"
)

const prop = "C15"

// N is a node of the generated workflow template grammar.
type N struct {
	Kind     string // agg | task | call | include
	Base     string
	Enabled  string // "" | "true" | "false" | "{{ fa }}" ...
	Iter     string // "" | range | beginend : the role is an iterator over the list variable / begin..end
	IterN    int    // number of elements (0-4)
	IterVar  string
	Children []*N
	Err      string // "" | name | enabled | range : a template error injected in this role
}

type Case struct {
	Root     []*N
	Included []*N // roles of the second file (used by include roles)
}

var caseSeq int64

// ---- reference: truth value of the generated enabled expressions (root defaults: fa=true fb=false fc=x)
var enabledTruth = map[string]bool{"": true, "true": true, "false": false, "{{ fa }}": true, "{{ fb }}": false, "{{ fc == 'x' }}": true, "{{ fc == 'y' }}": false, " true ": true, "1": true}

var elems = []string{"a", "b", "c", "d"}

func (n *N) yaml(sb *strings.Builder, indent string, cls string, incl string) {
	name := n.Base
	if n.Iter != "" {
		name = n.Base + "-{{ " + n.IterVar + " }}"
	}
	if n.Err == "name" {
		name = n.Base + "{{ no_such_function(1) }}"
	}
	fmt.Fprintf(sb, "%s- name: \"%s\"\n", indent, name)
	en := n.Enabled
	if n.Err == "enabled" {
		en = "{{ no_such_function(2) }}"
	}
	if en != "" {
		fmt.Fprintf(sb, "%s  enabled: \"%s\"\n", indent, en)
	}
	switch n.Iter {
	case "range":
		r := fmt.Sprintf("{{ lst%d }}", n.IterN)
		if n.Err == "range" {
			r = "{{ no_such_list }}"
		}
		fmt.Fprintf(sb, "%s  for:\n%s    range: \"%s\"\n%s    var: %s\n", indent, indent, r, indent, n.IterVar)
	case "beginend":
		e := fmt.Sprintf("%d", n.IterN-1)
		if n.Err == "range" {
			e = "{{ no_such_end }}"
		}
		fmt.Fprintf(sb, "%s  for:\n%s    begin: \"0\"\n%s    end: \"%s\"\n%s    var: %s\n", indent, indent, indent, e, indent, n.IterVar)
	}
	switch n.Kind {
	case "agg":
		fmt.Fprintf(sb, "%s  roles:\n", indent)
		for _, ch := range n.Children {
			ch.yaml(sb, indent+"    ", cls, incl)
		}
	case "task":
		fmt.Fprintf(sb, "%s  constraints:\n%s    - attribute: machine_id\n%s      value: hosta\n%s  task:\n%s    load: %s\n", indent, indent, indent, indent, indent, cls)
	case "call":
		fmt.Fprintf(sb, "%s  call:\n%s    func: verifprobe.P(\"c15\")\n%s    trigger: before_START_ACTIVITY\n%s    timeout: 5s\n%s    critical: false\n", indent, indent, indent, indent, indent)
	case "include":
		fmt.Fprintf(sb, "%s  include: %s\n", indent, incl)
	}
}

type expRole struct {
	Path string
	Kind string
	Iter map[string]string // iteration variables bound for this role
}

// expand: the reference expander
func expand(nodes []*N, prefix string, bound map[string]string, included []*N, out *[]expRole, reached *bool) int {
	count := 0
	for _, n := range nodes {
		if !enabledTruth[n.Enabled] && n.Err != "enabled" {
			continue
		}
		inst := []map[string]string{bound}
		names := []string{n.Base}
		if n.Iter != "" {
			if n.Err == "range" {
				*reached = true
				continue
			}
			inst, names = nil, nil
			for i := 0; i < n.IterN; i++ {
				e := elems[i%4]
				if n.Iter == "beginend" {
					e = fmt.Sprintf("%d", i)
				}
				b := map[string]string{}
				for k, v := range bound {
					b[k] = v
				}
				b[n.IterVar] = e
				inst = append(inst, b)
				names = append(names, n.Base+"-"+e)
			}
		}
		for i, b := range inst {
			if n.Err != "" {
				*reached = true
			}
			path := prefix + "." + names[i]
			switch n.Kind {
			case "task", "call":
				*out = append(*out, expRole{path, n.Kind, b})
				count++
			case "agg", "include":
				mark := len(*out)
				*out = append(*out, expRole{path, "agg", b})
				ch := n.Children
				if n.Kind == "include" {
					ch = included
				}
				if expand(ch, path, b, included, out, reached) == 0 {
					*out = (*out)[:mark] // an aggregator left empty disappears
				} else {
					count++
				}
			}
		}
	}
	return count
}

type coreSet struct {
	on, off *simworld.World
}

var cores coreSet

func getCores() (*coreSet, error) {
	mk := func(flags []string, name string) (*simworld.World, error) {
		ag, det := simworld.DefaultAgents()
		return simworld.NewWorld(simworld.Options{Agents: ag, Detectors: det, CoreFlags: flags, ScratchName: name})
	}
	if cores.on == nil || !cores.on.CoreAlive() {
		if cores.on != nil {
			cores.on.Close()
		}
		w, err := mk(nil, "on")
		if err != nil {
			return nil, err
		}
		cores.on = w
	}
	if cores.off == nil || !cores.off.CoreAlive() {
		if cores.off != nil {
			cores.off.Close()
		}
		w, err := mk([]string{"--concurrentWorkflowTemplateProcessing=false", "--concurrentWorkflowTemplateIteratorProcessing=false", "--concurrentIteratorRoleExpansion=false"}, "off")
		if err != nil {
			return nil, err
		}
		cores.off = w
	}
	return &cores, nil
}

func closeCores() {
	if cores.on != nil {
		cores.on.Close()
		cores.on = nil
	}
	if cores.off != nil {
		cores.off.Close()
		cores.off = nil
	}
}

// dump: canonical rendering of the loaded tree (paths in order, iteration variables, own vars of the generated keys)
func dump(r *pb.RoleInfo, out *[]string) {
	keys := []string{}
	for k := range r.ConsolidatedStack {
		if strings.HasPrefix(k, "it") || strings.HasPrefix(k, "f") && len(k) == 2 || strings.HasPrefix(k, "lst") {
			keys = append(keys, k)
		}
	}
	sort.Strings(keys)
	kv := []string{}
	for _, k := range keys {
		kv = append(kv, k+"="+r.ConsolidatedStack[k])
	}
	*out = append(*out, fmt.Sprintf("%s tasks=%d %s", r.FullPath, len(r.TaskIds), strings.Join(kv, ",")))
	for _, ch := range r.Roles {
		dump(ch, out)
	}
}

func run(c Case) (res vh.Result) {
	cs, err := getCores()
	if err != nil {
		res.Inconclusive = "cores: " + err.Error()
		return
	}
	n := atomic.AddInt64(&caseSeq, 1)
	wf := fmt.Sprintf("wf%dx%d", os.Getpid(), n)
	incl := fmt.Sprintf("wi%dx%d", os.Getpid(), n)
	cls := fmt.Sprintf("z%dx%d", os.Getpid(), n)
	var sb strings.Builder
	fmt.Fprintf(&sb, "name: %s\ndefaults:\n  deploy_timeout: 8s\n  fa: \"true\"\n  fb: \"false\"\n  fc: \"x\"\n", wf)
	for i := 0; i <= 4; i++ {
		l, _ := json.Marshal(elems[:i])
		fmt.Fprintf(&sb, "  lst%d: '%s'\n", i, string(l))
	}
	sb.WriteString("roles:\n")
	for _, ch := range c.Root {
		ch.yaml(&sb, "  ", cls, incl)
	}
	var sbi strings.Builder
	fmt.Fprintf(&sbi, "name: %s\nroles:\n", incl)
	for _, ch := range c.Included {
		ch.yaml(&sbi, "  ", cls, incl)
	}
	var want []expRole
	reached := false
	total := expand(c.Root, wf, map[string]string{}, c.Included, &want, &reached)
	hasErr := false
	var anyErr func(ns []*N) bool
	anyErr = func(ns []*N) bool {
		for _, x := range ns {
			if x.Err != "" || anyErr(x.Children) {
				return true
			}
		}
		return false
	}
	hasErr = anyErr(c.Root) || anyErr(c.Included)
	iters, disabled := 0, 0
	var count func(ns []*N)
	count = func(ns []*N) {
		for _, x := range ns {
			if x.Iter != "" {
				iters++
			}
			if !enabledTruth[x.Enabled] {
				disabled++
			}
			count(x.Children)
		}
	}
	count(c.Root)
	count(c.Included)
	res.NonTrivial = (iters >= 1 && disabled >= 1) || hasErr
	res.Classes = []string{}
	if iters > 0 {
		res.Classes = append(res.Classes, "iterator")
	}
	if disabled > 0 {
		res.Classes = append(res.Classes, "disabled-role")
	}
	if hasErr {
		res.Classes = append(res.Classes, "injected-error")
	}
	wantPaths := []string{wf}
	for _, r := range want {
		wantPaths = append(wantPaths, r.Path)
	}
	defer func() {
		res.History = map[string]interface{}{"workflow": sb.String(), "included": sbi.String(), "expected_paths": wantPaths}
	}()
	fail := func(sig, f string, a ...interface{}) vh.Result {
		res.Violation = fmt.Sprintf(f, a...)
		res.Signature = sig
		closeCores()
		return res
	}
	if hasErr && !reached {
		res.Inconclusive = "the injected error sits in a role that is never instantiated"
		return
	}
	if total == 0 && !hasErr {
		res.Inconclusive = "the workflow expands to nothing"
		return
	}
	var dumps [][]string
	for ci, w := range []*simworld.World{cs.on, cs.off, cs.on} {
		w.WriteWorkflow(wf, sb.String())
		w.WriteWorkflow(incl, sbi.String())
		w.WriteTask(cls, simworld.TaskClassYAML(cls, "direct", ""))
		tasksBefore := len(w.Master.Tasks())
		env, cerr := w.NewEnv(wf, nil, 60*time.Second)
		if crash := w.CoreCrash(); crash != "" {
			return fail("core-crash", "the core died while loading the workflow: %s", crash)
		}
		if hasErr {
			if cerr == nil {
				w.Destroy(env.Id, true, true, false, 30*time.Second)
				return fail("template-error-ignored", "a template error was injected in a role that is instantiated, yet the load succeeded (core %d)", ci)
			}
			envs, _ := w.Envs()
			for _, e := range envs {
				if e.GetRootRole() == wf {
					return fail("partial-environment-left", "the load failed but environment %s is listed in state %s", e.GetId(), e.GetState())
				}
			}
			if len(w.Master.Tasks()) != tasksBefore {
				return fail("tasks-launched-for-failed-load", "the load failed but %d tasks were launched", len(w.Master.Tasks())-tasksBefore)
			}
			continue
		}
		if cerr != nil {
			return fail("load-failed", "loading a well-formed workflow failed on core %d: %v", ci, cerr)
		}
		ge, err := w.GetEnv(env.Id, true)
		if err != nil {
			return fail("api-error", "GetEnvironment: %v", err)
		}
		var d []string
		dump(ge.Workflow, &d)
		// environment-specific prefix is the workflow name: identical on every core
		dumps = append(dumps, d)
		// (ii) reference expander
		var got []string
		var paths func(r *pb.RoleInfo)
		paths = func(r *pb.RoleInfo) {
			got = append(got, r.FullPath)
			for _, ch := range r.Roles {
				paths(ch)
			}
		}
		paths(ge.Workflow)
		if strings.Join(got, "\n") != strings.Join(wantPaths, "\n") {
			w.Destroy(env.Id, true, true, false, 30*time.Second)
			return fail("wrong-tree", "core %d loaded the roles\n%s\nthe reference expander gives\n%s", ci, strings.Join(got, "\n"), strings.Join(wantPaths, "\n"))
		}
		// iteration variables bound as expected
		byPath := map[string]*pb.RoleInfo{}
		var index func(r *pb.RoleInfo)
		index = func(r *pb.RoleInfo) {
			byPath[r.FullPath] = r
			for _, ch := range r.Roles {
				index(ch)
			}
		}
		index(ge.Workflow)
		for _, er := range want {
			for k, v := range er.Iter {
				if byPath[er.Path].ConsolidatedStack[k] != v {
					w.Destroy(env.Id, true, true, false, 30*time.Second)
					return fail("iteration-variable", "role %s: iteration variable %s=%q, expected %q", er.Path, k, byPath[er.Path].ConsolidatedStack[k], v)
				}
			}
		}
		w.Destroy(env.Id, true, true, false, 30*time.Second)
	}
	for i := 1; i < len(dumps); i++ {
		if strings.Join(dumps[i], "\n") != strings.Join(dumps[0], "\n") {
			what := "sequential and concurrent template processing"
			if i == 2 {
				what = "two loads on the same core"
			}
			return fail("nondeterministic-load", "%s produced different trees:\n%s\n--- vs ---\n%s", what, strings.Join(dumps[0], "\n"), strings.Join(dumps[i], "\n"))
		}
	}
	return
}

// ---------------------------------------------------------------------------------------------

var enabledChoices = []string{"", "", "", "true", "false", "{{ fa }}", "{{ fb }}", "{{ fc == 'x' }}", "{{ fc == 'y' }}", " true ", "1"}

func genNode(t *rapid.T, depth int, ctr *int, allowInclude bool) *N {
	*ctr++
	n := &N{Base: fmt.Sprintf("r%d", *ctr), Enabled: rapid.SampledFrom(enabledChoices).Draw(t, "enabled")}
	kinds := []string{"task", "task", "call"}
	if depth > 0 {
		kinds = append(kinds, "agg", "agg", "agg")
		if allowInclude {
			kinds = append(kinds, "include")
		}
	}
	n.Kind = rapid.SampledFrom(kinds).Draw(t, "kind")
	if rapid.IntRange(0, 2).Draw(t, "isIter") == 0 && n.Kind != "include" {
		n.Iter = rapid.SampledFrom([]string{"range", "beginend"}).Draw(t, "iterKind")
		n.IterN = rapid.IntRange(0, 4).Draw(t, "iterN")
		n.IterVar = fmt.Sprintf("it%d", depth)
	}
	if n.Kind == "agg" {
		k := rapid.IntRange(1, 3).Draw(t, "children")
		for i := 0; i < k; i++ {
			n.Children = append(n.Children, genNode(t, depth-1, ctr, allowInclude))
		}
	}
	return n
}

func gen(t *rapid.T) Case {
	c := Case{}
	ctr := 0
	k := rapid.IntRange(1, 3).Draw(t, "rootChildren")
	for i := 0; i < k; i++ {
		c.Root = append(c.Root, genNode(t, 3, &ctr, true))
	}
	ki := rapid.IntRange(1, 2).Draw(t, "inclChildren")
	for i := 0; i < ki; i++ {
		c.Included = append(c.Included, genNode(t, 1, &ctr, false))
	}
	if rapid.IntRange(0, 4).Draw(t, "injectError") == 0 {
		var all []*N
		var collect func(ns []*N)
		collect = func(ns []*N) {
			for _, x := range ns {
				all = append(all, x)
				collect(x.Children)
			}
		}
		collect(c.Root)
		x := all[rapid.IntRange(0, len(all)-1).Draw(t, "errAt")]
		kinds := []string{"name", "enabled"}
		if x.Iter != "" {
			kinds = append(kinds, "range")
		}
		x.Err = rapid.SampledFrom(kinds).Draw(t, "errKind")
	}
	// keep the expansion small enough to deploy: shorten the longest iterator until at most 24 leaves remain
	for {
		var want []expRole
		reached := false
		expand(c.Root, "x", map[string]string{}, c.Included, &want, &reached)
		if len(want) <= 24 {
			break
		}
		var best *N
		var visit func(ns []*N)
		visit = func(ns []*N) {
			for _, x := range ns {
				if x.Iter != "" && (best == nil || x.IterN > best.IterN) {
					best = x
				}
				visit(x.Children)
			}
		}
		visit(c.Root)
		visit(c.Included)
		if best == nil || best.IterN <= 1 {
			break
		}
		best.IterN--
	}
	return c
}

func TestLoad(t *testing.T) {
	defer closeCores()
	vh.Check(t, prop, gen, vh.Confirmed(run))
}

func leafN(base, enabled string) *N { return &N{Kind: "task", Base: base, Enabled: enabled} }

func TestLoadFixed(t *testing.T) {
	defer closeCores()
	tree := []*N{
		{Kind: "agg", Base: "dets", Iter: "range", IterN: 3, IterVar: "it3", Children: []*N{
			{Kind: "task", Base: "flp", Iter: "beginend", IterN: 2, IterVar: "it2"},
			{Kind: "call", Base: "hook", Enabled: "{{ fb }}"},
			{Kind: "agg", Base: "qc", Enabled: "{{ fc == 'x' }}", Children: []*N{leafN("w", "false"), leafN("v", "{{ fa }}")}},
			{Kind: "agg", Base: "empty", Children: []*N{leafN("gone", "false")}}}},
		{Kind: "include", Base: "sub"},
		{Kind: "task", Base: "none", Iter: "range", IterN: 0, IterVar: "it3"},
	}
	vh.Fixed(t, prop, "nested-iterators-disabled-include", Case{Root: tree, Included: []*N{leafN("inc1", ""), {Kind: "call", Base: "inc2", Iter: "range", IterN: 2, IterVar: "it1"}}}, vh.Confirmed(run))
	bad := []*N{{Kind: "agg", Base: "a", Children: []*N{leafN("ok", ""), {Kind: "agg", Base: "b", Children: []*N{{Kind: "task", Base: "bad", Err: "name"}, leafN("ok2", "")}}}}, leafN("ok3", "")}
	vh.Fixed(t, prop, "iterator-with-enabled-expression", Case{Root: []*N{{Kind: "task", Base: "e", Enabled: "{{ fa }}", Iter: "range", IterN: 2, IterVar: "it3"}, leafN("k", "")}, Included: []*N{leafN("inc", "")}}, vh.Confirmed(run))
	vh.Fixed(t, prop, "aggregator-with-only-an-empty-iterator", Case{Root: []*N{{Kind: "agg", Base: "a", Children: []*N{{Kind: "task", Base: "e", Iter: "range", IterN: 0, IterVar: "it2"}}}, leafN("k", "")}, Included: []*N{leafN("inc", "")}}, vh.Confirmed(run))
	vh.Fixed(t, prop, "aggregator-with-only-disabled-iterator-instances", Case{Root: []*N{{Kind: "agg", Base: "a", Children: []*N{{Kind: "task", Base: "e", Enabled: "false", Iter: "range", IterN: 2, IterVar: "it2"}}}, leafN("k", "")}, Included: []*N{leafN("inc", "")}}, vh.Confirmed(run))
	vh.Fixed(t, prop, "error-in-enabled", Case{Root: []*N{{Kind: "agg", Base: "a", Children: []*N{{Kind: "task", Base: "e", Err: "enabled"}}}, leafN("k", "")}, Included: []*N{leafN("inc", "")}}, vh.Confirmed(run))
	vh.Fixed(t, prop, "error-in-range", Case{Root: []*N{{Kind: "agg", Base: "a", Children: []*N{{Kind: "task", Base: "e", Iter: "range", IterN: 2, IterVar: "it2", Err: "range"}}}, leafN("k", "")}, Included: []*N{leafN("inc", "")}}, vh.Confirmed(run))
	vh.Fixed(t, prop, "error-deep-in-tree", Case{Root: bad, Included: []*N{leafN("inc", "")}}, vh.Confirmed(run))
}

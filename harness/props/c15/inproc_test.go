package c15

import (
	"fmt"
	"io"
	"strings"
	"sync"
	"testing"

	"github.com/AliceO2Group/Control/core/repos"
	"github.com/AliceO2Group/Control/core/workflow"
	"github.com/sirupsen/logrus"
	"github.com/spf13/viper"
	"pgregory.net/rapid"

	"verifharness/vh"
)

// In-process engine: workflow.ProcessTemplates on in-memory documents (overlay hook workflow.VerifLoad), all eight
// settings of the three concurrency switches, twice each; canonical dump through workflow.VerifDump.

type InCase struct {
	Case
	Rich []Rich // one per node (by Base number), decorations that only the in-process engine renders
}

// Rich decorations of a role: variables referring to other levels, constraints, channels, traits.
type Rich struct {
	Defaults    [][2]string
	Vars        [][2]string
	Constraints [][2]string
	Bind        []string
	Connect     []string
	Critical    int // 0 unset 1 true 2 false
	Trigger     string
	Await       string
	Timeout     string
}

var inprocOnce sync.Once
var inprocRepo repos.Repo

func inprocInit() {
	inprocOnce.Do(func() {
		viper.Set("config_endpoint", "mock://")
		logrus.SetLevel(logrus.PanicLevel)
		logrus.SetOutput(io.Discard)
		_, inprocRepo, _ = repos.NewRepo("/home/user/git/ControlWorkflows", "", "/var/lib/o2/aliecs/repos")
	})
}

func (n *N) richYAML(sb *strings.Builder, indent string, rich map[string]Rich) {
	name := n.Base
	if n.Iter != "" {
		name = n.Base + "-{{ " + n.IterVar + " }}"
	}
	switch n.Err {
	case "name":
		name = n.Base + "{{ no_such_function(1) }}"
	case "instance":
		name = name + "{{ 1 % Atoi(" + n.ErrVar + ") > 5 ? 'x' : '' }}"
	}
	fmt.Fprintf(sb, "%s- name: \"%s\"\n", indent, name)
	en := n.Enabled
	if n.Err == "enabled" {
		en = "{{ no_such_function(2) }}"
	}
	if en != "" {
		fmt.Fprintf(sb, "%s  enabled: \"%s\"\n", indent, en)
	}
	switch n.Iter {
	case "range":
		r := fmt.Sprintf("{{ lst%d }}", n.IterN)
		if n.DepVar != "" {
			r = depExpr(n.DepVar, func(k int) string { return fmt.Sprintf("lst%d", k) })
		}
		if n.Err == "range" {
			r = "{{ no_such_function(3) }}"
		}
		fmt.Fprintf(sb, "%s  for:\n%s    range: \"%s\"\n%s    var: %s\n", indent, indent, r, indent, n.IterVar)
	case "beginend":
		e := fmt.Sprintf("%d", n.IterN-1)
		if n.DepVar != "" {
			e = depExpr(n.DepVar, func(k int) string { return fmt.Sprintf("%d", k-1) })
		}
		if n.Err == "range" {
			e = "{{ no_such_function(4) }}"
		}
		fmt.Fprintf(sb, "%s  for:\n%s    begin: \"0\"\n%s    end: \"%s\"\n%s    var: %s\n", indent, indent, indent, e, indent, n.IterVar)
	}
	rc := rich[n.Base]
	kv := func(title string, l [][2]string, extra [][2]string) {
		l = append(append([][2]string{}, l...), extra...)
		if len(l) == 0 {
			return
		}
		fmt.Fprintf(sb, "%s  %s:\n", indent, title)
		for _, e := range l {
			fmt.Fprintf(sb, "%s    %s: \"%s\"\n", indent, e[0], e[1])
		}
	}
	kv("defaults", rc.Defaults, nil)
	var vr [][2]string
	if n.VarRef != "" {
		vr = append(vr, [2]string{"v" + n.Base, "{{ " + n.VarRef + " }}x"})
	}
	kv("vars", rc.Vars, vr)
	if len(rc.Constraints) > 0 {
		fmt.Fprintf(sb, "%s  constraints:\n", indent)
		for _, c := range rc.Constraints {
			fmt.Fprintf(sb, "%s    - attribute: %s\n%s      value: \"%s\"\n", indent, c[0], indent, c[1])
		}
	}
	if n.Kind == "task" {
		if len(rc.Bind) > 0 {
			fmt.Fprintf(sb, "%s  bind:\n", indent)
			for _, b := range rc.Bind {
				fmt.Fprintf(sb, "%s    - name: \"%s\"\n%s      type: push\n%s      rateLogging: \"{{ fa }}\"\n", indent, b, indent, indent)
			}
		}
		if len(rc.Connect) > 0 {
			fmt.Fprintf(sb, "%s  connect:\n", indent)
			for _, b := range rc.Connect {
				fmt.Fprintf(sb, "%s    - name: \"%s\"\n%s      type: pull\n%s      target: \"{{ Parent().Path }}.peer:%s\"\n", indent, b, indent, indent, b)
			}
		}
	}
	traits := func() {
		switch rc.Critical {
		case 1:
			fmt.Fprintf(sb, "%s    critical: true\n", indent)
		case 2:
			fmt.Fprintf(sb, "%s    critical: false\n", indent)
		}
		if rc.Trigger != "" {
			fmt.Fprintf(sb, "%s    trigger: %s\n", indent, rc.Trigger)
			if rc.Await != "" {
				fmt.Fprintf(sb, "%s    await: %s\n", indent, rc.Await)
			}
		}
		if rc.Timeout != "" {
			fmt.Fprintf(sb, "%s    timeout: \"%s\"\n", indent, rc.Timeout)
		}
	}
	switch n.Kind {
	case "agg":
		fmt.Fprintf(sb, "%s  roles:\n", indent)
		for _, ch := range n.Children {
			ch.richYAML(sb, indent+"    ", rich)
		}
	case "task":
		fmt.Fprintf(sb, "%s  task:\n%s    load: \"cls-%s\"\n", indent, indent, n.Base)
		traits()
	case "call":
		fmt.Fprintf(sb, "%s  call:\n%s    func: some.Func(\"%s\")\n", indent, indent, n.Base)
		if rc.Trigger == "" {
			fmt.Fprintf(sb, "%s    trigger: before_START_ACTIVITY\n", indent)
		}
		traits()
	case "include":
		fmt.Fprintf(sb, "%s  include: included\n", indent)
	}
}

var switchNames = []string{"concurrentWorkflowTemplateProcessing", "concurrentWorkflowTemplateIteratorProcessing", "concurrentIteratorRoleExpansion"}

func setSwitches(mask int) {
	for i, n := range switchNames {
		viper.Set(n, mask&(1<<i) != 0)
	}
}

func loadOnce(rootDoc, inclDoc string, mask int) (dump []string, paths []string, stacks map[string]map[string]string, err error) {
	setSwitches(mask)
	var root workflow.Role
	root, err = workflow.VerifLoad([]byte(rootDoc), map[string][]byte{"included": []byte(inclDoc)}, &inprocRepo, map[string]string{})
	if err != nil {
		return
	}
	dump = workflow.VerifDump(root)
	stacks = map[string]map[string]string{}
	var walk func(r workflow.Role)
	walk = func(r workflow.Role) {
		paths = append(paths, r.GetPath())
		st, _ := r.ConsolidatedVarStack()
		stacks[r.GetPath()] = st
		for _, c := range r.GetRoles() {
			walk(c)
		}
	}
	walk(root)
	return
}

func render(c InCase) (string, string) {
	rich := map[string]Rich{}
	for i, r := range c.Rich {
		rich[fmt.Sprintf("r%d", i+1)] = r
	}
	var sb strings.Builder
	sb.WriteString("name: root\ndefaults:\n  fa: \"true\"\n  fb: \"false\"\n  fc: \"x\"\n  shared: \"s0\"\n")
	for i := 0; i <= 4; i++ {
		fmt.Fprintf(&sb, "  lst%d: '[", i)
		for j := 0; j < i; j++ {
			if j > 0 {
				sb.WriteString(",")
			}
			fmt.Fprintf(&sb, "\"%s\"", elems[j])
		}
		sb.WriteString("]'\n")
	}
	sb.WriteString("roles:\n")
	for _, ch := range c.Root {
		ch.richYAML(&sb, "  ", rich)
	}
	var sbi strings.Builder
	sbi.WriteString("name: included\ndefaults:\n  fromincl: \"{{ fc }}i\"\nroles:\n")
	for _, ch := range c.Included {
		ch.richYAML(&sbi, "  ", rich)
	}
	return sb.String(), sbi.String()
}

func runInproc(c InCase) (res vh.Result) {
	inprocInit()
	rootDoc, inclDoc := render(c)
	var want []expRole
	reached := false
	total := expand(c.Root, "root", map[string]string{}, c.Included, &want, &reached)
	wantPaths := []string{"root"}
	for _, r := range want {
		wantPaths = append(wantPaths, r.Path)
	}
	hasErr, iters, disabled, deps, refs, nested := false, 0, 0, 0, 0, 0
	var count func(ns []*N, inIter bool)
	count = func(ns []*N, inIter bool) {
		for _, x := range ns {
			if x.Err != "" {
				hasErr = true
			}
			if x.Iter != "" {
				iters++
				if inIter {
					nested++
				}
			}
			if !enabledTruth[x.Enabled] {
				disabled++
			}
			if x.DepVar != "" {
				deps++
			}
			if x.VarRef != "" {
				refs++
			}
			count(x.Children, inIter || x.Iter != "")
		}
	}
	count(c.Root, false)
	count(c.Included, false)
	res.NonTrivial = (iters >= 1 && disabled >= 1) || hasErr
	add := func(b bool, cl string) {
		if b {
			res.Classes = append(res.Classes, cl)
		}
	}
	add(iters > 0, "iterator")
	add(nested > 0, "nested-iterator")
	add(disabled > 0, "disabled-role")
	add(hasErr, "injected-error")
	add(hasErr && reached, "injected-error-reached")
	add(deps > 0, "range-depends-on-outer-iteration")
	add(refs > 0, "cross-level-variable-reference")
	add(len(want) >= 12, "expands-to-12+-roles")
	defer func() {
		res.History = map[string]interface{}{"workflow": rootDoc, "included": inclDoc, "expected_paths": wantPaths}
	}()
	fail := func(sig, f string, a ...interface{}) vh.Result {
		res.Violation = fmt.Sprintf(f, a...)
		res.Signature = sig
		return res
	}
	var first []string
	firstMask := -1
	reps := 2
	for rep := 0; rep < reps; rep++ {
		for _, mask := range []int{7, 0, 1, 2, 4, 3, 5, 6} {
			dump, paths, stacks, err := loadOnce(rootDoc, inclDoc, mask)
			if hasErr && reached {
				if err == nil {
					return fail("template-error-ignored", "a template error was injected in a role that is instantiated, yet the load succeeded (switches %03b, repetition %d); loaded:\n%s", mask, rep, strings.Join(paths, "\n"))
				}
				continue
			}
			if hasErr && !reached {
				// the injected error sits in a role that is never instantiated: either outcome is allowed, but it must be the same everywhere
				if firstMask < 0 {
					firstMask = mask
					first = []string{fmt.Sprint(err != nil)}
				} else if first[0] != fmt.Sprint(err != nil) {
					return fail("nondeterministic-load", "with an error in a never-instantiated role the load fails under some switch settings only (%03b vs %03b)", firstMask, mask)
				}
				continue
			}
			if err != nil {
				return fail("load-failed", "loading a well-formed workflow failed (switches %03b): %v", mask, err)
			}
			if total == 0 {
				wantPaths = []string{"root"}
			}
			if strings.Join(paths, "\n") != strings.Join(wantPaths, "\n") {
				return fail("wrong-tree", "switches %03b loaded the roles\n%s\nthe reference expander gives\n%s", mask, strings.Join(paths, "\n"), strings.Join(wantPaths, "\n"))
			}
			for _, er := range want {
				for k, v := range er.Iter {
					if stacks[er.Path][k] != v {
						return fail("iteration-variable", "role %s (switches %03b): variable %s=%q, expected %q", er.Path, mask, k, stacks[er.Path][k], v)
					}
				}
			}
			if first == nil {
				first, firstMask = dump, mask
			} else if strings.Join(dump, "\n") != strings.Join(first, "\n") {
				d := ""
				for i := range dump {
					if i >= len(first) || dump[i] != first[i] {
						d = fmt.Sprintf("line %d:\n%s\nvs\n%s", i, dump[i], first[min(i, len(first)-1)])
						break
					}
				}
				return fail("nondeterministic-load", "switch settings %03b and %03b (repetition %d) produced different trees; first difference at %s", firstMask, mask, rep, d)
			}
		}
	}
	return
}

// ---------------------------------------------------------------------------------------------

func genRich(t *rapid.T, nNodes int, c *Case) []Rich {
	// for every node: which iteration variables are visible (own or enclosing)
	visible := map[string][]string{}
	var walk func(ns []*N, encl []string)
	walk = func(ns []*N, encl []string) {
		for _, x := range ns {
			e := encl
			if x.Iter != "" {
				e = append(append([]string{}, encl...), x.IterVar)
			}
			visible[x.Base] = e
			walk(x.Children, e)
		}
	}
	walk(c.Root, nil)
	walk(c.Included, nil)
	out := make([]Rich, nNodes)
	for i := range out {
		base := fmt.Sprintf("r%d", i+1)
		vis := visible[base]
		val := func(label string) string {
			choices := []string{"plain", "{{ fc }}-s", "{{ fa == 'true' ? 'yes' : 'no' }}", "{{ shared }}+", "{{ ToUpper(fc) }}"}
			for _, v := range vis {
				choices = append(choices, "{{ "+v+" }}-i")
			}
			return rapid.SampledFrom(choices).Draw(t, label)
		}
		r := Rich{}
		for k := rapid.IntRange(0, 2).Draw(t, "ndefaults"); k > 0; k-- {
			r.Defaults = append(r.Defaults, [2]string{rapid.SampledFrom([]string{"shared", "d" + base, "other"}).Draw(t, "dkey"), val("dval")})
		}
		for k := rapid.IntRange(0, 2).Draw(t, "nvars"); k > 0; k-- {
			r.Vars = append(r.Vars, [2]string{rapid.SampledFrom([]string{"shared", "w" + base, "other2"}).Draw(t, "vkey"), val("vval")})
		}
		// duplicate keys in one YAML map are a parse error: keep the first
		dedup := func(l [][2]string) [][2]string {
			seen := map[string]bool{}
			var o [][2]string
			for _, e := range l {
				if !seen[e[0]] {
					seen[e[0]] = true
					o = append(o, e)
				}
			}
			return o
		}
		r.Defaults, r.Vars = dedup(r.Defaults), dedup(r.Vars)
		for k := rapid.IntRange(0, 2).Draw(t, "nconstraints"); k > 0; k-- {
			r.Constraints = append(r.Constraints, [2]string{rapid.SampledFrom([]string{"machine_id", "detector", "rack"}).Draw(t, "cattr"), val("cval")})
		}
		for k := rapid.IntRange(0, 2).Draw(t, "nbind"); k > 0; k-- {
			r.Bind = append(r.Bind, fmt.Sprintf("b%d%s", k, rapid.SampledFrom([]string{"", "-{{ fc }}"}).Draw(t, "bname")))
		}
		for k := rapid.IntRange(0, 2).Draw(t, "nconnect"); k > 0; k-- {
			r.Connect = append(r.Connect, fmt.Sprintf("c%d", k))
		}
		r.Critical = rapid.IntRange(0, 2).Draw(t, "critical")
		if rapid.IntRange(0, 2).Draw(t, "hook") == 0 {
			r.Trigger = rapid.SampledFrom([]string{"before_CONFIGURE", "after_START_ACTIVITY+10", "leave_RUNNING-5", "DESTROY"}).Draw(t, "trigger")
			r.Await = rapid.SampledFrom([]string{"", "after_STOP_ACTIVITY", "before_RESET+3"}).Draw(t, "await")
		}
		r.Timeout = rapid.SampledFrom([]string{"", "7s", "{{ fc == 'x' ? '11s' : '12s' }}"}).Draw(t, "timeout")
		out[i] = r
	}
	return out
}

func genInproc(t *rapid.T) InCase {
	c := Case{}
	ctr := 0
	k := rapid.IntRange(1, 3).Draw(t, "rootChildren")
	for i := 0; i < k; i++ {
		c.Root = append(c.Root, genNode(t, 3, &ctr, true, nil))
	}
	ki := rapid.IntRange(1, 2).Draw(t, "inclChildren")
	for i := 0; i < ki; i++ {
		c.Included = append(c.Included, genNode(t, 1, &ctr, false, nil))
	}
	if rapid.IntRange(0, 3).Draw(t, "injectError") == 0 {
		type cand struct {
			n    *N
			encl []string
		}
		var all []cand
		var collect func(ns []*N, encl []string)
		collect = func(ns []*N, encl []string) {
			for _, x := range ns {
				e := encl
				if x.Iter != "" {
					e = append(append([]string{}, encl...), x.IterVar)
				}
				all = append(all, cand{x, e})
				collect(x.Children, e)
			}
		}
		collect(c.Root, nil)
		collect(c.Included, nil)
		x := all[rapid.IntRange(0, len(all)-1).Draw(t, "errAt")]
		kinds := []string{"name", "enabled"}
		if x.n.Iter != "" {
			kinds = append(kinds, "range")
		}
		if len(x.encl) > 0 {
			kinds = append(kinds, "instance", "instance")
		}
		x.n.Err = rapid.SampledFrom(kinds).Draw(t, "errKind")
		if x.n.Err == "instance" {
			x.n.ErrVar = rapid.SampledFrom(x.encl).Draw(t, "errVar")
		}
	}
	capExpansion(&c, 60)
	return InCase{Case: c, Rich: genRich(t, ctr, &c)}
}

func TestLoadInProcess(t *testing.T) {
	vh.Check(t, prop, genInproc, runInproc)
}

func TestLoadInProcessFixed(t *testing.T) {
	dep := []*N{{Kind: "agg", Base: "r1", Iter: "range", IterN: 3, IterVar: "it3", Children: []*N{
		{Kind: "task", Base: "r2", Iter: "beginend", IterVar: "it2", DepVar: "it3", VarRef: "it3"},
		{Kind: "agg", Base: "r3", Iter: "range", IterVar: "it2", DepVar: "it3", Children: []*N{{Kind: "task", Base: "r4", VarRef: "it2"}, {Kind: "call", Base: "r5", Iter: "range", IterVar: "it1", DepVar: "it2"}}},
		{Kind: "include", Base: "r6", Enabled: "{{ fa }}"}}},
		{Kind: "agg", Base: "r7", Children: []*N{{Kind: "task", Base: "r8", Iter: "range", IterN: 0, IterVar: "it2"}}}}
	rich := make([]Rich, 10)
	rich[1] = Rich{Vars: [][2]string{{"shared", "{{ it3 }}-i"}}, Constraints: [][2]string{{"machine_id", "{{ it2 }}-i"}}, Bind: []string{"b1-{{ fc }}"}, Connect: []string{"c1"}, Critical: 2}
	rich[4] = Rich{Trigger: "before_CONFIGURE", Await: "after_STOP_ACTIVITY", Timeout: "{{ fc == 'x' ? '11s' : '12s' }}"}
	vh.Fixed(t, prop, "inproc-nested-dependent-iterators", InCase{Case: Case{Root: dep, Included: []*N{leafN("r9", ""), {Kind: "call", Base: "r10", Iter: "range", IterN: 2, IterVar: "it0"}}}, Rich: rich}, runInproc)
	inst := []*N{{Kind: "agg", Base: "r1", Iter: "beginend", IterN: 4, IterVar: "it3", Children: []*N{{Kind: "task", Base: "r2", Err: "instance", ErrVar: "it3"}}}}
	vh.Fixed(t, prop, "inproc-error-in-one-instance", InCase{Case: Case{Root: inst, Included: []*N{leafN("r3", "")}}, Rich: make([]Rich, 3)}, runInproc)
}

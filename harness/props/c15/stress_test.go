package c15

import (
	"fmt"
	"os"
	"strconv"
	"strings"
	"testing"

	"verifharness/vh"
)

type StressCase struct {
	Before int // instances started before the failing one
	After  int // instances after it
	Loads  int
}

// runStress: one iterator whose instances are processed concurrently; exactly one instance carries a template
// error. Whatever the goroutine schedule, every load must fail. (Schedules are sampled, not enumerated.)
func runStress(c StressCase) (res vh.Result) {
	inprocInit()
	inst := []*N{{Kind: "task", Base: "r1", Iter: "beginend", IterN: c.After + 1, IterVar: "it3", Err: "instance", ErrVar: "it3"}}
	doc, incl := render(InCase{Case: Case{Root: inst, Included: []*N{leafN("r2", "")}}, Rich: make([]Rich, 2)})
	doc = strings.Replace(doc, "begin: \"0\"", fmt.Sprintf("begin: \"-%d\"", c.Before), 1)
	res.Classes = []string{"error-in-one-of-many-concurrent-instances"}
	res.NonTrivial = c.Before+c.After >= 1
	lost := 0
	for i := 0; i < c.Loads; i++ {
		if _, _, _, err := loadOnce(doc, incl, 7); err == nil {
			lost++
		}
	}
	res.History = map[string]interface{}{"workflow": doc, "loads": c.Loads, "lost": lost}
	if lost > 0 {
		res.Violation = fmt.Sprintf("%d of %d concurrent loads of an iterator with one failing instance (of %d) succeeded: the template error was lost", lost, c.Loads, c.Before+c.After+1)
		res.Signature = "template-error-lost-in-concurrent-iterator"
	}
	return
}

func TestErrorNeverLost(t *testing.T) {
	loads := vh.Scale(400, 20000)
	if v, err := strconv.Atoi(os.Getenv("VERIF_C15_STRESS")); err == nil {
		loads = v
	}
	for _, sh := range [][2]int{{0, 3}, {3, 0}, {2, 2}, {8, 8}, {1, 1}} {
		vh.Fixed(t, prop, fmt.Sprintf("stress-%d-before-%d-after", sh[0], sh[1]), StressCase{Before: sh[0], After: sh[1], Loads: loads}, runStress)
	}
}

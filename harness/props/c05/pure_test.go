package c05

import (
	"fmt"
	"sort"
	"strconv"
	"strings"
	"testing"

	"github.com/AliceO2Group/Control/core/task"
	"github.com/AliceO2Group/Control/core/task/channel"
	"github.com/AliceO2Group/Control/core/task/constraint"
	"github.com/AliceO2Group/Control/core/task/taskclass/port"
	mesos "github.com/mesos/mesos-go/api/v1/lib"
	"github.com/mesos/mesos-go/api/v1/lib/resources"
	"pgregory.net/rapid"

	"verifharness/vh"
)

const prop = "C05"

// ---------------------------------------------------------------------------------------------
// Attributes.Satisfy + Constraints.MergeParent against a map-based reference

type KV struct{ K, V string }

type MatchCase struct {
	Attrs  []KV   // agent attributes (name unique)
	Levels [][]KV // constraints per level, outermost (task template) first ... nearest role last; attribute unique inside a level
}

func toConstraints(kvs []KV) constraint.Constraints {
	out := constraint.Constraints{}
	for _, kv := range kvs {
		out = append(out, constraint.Constraint{Attribute: kv.K, Value: kv.V, Operator: constraint.Equals})
	}
	return out
}

func refSatisfied(attrs map[string]string, k, v string) bool {
	av, ok := attrs[k]
	if !ok {
		return false
	}
	if av == v {
		return true
	}
	for _, part := range strings.Split(av, ",") {
		if part == v && strings.Contains(av, ",") {
			return true
		}
	}
	return false
}

func runMatch(c MatchCase) (res vh.Result) {
	attrs := constraint.Attributes{}
	amap := map[string]string{}
	for _, a := range c.Attrs {
		attrs = append(attrs, mesos.Attribute{Name: a.K, Type: mesos.TEXT, Text: &mesos.Value_Text{Value: a.V}})
		amap[a.K] = a.V
	}
	// merge: nearer level overrides farther one (levels listed far -> near)
	merged := constraint.Constraints{}
	want := map[string]string{}
	overridden := false
	for _, lvl := range c.Levels {
		child := toConstraints(lvl)
		parentCopy := append(constraint.Constraints(nil), merged...)
		childCopy := append(constraint.Constraints(nil), child...)
		out := child.MergeParent(merged)
		// inputs must not be modified (they are shared: task class constraints are cached and reused)
		for i := range parentCopy {
			if merged[i] != parentCopy[i] {
				res.Violation = fmt.Sprintf("MergeParent modified its parent argument: %v became %v", parentCopy, merged)
				res.Signature = "merge:parent-modified"
				return
			}
		}
		for i := range childCopy {
			if child[i] != childCopy[i] {
				res.Violation = "MergeParent modified its receiver"
				res.Signature = "merge:receiver-modified"
				return
			}
		}
		for _, kv := range lvl {
			if _, had := want[kv.K]; had {
				overridden = true
			}
			want[kv.K] = kv.V
		}
		merged = out
	}
	got := map[string]string{}
	for _, ct := range merged {
		if _, dup := got[ct.Attribute]; dup {
			res.Violation = fmt.Sprintf("merged constraints contain attribute %q twice: %v", ct.Attribute, merged)
			res.Signature = "merge:duplicate"
			return
		}
		got[ct.Attribute] = ct.Value
	}
	if fmt.Sprint(sortedKV(got)) != fmt.Sprint(sortedKV(want)) {
		res.Violation = fmt.Sprintf("merged constraints %v, want (nearer level overrides farther) %v; levels far->near: %v", sortedKV(got), sortedKV(want), c.Levels)
		res.Signature = "merge:wrong"
		return
	}
	refOK := true
	failing := 0
	for k, v := range want {
		if !refSatisfied(amap, k, v) {
			refOK = false
			failing++
		}
	}
	sat := attrs.Satisfy(merged)
	res.Classes = []string{fmt.Sprintf("ref:%v", refOK)}
	if overridden {
		res.Classes = append(res.Classes, "override")
	}
	res.NonTrivial = !refOK || overridden
	if sat && !refOK {
		res.Violation = fmt.Sprintf("agent attributes %v accepted for constraints %v although %d of them are not satisfied", c.Attrs, merged, failing)
		res.Signature = "satisfy:false-positive"
		return
	}
	if !sat && refOK {
		res.Classes = append(res.Classes, "false-negative")
	}
	return
}

func sortedKV(m map[string]string) []string {
	out := []string{}
	for k, v := range m {
		out = append(out, k+"="+v)
	}
	sort.Strings(out)
	return out
}

var attrNames = []string{"machine_id", "o2kind", "o2role", "detector", "zone"}
var attrVals = []string{"flp1", "flp2", "epn", "qc", "TPC", "ITS", "a", ""}

func genKVs(t *rapid.T, label string, maxN int, lists bool) []KV {
	n := rapid.IntRange(0, maxN).Draw(t, label+"-n")
	used := map[string]bool{}
	var out []KV
	for i := 0; i < n; i++ {
		k := rapid.SampledFrom(attrNames).Draw(t, label+"-k")
		if used[k] {
			continue
		}
		used[k] = true
		v := rapid.SampledFrom(attrVals).Draw(t, label+"-v")
		if lists && rapid.IntRange(0, 3).Draw(t, label+"-list") == 0 {
			v = v + "," + rapid.SampledFrom(attrVals).Draw(t, label+"-v2")
		}
		out = append(out, KV{k, v})
	}
	return out
}

func genMatch(t *rapid.T) MatchCase {
	c := MatchCase{Attrs: genKVs(t, "attr", 5, true)}
	nl := rapid.IntRange(1, 5).Draw(t, "levels")
	for i := 0; i < nl; i++ {
		lvl := genKVs(t, fmt.Sprintf("l%d", i), 3, false)
		// bias towards satisfiable constraints: copy values from the agent
		for j := range lvl {
			if rapid.IntRange(0, 2).Draw(t, "fromAgent") > 0 {
				for _, a := range c.Attrs {
					if a.K == lvl[j].K {
						lvl[j].V = strings.Split(a.V, ",")[0]
					}
				}
			}
		}
		c.Levels = append(c.Levels, lvl)
	}
	return c
}

func TestConstraints(t *testing.T) { vh.Check(t, prop, genMatch, runMatch) }

func TestConstraintsFixed(t *testing.T) {
	// first constraint fails, last one holds
	vh.Fixed(t, prop, "first-fails-last-holds", MatchCase{Attrs: []KV{{"machine_id", "flp1"}, {"o2kind", "qc"}},
		Levels: [][]KV{{{"machine_id", "flp2"}, {"o2kind", "qc"}}}}, runMatch)
	vh.Fixed(t, prop, "missing-attribute-then-match", MatchCase{Attrs: []KV{{"o2kind", "qc"}},
		Levels: [][]KV{{{"detector", "TPC"}}, {{"o2kind", "qc"}}}}, runMatch)
	vh.Fixed(t, prop, "class-constraint-overridden-twice", MatchCase{Attrs: []KV{{"machine_id", "flp1"}},
		Levels: [][]KV{{{"machine_id", "epn"}}, {{"machine_id", "flp2"}}, {{"machine_id", "flp1"}}}}, runMatch)
}

// ---------------------------------------------------------------------------------------------
// port expressions

type PortCase struct {
	Ranges [][2]uint64
	Blanks []int // blanks inserted after each element's comma
}

func runPorts(c PortCase) (res vh.Result) {
	parts := []string{}
	multi := false
	for i, r := range c.Ranges {
		s := strconv.FormatUint(r[0], 10)
		if r[1] != r[0] {
			s += "-" + strconv.FormatUint(r[1], 10)
			multi = true
		}
		if i < len(c.Blanks) {
			s = strings.Repeat(" ", c.Blanks[i]) + s
		}
		parts = append(parts, s)
	}
	expr := strings.Join(parts, ",")
	got, err := port.RangesFromExpression(expr)
	res.NonTrivial = multi
	if multi {
		res.Classes = append(res.Classes, "true-range")
	}
	if len(c.Ranges) > 1 {
		res.Classes = append(res.Classes, "several")
	}
	if err != nil {
		res.Violation = fmt.Sprintf("well-formed port expression %q rejected: %v", expr, err)
		res.Signature = "ports:reject"
		return
	}
	if len(got) != len(c.Ranges) {
		res.Violation = fmt.Sprintf("port expression %q parsed to %v, want %v", expr, got, c.Ranges)
		res.Signature = "ports:count"
		return
	}
	for i, r := range c.Ranges {
		if got[i].Begin != r[0] || got[i].End != r[1] {
			res.Violation = fmt.Sprintf("port expression %q: element %d parsed to %d-%d, written %d-%d", expr, i, got[i].Begin, got[i].End, r[0], r[1])
			res.Signature = "ports:wrong-range"
			return
		}
	}
	return
}

func genPorts(t *rapid.T) PortCase {
	n := rapid.IntRange(1, 4).Draw(t, "n")
	c := PortCase{}
	for i := 0; i < n; i++ {
		b := rapid.Uint64Range(1, 65000).Draw(t, "begin")
		e := b
		if rapid.Bool().Draw(t, "isRange") {
			e = b + rapid.Uint64Range(1, 500).Draw(t, "len")
		}
		c.Ranges = append(c.Ranges, [2]uint64{b, e})
		c.Blanks = append(c.Blanks, rapid.IntRange(0, 2).Draw(t, "blank"))
	}
	return c
}

func TestPortExpressions(t *testing.T) { vh.Check(t, prop, genPorts, runPorts) }

func TestPortExpressionsFixed(t *testing.T) {
	vh.Fixed(t, prop, "9100-9105", PortCase{Ranges: [][2]uint64{{9100, 9105}}}, runPorts)
}

// malformed expressions: rejected or parsed, never a panic (fuzz target shares this body)
func checkPortExprNoPanic(s string) (v string) {
	defer func() {
		if r := recover(); r != nil {
			v = fmt.Sprintf("RangesFromExpression(%q) panicked: %v", s, r)
		}
	}()
	rs, err := port.RangesFromExpression(s)
	if err == nil {
		for _, r := range rs {
			_ = r
		}
	}
	return ""
}

func FuzzPortExpression(f *testing.F) {
	for _, s := range []string{"", "9000", "9000-9010", "1,2,3", "1-2-3", "a-b", " 5 , 6-7 ", "-", ",", "18446744073709551615", "9-8"} {
		f.Add(s)
	}
	f.Fuzz(func(t *testing.T, s string) {
		if v := checkPortExprNoPanic(s); v != "" {
			t.Fatal(v)
		}
		// round trip of what was accepted
		rs, err := port.RangesFromExpression(s)
		if err != nil || len(rs) == 0 {
			return
		}
		parts := []string{}
		for _, r := range rs {
			parts = append(parts, fmt.Sprintf("%d-%d", r.Begin, r.End))
		}
		rs2, err := port.RangesFromExpression(strings.Join(parts, ","))
		if err != nil || !rs.Equals(rs2) {
			t.Fatalf("print/parse round trip of %q: %v -> %v (%v)", s, rs, rs2, err)
		}
	})
}

// ---------------------------------------------------------------------------------------------
// Resources.Satisfy: never accept an offer that does not cover the wants

type ResCase struct {
	Cpu, Mem     float64
	OfferPorts   [][2]uint64
	WantCpu      float64
	WantMem      float64
	WantStatic   [][2]uint64
	InboundCount int
}

func runRes(c ResCase) (res vh.Result) {
	rb := resources.BuildRanges()
	for _, r := range c.OfferPorts {
		rb = rb.Span(r[0], r[1])
	}
	offer := mesos.Resources{}
	offer.Add1(resources.NewCPUs(c.Cpu).Resource)
	offer.Add1(resources.NewMemory(c.Mem).Resource)
	if len(c.OfferPorts) > 0 {
		offer.Add1(resources.Build().Name(resources.Name("ports")).Ranges(rb.Ranges).Resource)
	}
	w := &task.Wants{Cpu: c.WantCpu, Memory: c.WantMem}
	for _, r := range c.WantStatic {
		w.StaticPorts = append(w.StaticPorts, port.Range{Begin: r[0], End: r[1]})
	}
	for i := 0; i < c.InboundCount; i++ {
		w.InboundChannels = append(w.InboundChannels, channel.Inbound{})
	}
	// reference: set arithmetic on port numbers
	offered := map[uint64]bool{}
	for _, r := range c.OfferPorts {
		for p := r[0]; p <= r[1]; p++ {
			offered[p] = true
		}
	}
	static := map[uint64]bool{}
	covered := true
	for _, r := range c.WantStatic {
		for p := r[0]; p <= r[1]; p++ {
			static[p] = true
			if !offered[p] {
				covered = false
			}
		}
	}
	refOK := c.WantCpu <= c.Cpu && c.WantMem <= c.Mem && covered && len(offered)-len(static) >= c.InboundCount && len(c.OfferPorts) > 0
	got := task.Resources(offer).Satisfy(w)
	res.Classes = []string{fmt.Sprintf("ref:%v", refOK)}
	res.NonTrivial = !refOK
	if got && !refOK {
		res.Violation = fmt.Sprintf("offer cpu=%v mem=%v ports=%v accepted for wants cpu=%v mem=%v static=%v dynamic=%d which it does not cover", c.Cpu, c.Mem, c.OfferPorts, c.WantCpu, c.WantMem, c.WantStatic, c.InboundCount)
		res.Signature = "resources:false-positive"
	}
	if !got && refOK {
		res.Classes = append(res.Classes, "false-negative")
	}
	return
}

func genRes(t *rapid.T) ResCase {
	c := ResCase{Cpu: float64(rapid.IntRange(0, 16).Draw(t, "cpu")), Mem: float64(rapid.IntRange(0, 8192).Draw(t, "mem"))}
	c.WantCpu = float64(rapid.IntRange(0, 16).Draw(t, "wcpu")) / 2
	c.WantMem = float64(rapid.IntRange(0, 9000).Draw(t, "wmem")) / 2
	n := rapid.IntRange(0, 3).Draw(t, "nranges")
	base := uint64(9000)
	for i := 0; i < n; i++ {
		b := base + rapid.Uint64Range(0, 20).Draw(t, "gap")
		e := b + rapid.Uint64Range(0, 30).Draw(t, "len")
		c.OfferPorts = append(c.OfferPorts, [2]uint64{b, e})
		base = e + 2
	}
	ns := rapid.IntRange(0, 2).Draw(t, "nstatic")
	for i := 0; i < ns; i++ {
		b := 9000 + rapid.Uint64Range(0, 80).Draw(t, "sb")
		c.WantStatic = append(c.WantStatic, [2]uint64{b, b + rapid.Uint64Range(0, 5).Draw(t, "sl")})
	}
	c.InboundCount = rapid.IntRange(0, 40).Draw(t, "inbound")
	return c
}

func TestResources(t *testing.T) { vh.Check(t, prop, genRes, runRes) }

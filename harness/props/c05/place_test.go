package c05

import (
	"fmt"
	"os"
	"regexp"
	"sort"
	"strconv"
	"strings"
	"sync/atomic"
	"testing"
	"time"

	mesos "github.com/mesos/mesos-go/api/v1/lib"
	"github.com/mesos/mesos-go/api/v1/lib/resources"
	"pgregory.net/rapid"

	"verifharness/simworld"
	"verifharness/vh"
)

// Whole-core part of C05: generated agents (attributes, cpu, memory, port ranges) and generated workflows
// (constraints at class / aggregator / role level, wants, static ports, inbound channels, control modes) deployed by
// the real scheduler; the ACCEPT and DECLINE calls received by the simulated master are joined with the offers it sent.

type PAgent struct {
	Rack, Kind string
	CPU        float64
	Mem        float64
	Ports      [][2]uint64
}

type PTask struct {
	ClassCons  [][2]string // constraints of the task template (farthest)
	GroupCons  [][2]string // constraints of the enclosing aggregator
	RoleCons   [][2]string // constraints of the task role (nearest)
	CPU        float64
	Mem        float64
	Static     [][2]uint64 // static port ranges of the template
	BindTCP    int         // inbound TCP channels
	BindIPC    int
	Mode       string // direct | basic | fairmq
	Critical   bool
	MachineIdx int // -1: no machine_id constraint at role level
	ShareWith  int // -1: a task template of its own; k: uses the task template of task k (whose template-level fields it then has)
	RoleBind   int // inbound TCP channels declared on the role (in addition to those of the task template)
}

type PCase struct {
	Agents []PAgent
	Tasks  []PTask
}

var placeSeq int64
var hostNames = []string{"hosta", "hostb", "hostc"}

func placeWorld() (*simworld.World, error) {
	return simworld.Shared("c05-place", 25, func() simworld.Options {
		ag, det := simworld.DefaultAgents()
		o := simworld.Options{Agents: ag, Detectors: det}
		if os.Getenv("C05_DEBUG") != "" {
			o.CoreFlags = []string{"--veryVerbose"}
		}
		return o
	})
}

func portsOf(rs mesos.Resources) map[uint64]bool {
	out := map[uint64]bool{}
	if r, ok := resources.Ports(rs...); ok {
		for _, x := range r {
			for p := x.Begin; p <= x.End; p++ {
				out[p] = true
			}
		}
	}
	return out
}

func consYAML(cs [][2]string, indent string) string {
	if len(cs) == 0 {
		return ""
	}
	s := indent + "constraints:\n"
	for _, c := range cs {
		s += fmt.Sprintf("%s  - attribute: %s\n%s    value: %s\n", indent, c[0], indent, c[1])
	}
	return s
}

func runPlace(c PCase) (res vh.Result) {
	w, err := placeWorld()
	if err != nil {
		res.Inconclusive = "world: " + err.Error()
		return
	}
	if !w.Recycle() {
		simworld.Discard()
		res.Inconclusive = "world could not be recycled"
		return
	}
	// configure the three simulated agents for this case (no task is alive between cases)
	agents := w.Master.Agents()
	for i, a := range agents {
		if i < len(c.Agents) {
			pa := c.Agents[i]
			a.Gone = false
			a.Attrs = map[string]string{"machine_id": hostNames[i], "rack": pa.Rack, "kind": pa.Kind}
			a.CPU, a.Mem, a.Ports = pa.CPU, pa.Mem, pa.Ports
		} else {
			a.Gone = true
		}
	}
	defer func() {
		for i, a := range agents {
			a.Gone = false
			a.Attrs = map[string]string{"machine_id": hostNames[i]}
			a.CPU, a.Mem, a.Ports = 16, 32768, [][2]uint64{{9000, 40000}}
		}
	}()
	n := atomic.AddInt64(&placeSeq, 1)
	wf := fmt.Sprintf("pw%dx%d", os.Getpid(), n)
	var sb strings.Builder
	fmt.Fprintf(&sb, "name: %s\ndefaults:\n  deploy_timeout: 9s\nroles:\n", wf)
	for i, t := range c.Tasks {
		cls := fmt.Sprintf("pc%dx%dt%d", os.Getpid(), n, i)
		if t.ShareWith >= 0 && t.ShareWith < i {
			cls = fmt.Sprintf("pc%dx%dt%d", os.Getpid(), n, t.ShareWith)
		}
		fmt.Fprintf(&sb, "  - name: g%d\n%s    roles:\n      - name: t%d\n        vars:\n          tix: \"%d\"\n", i, consYAML(t.GroupCons, "    "), i, i)
		if t.RoleBind > 0 {
			sb.WriteString("        bind:\n")
			for b := 0; b < t.RoleBind; b++ {
				fmt.Fprintf(&sb, "          - name: rin%d\n            type: pull\n            transport: zeromq\n            addressing: tcp\n", b)
			}
		}
		rc := append([][2]string{}, t.RoleCons...)
		if t.MachineIdx >= 0 {
			rc = append(rc, [2]string{"machine_id", hostNames[t.MachineIdx]})
		}
		sb.WriteString(consYAML(rc, "        "))
		fmt.Fprintf(&sb, "        task:\n          load: %s\n          critical: %v\n", cls, t.Critical)
		if t.ShareWith >= 0 && t.ShareWith < i {
			continue // the template was written for the task it is shared with
		}
		var cy strings.Builder
		fmt.Fprintf(&cy, "name: %s\ncontrol:\n  mode: %s\nwants:\n  cpu: %g\n  memory: %g\n", cls, t.Mode, t.CPU, t.Mem)
		if len(t.Static) > 0 {
			var ps []string
			for _, r := range t.Static {
				if r[0] == r[1] {
					ps = append(ps, fmt.Sprint(r[0]))
				} else {
					ps = append(ps, fmt.Sprintf("%d-%d", r[0], r[1]))
				}
			}
			fmt.Fprintf(&cy, "  ports: \"%s\"\n", strings.Join(ps, ","))
		}
		if t.BindTCP+t.BindIPC > 0 {
			cy.WriteString("bind:\n")
			for b := 0; b < t.BindTCP; b++ {
				fmt.Fprintf(&cy, "  - name: in%d\n    type: pull\n    transport: zeromq\n    addressing: tcp\n", b)
			}
			for b := 0; b < t.BindIPC; b++ {
				fmt.Fprintf(&cy, "  - name: ipc%d\n    type: pull\n    transport: shmem\n    addressing: ipc\n", b)
			}
		}
		cy.WriteString(consYAML(t.ClassCons, ""))
		cy.WriteString("defaults:\n  tix: none\ncommand:\n  shell: true\n  value: \"sleep 1000 #tix={{ tix }}#\"\n")
		w.WriteTask(cls, cy.String())
	}
	w.WriteWorkflow(wf, sb.String())

	// ---- reference: merged constraints (nearer overrides farther) and the agents that satisfy them
	merged := make([]map[string]string, len(c.Tasks))
	overridden, unsat := false, false
	for i, t := range c.Tasks {
		m := map[string]string{}
		for _, lvl := range [][][2]string{t.ClassCons, t.GroupCons, t.RoleCons} {
			for _, kv := range lvl {
				if old, ok := m[kv[0]]; ok && old != kv[1] {
					overridden = true
				}
				m[kv[0]] = kv[1]
			}
		}
		if t.MachineIdx >= 0 {
			m["machine_id"] = hostNames[t.MachineIdx]
		}
		merged[i] = m
		any := false
		for ai := range c.Agents {
			if satisfies(c.Agents[ai], ai, m) {
				any = true
			}
		}
		if !any {
			unsat = true
		}
	}
	createErr := ""
	defer func() {
		res.History = map[string]interface{}{"workflow": sb.String(), "create_error": createErr, "world_log_tail": w.LogLines(60)}
	}()
	fail := func(sig, f string, a ...interface{}) vh.Result {
		res.Violation = fmt.Sprintf(f, a...)
		res.Signature = sig
		simworld.Discard()
		return res
	}
	callMark := len(w.Master.Calls())
	taskMark := len(w.Master.Tasks())
	offerMark := w.Master.OfferCount()
	env, cerr := w.NewEnv(wf, nil, 40*time.Second)
	if cerr != nil {
		createErr = cerr.Error()
		if os.Getenv("C05_DEBUG") != "" {
			fmt.Fprintln(os.Stderr, "CREATE FAILED:", createErr)
			if !unsat {
				fmt.Fprintln(os.Stderr, sb.String())
				fmt.Fprintf(os.Stderr, "AGENTS %+v\n", c.Agents)
				for _, l := range w.LogLines(400) {
					if strings.Contains(l, "offers") || strings.Contains(l, "ACCEPT") || strings.Contains(l, "DECLINE") || strings.Contains(l, "update") || strings.Contains(l, "launch") {
						fmt.Fprintln(os.Stderr, "   ", l)
					}
				}
				for _, l := range strings.Split(w.CoreLogTail(400000), "\n") {
					if strings.Contains(l, wf) || strings.Contains(l, fmt.Sprintf("pc%dx%dt", os.Getpid(), n)) || strings.Contains(l, "offer") || strings.Contains(l, "satisf") {
						fmt.Fprintln(os.Stderr, "  CORE:", l)
					}
				}
			}
		}
	}
	if crash := w.CoreCrash(); crash != "" {
		return fail("core-crash", "the core died while placing tasks: %s", firstLines(crash, 14))
	}
	if cerr == nil {
		defer w.Destroy(env.Id, true, true, false, 30*time.Second)
	}
	time.Sleep(300 * time.Millisecond) // let the DECLINE of the last offers round arrive
	if crash := w.CoreCrash(); crash != "" {
		return fail("core-crash", "the core died while placing tasks: %s", firstLines(crash, 14))
	}

	// ---- join launches with offers
	type onOffer struct {
		cpu, mem float64
		tasks    []string
	}
	perOffer := map[string]*onOffer{}
	portsOnAgent := map[string]map[uint64]string{}
	launched := w.Master.Tasks()[taskMark:]
	sharedOffer, staticUsed, dynUsed, sharedClass := false, false, false, false
	tixRe := regexp.MustCompile(`#tix=(\d+)#`)
	classPrefix := fmt.Sprintf("pc%dx%dt", os.Getpid(), n)
	for _, t := range launched {
		if !strings.HasPrefix(simworld.ClassOf(t), classPrefix) {
			continue
		}
		val, _ := t.Cmd["value"].(string)
		m := tixRe.FindStringSubmatch(val)
		if m == nil {
			return fail("task-not-identified", "task %s of class %s was launched with command %q", t.ID, simworld.ClassOf(t), val)
		}
		i, _ := strconv.Atoi(m[1])
		if i < 0 || i >= len(c.Tasks) {
			continue
		}
		pt := c.Tasks[i]
		off := w.Master.Offer(t.OfferID)
		if off == nil {
			return fail("launch-without-offer", "task %s was launched on offer %q which the master never sent", t.ID, t.OfferID)
		}
		ai := -1
		for k, a := range agents {
			if a.ID == off.AgentID {
				ai = k
			}
		}
		if ai < 0 || ai >= len(c.Agents) {
			return fail("launch-on-unknown-agent", "task %s was launched on agent %s", t.ID, off.AgentID)
		}
		// (a) constraints
		if !satisfies(c.Agents[ai], ai, merged[i]) {
			return fail("constraint-violated", "task t%d (merged constraints %v) was launched on %s whose attributes are machine_id=%s rack=%s kind=%s",
				i, merged[i], hostNames[ai], hostNames[ai], c.Agents[ai].Rack, c.Agents[ai].Kind)
		}
		// (b) what the task gets comes from the offer
		offPorts := portsOf(off.Offer.Resources)
		tPorts := portsOf(t.Info.Resources)
		for p := range tPorts {
			if !offPorts[p] {
				return fail("port-not-offered", "task t%d was given port %d which offer %s on %s does not contain", i, p, t.OfferID, hostNames[ai])
			}
		}
		// (c) static ports exactly as written, one dynamic port per inbound TCP channel, a control port for controllable tasks
		nStatic := 0
		for _, r := range pt.Static {
			for p := r[0]; p <= r[1]; p++ {
				nStatic++
				if !tPorts[p] {
					return fail("static-port-missing", "task t%d asks for static port %d but was launched with ports %v", i, p, keys(tPorts))
				}
			}
		}
		want := nStatic + pt.BindTCP + pt.RoleBind
		if pt.Mode != "basic" {
			want++
		}
		if len(tPorts) < want {
			return fail("too-few-ports", "task t%d needs %d static + %d channel ports (+control port: %v) but was launched with %d ports %v", i, nStatic, pt.BindTCP+pt.RoleBind, pt.Mode != "basic", len(tPorts), keys(tPorts))
		}
		// (the scheduler also hands a control port to tasks that are not controllable; that surplus is not held against it)
		if slack := map[bool]int{true: 1, false: 0}[pt.Mode == "basic"]; len(tPorts) > want+slack {
			return fail("too-many-ports", "task t%d needs %d static + %d channel ports (+control port: %v) but was launched with %d ports %v", i, nStatic, pt.BindTCP+pt.RoleBind, pt.Mode != "basic", len(tPorts), keys(tPorts))
		}
		if pt.ShareWith >= 0 {
			sharedClass = true
		}
		if nStatic > 0 {
			staticUsed = true
		}
		if pt.BindTCP+pt.RoleBind > 0 {
			dynUsed = true
		}
		// (d) pairwise distinct on an agent
		if portsOnAgent[off.AgentID] == nil {
			portsOnAgent[off.AgentID] = map[uint64]string{}
		}
		for p := range tPorts {
			if other, dup := portsOnAgent[off.AgentID][p]; dup {
				return fail("port-assigned-twice", "port %d on %s was handed to both %s and t%d", p, hostNames[ai], other, i)
			}
			portsOnAgent[off.AgentID][p] = fmt.Sprintf("t%d", i)
		}
		oo := perOffer[t.OfferID]
		if oo == nil {
			oo = &onOffer{}
			perOffer[t.OfferID] = oo
		}
		oo.cpu += pt.CPU
		oo.mem += pt.Mem
		oo.tasks = append(oo.tasks, fmt.Sprintf("t%d", i))
		// per task
		oc, _ := resources.CPUs(off.Offer.Resources...)
		om, _ := resources.Memory(off.Offer.Resources...)
		if pt.CPU > oc+1e-9 || pt.Mem > float64(om)+1e-9 {
			return fail("task-exceeds-offer", "task t%d wants cpu %g mem %g but offer %s holds cpu %g mem %d", i, pt.CPU, pt.Mem, t.OfferID, oc, om)
		}
	}
	// (e) all tasks of one offer together stay within the offer
	for oid, oo := range perOffer {
		off := w.Master.Offer(oid)
		oc, _ := resources.CPUs(off.Offer.Resources...)
		om, _ := resources.Memory(off.Offer.Resources...)
		if len(oo.tasks) > 1 {
			sharedOffer = true
		}
		if oo.cpu > oc+1e-9 || oo.mem > float64(om)+1e-9 {
			sort.Strings(oo.tasks)
			return fail("offer-oversubscribed", "tasks %v launched on offer %s ask for cpu %g mem %g together, the offer holds cpu %g mem %d", oo.tasks, oid, oo.cpu, oo.mem, oc, om)
		}
	}
	// (f) every offer is either used or declined
	used, declined := map[string]bool{}, map[string]bool{}
	for _, cl := range w.Master.Calls()[callMark:] {
		switch cl.Type {
		case "ACCEPT":
			for _, o := range cl.OfferIDs {
				used[o] = true
			}
		case "DECLINE":
			for _, o := range cl.OfferIDs {
				declined[o] = true
			}
		}
	}
	for _, oid := range w.Master.OfferIDsSince(offerMark) {
		if !used[oid] && !declined[oid] {
			// give the core a moment more before concluding
			time.Sleep(1500 * time.Millisecond)
			for _, cl := range w.Master.Calls()[callMark:] {
				if cl.Type == "DECLINE" || cl.Type == "ACCEPT" {
					for _, o := range cl.OfferIDs {
						if o == oid {
							used[oid] = true
						}
					}
				}
			}
			if !used[oid] {
				return fail("offer-neither-used-nor-declined", "offer %s was neither accepted nor declined", oid)
			}
		}
	}
	res.NonTrivial = overridden || unsat || sharedOffer
	for k, b := range map[string]bool{"constraint-overridden": overridden, "unsatisfiable-task": unsat, "offer-shared-by-tasks": sharedOffer, "template-shared-by-roles": sharedClass,
		"static-ports": staticUsed, "dynamic-ports": dynUsed, "deployment-failed": cerr != nil, "deployed": cerr == nil} {
		if b {
			res.Classes = append(res.Classes, k)
		}
	}
	return
}

func satisfies(a PAgent, ai int, m map[string]string) bool {
	attrs := map[string]string{"machine_id": hostNames[ai], "rack": a.Rack, "kind": a.Kind}
	for k, v := range m {
		if attrs[k] != v {
			return false
		}
	}
	return true
}

func keys(m map[uint64]bool) []uint64 {
	var out []uint64
	for k := range m {
		out = append(out, k)
	}
	sort.Slice(out, func(i, j int) bool { return out[i] < out[j] })
	return out
}

func firstLines(s string, n int) string {
	l := strings.Split(s, "\n")
	if len(l) > n {
		l = l[:n]
	}
	return strings.Join(l, "\n")
}

// ---------------------------------------------------------------------------------------------

// genTaskCons draws the constraints of one task so that the chosen agent satisfies them: every level gets a random
// subset of the agent's attributes; in mode "override" a farther level carries a wrong value that a nearer level
// corrects; with unsat the nearest definition of one attribute is wrong (no agent may take the task).
func genTaskCons(t *rapid.T, a PAgent, pt *PTask, unsat bool) {
	attrs := [][2]string{{"rack", a.Rack}, {"kind", a.Kind}}
	other := map[string]string{"r1": "r2", "r2": "r1", "flp": "epn", "epn": "flp"}
	levels := []*[][2]string{&pt.ClassCons, &pt.GroupCons, &pt.RoleCons}
	for ai, at := range attrs {
		mode := rapid.SampledFrom([]string{"none", "one", "one", "two", "override", "override"}).Draw(t, "consMode-"+at[0])
		if unsat && ai == 0 {
			mode = "unsat"
		}
		switch mode {
		case "one":
			l := rapid.IntRange(0, 2).Draw(t, "level")
			*levels[l] = append(*levels[l], at)
		case "two":
			l := rapid.IntRange(0, 1).Draw(t, "level")
			*levels[l] = append(*levels[l], at)
			*levels[l+1] = append(*levels[l+1], at)
		case "override":
			// farther: wrong value, nearer: right value
			l := rapid.IntRange(0, 1).Draw(t, "level")
			*levels[l] = append(*levels[l], [2]string{at[0], other[at[1]]})
			near := rapid.IntRange(l+1, 2).Draw(t, "nearer")
			*levels[near] = append(*levels[near], at)
		case "unsat":
			// nearer: wrong value, farther: right value (ignoring the override would make it look fine)
			l := rapid.IntRange(0, 1).Draw(t, "level")
			*levels[l] = append(*levels[l], at)
			near := rapid.IntRange(l+1, 2).Draw(t, "nearer")
			*levels[near] = append(*levels[near], [2]string{at[0], other[at[1]]})
		}
	}
}

func genPlace(t *rapid.T) PCase {
	c := PCase{}
	na := rapid.IntRange(1, 3).Draw(t, "agents")
	for i := 0; i < na; i++ {
		a := PAgent{Rack: rapid.SampledFrom([]string{"r1", "r2"}).Draw(t, "rack"), Kind: rapid.SampledFrom([]string{"flp", "epn"}).Draw(t, "kind")}
		// data ports from 9000, control ports from 30000: both regions always present (the scheduler assumes it)
		if rapid.IntRange(0, 4).Draw(t, "tight") == 0 {
			a.CPU = rapid.SampledFrom([]float64{1, 2}).Draw(t, "cpu")
			a.Mem = rapid.SampledFrom([]float64{512, 1024}).Draw(t, "mem")
			a.Ports = [][2]uint64{{9000, 9023}, {30000, 30007}}
			if rapid.IntRange(0, 2).Draw(t, "fewPorts") == 0 {
				// so few ports that the tasks placed here use every one of them
				nd, nc := uint64(rapid.IntRange(0, 3).Draw(t, "dataPorts")), uint64(rapid.IntRange(0, 2).Draw(t, "controlPorts"))
				a.Ports = [][2]uint64{{9000, 9000 + nd}, {30000, 30000 + nc}}
			}
		} else {
			a.CPU = rapid.SampledFrom([]float64{8, 16}).Draw(t, "cpu")
			a.Mem = rapid.SampledFrom([]float64{8192, 16384}).Draw(t, "mem")
			a.Ports = [][2]uint64{{9000, 9199}, {30000, 30199}}
			if rapid.IntRange(0, 2).Draw(t, "hole") == 0 {
				a.Ports = [][2]uint64{{9000, 9018}, {9021, 9203}, {30000, 30199}}
			}
		}
		c.Agents = append(c.Agents, a)
	}
	nt := rapid.IntRange(1, 6).Draw(t, "tasks")
	unsatTask := -1
	if rapid.IntRange(0, 9).Draw(t, "hasUnsat") == 0 {
		unsatTask = rapid.IntRange(0, nt-1).Draw(t, "unsatTask")
	}
	for i := 0; i < nt; i++ {
		pt := PTask{
			CPU: rapid.SampledFrom([]float64{0.1, 0.25, 0.5, 1}).Draw(t, "wcpu"), Mem: rapid.SampledFrom([]float64{64, 128, 300}).Draw(t, "wmem"),
			BindTCP: rapid.SampledFrom([]int{0, 0, 1, 2}).Draw(t, "bindTCP"), BindIPC: rapid.SampledFrom([]int{0, 0, 1}).Draw(t, "bindIPC"),
			Mode: rapid.SampledFrom([]string{"direct", "direct", "basic", "fairmq"}).Draw(t, "mode"), Critical: rapid.Bool().Draw(t, "critical"), MachineIdx: -1, ShareWith: -1,
			RoleBind: rapid.SampledFrom([]int{0, 0, 0, 1, 2}).Draw(t, "roleBind")}
		target := rapid.IntRange(0, na-1).Draw(t, "target")
		genTaskCons(t, c.Agents[target], &pt, i == unsatTask)
		if rapid.IntRange(0, 2).Draw(t, "hasMachine") > 0 {
			pt.MachineIdx = target
		}
		// static ports: usually a range of its own per task, sometimes deliberately the same as another task's
		base := uint64(9001 + 3*i)
		if rapid.IntRange(0, 11).Draw(t, "collide") == 0 {
			base = 9001
		}
		switch rapid.IntRange(0, 4).Draw(t, "static") {
		case 0:
			pt.Static = [][2]uint64{{base, base}}
		case 1:
			pt.Static = [][2]uint64{{base, base + 1}}
		case 2:
			pt.Static = [][2]uint64{{base, base}, {base + 2, base + 2}}
		}
		// several roles may run the same task template: the template-level part is then that of the earlier task
		if i > 0 && rapid.IntRange(0, 2).Draw(t, "shareTemplate") == 0 {
			k := rapid.IntRange(0, i-1).Draw(t, "shareWith")
			for c.Tasks[k].ShareWith >= 0 {
				k = c.Tasks[k].ShareWith
			}
			o := c.Tasks[k]
			if len(o.Static) > 0 && rapid.IntRange(0, 3).Draw(t, "shareCollidingStatic") != 0 {
				c.Tasks = append(c.Tasks, pt) // two roles with one template that names static ports collide on one agent: mostly avoided
				continue
			}
			pt.ShareWith, pt.ClassCons, pt.CPU, pt.Mem, pt.Static, pt.BindTCP, pt.BindIPC, pt.Mode = k, o.ClassCons, o.CPU, o.Mem, o.Static, o.BindTCP, o.BindIPC, o.Mode
			// placed like the other one (keeps the share of satisfiable workflows where it was); static ports would collide
			pt.GroupCons, pt.RoleCons, pt.MachineIdx = o.GroupCons, o.RoleCons, o.MachineIdx

		}
		c.Tasks = append(c.Tasks, pt)
	}
	return c
}

func TestPlacement(t *testing.T) {
	defer simworld.Discard()
	vh.Check(t, prop, genPlace, vh.Confirmed(runPlace))
}

func TestPlacementFixed(t *testing.T) {
	defer simworld.Discard()
	big := PAgent{Rack: "r1", Kind: "flp", CPU: 8, Mem: 16384, Ports: [][2]uint64{{9000, 9200}, {30000, 30200}}}
	small := PAgent{Rack: "r2", Kind: "epn", CPU: 2, Mem: 1024, Ports: [][2]uint64{{9000, 9011}, {30000, 30007}}}
	mk := func(cpu, mem float64, m int) PTask {
		return PTask{CPU: cpu, Mem: mem, Mode: "direct", Critical: true, MachineIdx: m, BindTCP: 1, ShareWith: -1}
	}
	// two roles run one task template; only one of them declares inbound channels of its own (either order)
	vh.Fixed(t, prop, "one-template-different-role-level-channels", PCase{Agents: []PAgent{big}, Tasks: []PTask{
		{CPU: 0.5, Mem: 128, Mode: "direct", Critical: true, MachineIdx: 0, ShareWith: -1, RoleBind: 2}, {CPU: 0.5, Mem: 128, Mode: "direct", Critical: true, MachineIdx: 0, ShareWith: 0}}}, vh.Confirmed(runPlace))
	vh.Fixed(t, prop, "one-template-different-role-level-channels-2", PCase{Agents: []PAgent{big}, Tasks: []PTask{
		{CPU: 0.5, Mem: 128, Mode: "direct", Critical: true, MachineIdx: 0, ShareWith: -1}, {CPU: 0.5, Mem: 128, Mode: "direct", Critical: true, MachineIdx: 0, ShareWith: 0, RoleBind: 1}, {CPU: 0.5, Mem: 128, Mode: "direct", Critical: true, MachineIdx: 0, ShareWith: 0, RoleBind: 2}}}, vh.Confirmed(runPlace))
	vh.Fixed(t, prop, "two-tasks-fit-one-offer", PCase{Agents: []PAgent{big}, Tasks: []PTask{mk(3, 512, 0), mk(3, 512, 0)}}, vh.Confirmed(runPlace))
	vh.Fixed(t, prop, "nearer-constraint-overrides", PCase{Agents: []PAgent{big, small}, Tasks: []PTask{{ClassCons: [][2]string{{"rack", "r2"}}, GroupCons: [][2]string{{"rack", "r2"}}, RoleCons: [][2]string{{"rack", "r1"}}, CPU: 1, Mem: 128, Mode: "basic", Critical: true, MachineIdx: -1}}}, vh.Confirmed(runPlace))
	vh.Fixed(t, prop, "same-static-port-twice-on-one-agent", PCase{Agents: []PAgent{big}, Tasks: []PTask{{CPU: 1, Mem: 128, Mode: "direct", Critical: true, MachineIdx: 0, Static: [][2]uint64{{9001, 9001}}}, {CPU: 1, Mem: 128, Mode: "direct", Critical: true, MachineIdx: 0, Static: [][2]uint64{{9001, 9001}}}}}, vh.Confirmed(runPlace))
	vh.Fixed(t, prop, "no-control-port-in-offer", PCase{Agents: []PAgent{{Rack: "r1", Kind: "flp", CPU: 8, Mem: 8192, Ports: [][2]uint64{{9000, 9050}}}}, Tasks: []PTask{mk(1, 128, 0)}}, vh.Confirmed(runPlace))
	vh.Fixed(t, prop, "no-data-port-in-offer", PCase{Agents: []PAgent{{Rack: "r1", Kind: "flp", CPU: 8, Mem: 8192, Ports: [][2]uint64{{30000, 30050}}}}, Tasks: []PTask{mk(1, 128, 0)}}, vh.Confirmed(runPlace))
	vh.Fixed(t, prop, "static-port-equals-first-dynamic-port", PCase{Agents: []PAgent{big}, Tasks: []PTask{{CPU: 1, Mem: 128, Mode: "direct", Critical: true, MachineIdx: 0, Static: [][2]uint64{{9000, 9001}}, BindTCP: 2}}}, vh.Confirmed(runPlace))
	// the first task takes the very last ports of the offer (one data port for its channel, one control port); a second task wants the same
	exact := PAgent{Rack: "r1", Kind: "flp", CPU: 8, Mem: 8192, Ports: [][2]uint64{{9000, 9000}, {30000, 30000}}}
	vh.Fixed(t, prop, "last-ports-of-the-offer-taken-by-the-first-task", PCase{Agents: []PAgent{exact}, Tasks: []PTask{mk(1, 128, 0), mk(1, 128, 0)}}, vh.Confirmed(runPlace))
	exact2 := PAgent{Rack: "r1", Kind: "flp", CPU: 8, Mem: 8192, Ports: [][2]uint64{{9000, 9001}, {30000, 30001}}}
	vh.Fixed(t, prop, "last-ports-of-the-offer-taken-by-the-second-task", PCase{Agents: []PAgent{exact2}, Tasks: []PTask{mk(1, 128, 0), mk(1, 128, 0), mk(1, 128, 0)}}, vh.Confirmed(runPlace))
	vh.Fixed(t, prop, "cpu-sum-exceeds-offer", PCase{Agents: []PAgent{small}, Tasks: []PTask{mk(1.5, 128, 0), mk(1.5, 128, 0)}}, vh.Confirmed(runPlace))
	vh.Fixed(t, prop, "memory-sum-exceeds-offer", PCase{Agents: []PAgent{small}, Tasks: []PTask{mk(0.5, 900, 0), mk(0.5, 900, 0)}}, vh.Confirmed(runPlace))
}

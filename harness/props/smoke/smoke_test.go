package smoke

import (
	"fmt"
	"testing"
	"time"

	pb "github.com/AliceO2Group/Control/core/protos"
	"verifharness/simworld"
)

const wf = `name: wfa
defaults:
  deploy_timeout: 2s
roles:
  - name: t0
    constraints:
      - attribute: machine_id
        value: hosta
    task:
      load: clsa
  - name: t1
    constraints:
      - attribute: machine_id
        value: hostb
    task:
      load: clsb
      critical: false
  - name: p0
    call:
      func: verifprobe.P("hello")
      trigger: before_START_ACTIVITY
      timeout: 2s
`

func cls(name, mode string) string {
	return fmt.Sprintf("name: %s\ncontrol:\n  mode: %s\nwants:\n  cpu: 0.1\n  memory: 64\ncommand:\n  shell: true\n  value: \"sleep 1000\"\n", name, mode)
}

func TestSmoke(t *testing.T) {
	w, err := simworld.NewWorld(simworld.Options{Agents: []*simworld.Agent{
		{ID: "agent-a", Hostname: "hosta", Attrs: map[string]string{"machine_id": "hosta"}, CPU: 8, Mem: 8192, Ports: [][2]uint64{{9000, 40000}}},
		{ID: "agent-b", Hostname: "hostb", Attrs: map[string]string{"machine_id": "hostb"}, CPU: 8, Mem: 8192, Ports: [][2]uint64{{9000, 40000}}},
	}})
	if err != nil {
		t.Fatal(err)
	}
	defer w.Close()
	w.WriteWorkflow("wfa", wf)
	w.WriteTask("clsa", cls("clsa", "direct"))
	w.WriteTask("clsb", cls("clsb", "basic"))
	t0 := time.Now()
	env, err := w.NewEnv("wfa", nil, 30*time.Second)
	t.Log("create", time.Since(t0), env.GetState(), err)
	for _, tk := range w.Master.Tasks() {
		t.Logf("task %s name=%q agent=%s exec=%s env=%s cmd=%v", tk.ID, tk.Name, tk.AgentID, tk.ExecID, tk.EnvID, tk.Cmd["controlMode"])
	}
	if env != nil {
		for _, op := range []pb.ControlEnvironmentRequest_Optype{pb.ControlEnvironmentRequest_START_ACTIVITY, pb.ControlEnvironmentRequest_STOP_ACTIVITY, pb.ControlEnvironmentRequest_RESET, pb.ControlEnvironmentRequest_DEPLOY} {
			r, err := w.Control(env.Id, op, 20*time.Second)
			t.Log(op, r.GetState(), err)
		}
		_, err = w.Destroy(env.Id, true, false, false, 20*time.Second)
		t.Log("destroy", err)
	}
	for _, l := range w.LogLines(0) {
		t.Log(l)
	}
}

package c12

import (
	"fmt"
	"sort"
	"strings"
	"sync"
	"testing"
	"time"

	"github.com/AliceO2Group/Control/common/utils/uid"
	cc "github.com/AliceO2Group/Control/core/controlcommands"
	mesos "github.com/mesos/mesos-go/api/v1/lib"
	"github.com/rs/xid"
	"pgregory.net/rapid"

	"verifharness/vh"
)

const prop = "C12"

// Behaviour of one target of one command.
type Target struct {
	Task int    // index into the pool of simulated tasks (agent/executor derived from it)
	Kind string // reply | fastreply (processed before the send call returns) | errreply | sendfail | silent | dup | late | foreignid | foreigntarget | otherscmd
	Slot int    // arrival slot of the reply (x 8 ms after the send)
}

type Command struct {
	Queue     int // stress mode: which queue carries it
	TimeoutMs int
	Targets   []Target
}

type Case struct {
	Mode     string // production (one queue) | stress (several queues, one servent)
	Queues   int
	Commands []Command
}

func mkTarget(i int) cc.MesosCommandTarget {
	return cc.MesosCommandTarget{
		AgentId:    mesos.AgentID{Value: fmt.Sprintf("agent-%d", i%3)},
		ExecutorId: mesos.ExecutorID{Value: fmt.Sprintf("exec-%d", i%3)},
		TaskId:     mesos.TaskID{Value: fmt.Sprintf("task-%d", i)},
	}
}

func token(ci, ti int) string { return fmt.Sprintf("tok-c%d-t%d", ci, ti) }

type cmdState struct {
	cmd   *cc.MesosCommand_Transition
	spec  Command
	cb    chan cc.MesosCommandResponse
	start time.Time
}

func runOnce(c Case) (res vh.Result) {
	var hmu sync.Mutex
	hist := []string{}
	t0 := time.Now()
	logf := func(f string, a ...interface{}) {
		hmu.Lock()
		hist = append(hist, fmt.Sprintf("%6.1fms ", float64(time.Since(t0).Microseconds())/1000)+fmt.Sprintf(f, a...))
		hmu.Unlock()
	}
	defer func() {
		hmu.Lock()
		res.History = append([]string(nil), hist...)
		hmu.Unlock()
	}()

	envId := uid.New()
	cmds := make([]*cmdState, len(c.Commands))
	byId := map[xid.ID]int{}
	for i, spec := range c.Commands {
		tl := make([]cc.MesosCommandTarget, len(spec.Targets))
		for j, t := range spec.Targets {
			tl[j] = mkTarget(t.Task)
		}
		cmd := cc.NewMesosCommand_Transition(envId, tl, "STANDBY", "CONFIGURE", "CONFIGURED", nil)
		cmd.ResponseTimeout = time.Duration(spec.TimeoutMs) * time.Millisecond
		cmds[i] = &cmdState{cmd: cmd, spec: spec, cb: make(chan cc.MesosCommandResponse, 4)}
		byId[cmd.GetId()] = i
	}

	var servent *cc.Servent
	var wg sync.WaitGroup
	var sendMu sync.Mutex
	sends := map[string]int{} // "ci/task" -> number of send calls
	deliver := func(delay time.Duration, r cc.MesosCommandResponse, sender cc.MesosCommandTarget, what string) {
		wg.Add(1)
		go func() {
			defer wg.Done()
			time.Sleep(delay)
			logf("deliver %s from %s", what, sender.TaskId.Value)
			// production delivers every reply in its own goroutine (scheduler.go incomingMessageHandler)
			go servent.ProcessResponse(r, sender)
		}()
	}
	send := func(command cc.MesosCommand, receiver cc.MesosCommandTarget) error {
		ci, ok := byId[command.GetId()]
		if !ok {
			logf("send of unknown command id %s", command.GetId())
			return nil
		}
		st := cmds[ci]
		ti := -1
		for j, t := range st.spec.Targets {
			if mkTarget(t.Task) == receiver {
				ti = j
			}
		}
		sendMu.Lock()
		sends[fmt.Sprintf("%d/%s", ci, receiver.TaskId.Value)]++
		sendMu.Unlock()
		if ti < 0 {
			logf("cmd %d sent to a target that is not in its list: %s", ci, receiver.TaskId.Value)
			return nil
		}
		// the single-target copy must address exactly this receiver
		if tr, ok := command.(*cc.MesosCommand_Transition); ok {
			if len(tr.TargetList) != 1 || tr.TargetList[0] != receiver {
				sendMu.Lock()
				sends["BAD-SINGLE-TARGET"]++
				sendMu.Unlock()
			}
		}
		t := st.spec.Targets[ti]
		slot := time.Duration(t.Slot) * 8 * time.Millisecond
		timeout := time.Duration(st.spec.TimeoutMs) * time.Millisecond
		mk := func(id xid.ID, errs string, tok string) *cc.MesosCommandResponse_Transition {
			r := cc.NewMesosCommandResponse_Transition(st.cmd, nil, tok, receiver.TaskId.Value)
			r.CommandId = id
			r.ErrorString = errs
			return r
		}
		logf("send cmd %d -> %s (%s)", ci, receiver.TaskId.Value, t.Kind)
		switch t.Kind {
		case "sendfail":
			return fmt.Errorf("simulated send failure c%d-t%d", ci, ti)
		case "reply":
			deliver(slot, mk(st.cmd.GetId(), "", token(ci, ti)), receiver, token(ci, ti))
		case "fastreply":
			// the executor's reply overtakes the acknowledgement of the MESSAGE call: it reaches the servent while the send
			// function has not returned yet (a send over HTTP returns only when the master has answered)
			logf("deliver %s from %s before the send returns", token(ci, ti), receiver.TaskId.Value)
			wg.Add(1)
			go func() {
				defer wg.Done()
				servent.ProcessResponse(mk(st.cmd.GetId(), "", token(ci, ti)), receiver)
			}()
			time.Sleep(3 * time.Millisecond)
		case "errreply":
			deliver(slot, mk(st.cmd.GetId(), "device refused "+token(ci, ti), token(ci, ti)), receiver, token(ci, ti)+"(err)")
		case "dup":
			deliver(slot, mk(st.cmd.GetId(), "", token(ci, ti)), receiver, token(ci, ti))
			deliver(slot+5*time.Millisecond, mk(st.cmd.GetId(), "", token(ci, ti)+"-dup"), receiver, token(ci, ti)+"-dup")
		case "late":
			deliver(timeout+40*time.Millisecond+slot, mk(st.cmd.GetId(), "", token(ci, ti)+"-late"), receiver, token(ci, ti)+"-late")
		case "foreignid": // right sender, id of no command at all
			deliver(slot, mk(xid.New(), "", token(ci, ti)+"-foreignid"), receiver, token(ci, ti)+"-foreignid")
		case "otherscmd": // right sender, id of another command that does not address this task
			id := xid.New()
			for oi, o := range cmds {
				if oi == ci {
					continue
				}
				hit := false
				for _, ot := range o.spec.Targets {
					if ot.Task == t.Task {
						hit = true
					}
				}
				if !hit {
					id = o.cmd.GetId()
					break
				}
			}
			deliver(slot, mk(id, "", token(ci, ti)+"-otherscmd"), receiver, token(ci, ti)+"-otherscmd")
		case "foreigntarget": // right id, sender that is not a target of this command
			deliver(slot, mk(st.cmd.GetId(), "", token(ci, ti)+"-foreigntarget"), mkTarget(1000+t.Task), token(ci, ti)+"-foreigntarget")
		case "silent":
		}
		return nil
	}
	servent = cc.NewServent(send)
	queues := make([]*cc.CommandQueue, c.Queues)
	for i := range queues {
		queues[i] = cc.NewCommandQueue(servent)
		queues[i].Start()
	}
	defer func() {
		// (a queue whose current command never completes cannot be stopped: Stop needs the lock the commit holds)
		for _, q := range queues {
			q := q
			stopped := make(chan struct{})
			go func() { q.Stop(); close(stopped) }()
			select {
			case <-stopped:
			case <-time.After(2 * time.Second):
			}
		}
	}()
	for i, st := range cmds {
		st.start = time.Now()
		if err := queues[st.spec.Queue%c.Queues].Enqueue(st.cmd, st.cb); err != nil {
			res.Inconclusive = "enqueue: " + err.Error()
			return
		}
		logf("enqueued cmd %d on queue %d", i, st.spec.Queue%c.Queues)
	}

	// budget: commands on one queue run one after the other
	perQueue := map[int]time.Duration{}
	var maxBudget time.Duration
	for _, st := range cmds {
		q := st.spec.Queue % c.Queues
		perQueue[q] += time.Duration(st.spec.TimeoutMs)*time.Millisecond + 50*time.Millisecond
		if perQueue[q] > maxBudget {
			maxBudget = perQueue[q]
		}
	}
	got := make([]cc.MesosCommandResponse, len(cmds))
	gotAt := make([]time.Duration, len(cmds))
	deadline := time.After(maxBudget + 3*time.Second)
	for i, st := range cmds {
		select {
		case r := <-st.cb:
			got[i] = r
			gotAt[i] = time.Since(t0)
			logf("cmd %d completed", i)
		case <-deadline:
			res.Violation = fmt.Sprintf("command %d did not complete within the sum of response timeouts of its queue + 3 s", i)
			res.Signature = "no-completion"
			return
		}
	}
	// let late / duplicate replies arrive, then make sure nothing completed twice
	wg.Wait()
	time.Sleep(30 * time.Millisecond)
	for i, st := range cmds {
		select {
		case <-st.cb:
			res.Violation = fmt.Sprintf("command %d completed a second time", i)
			res.Signature = "double-completion"
			return
		default:
		}
	}
	sendMu.Lock()
	defer sendMu.Unlock()
	if sends["BAD-SINGLE-TARGET"] > 0 {
		res.Violation = "a per-target copy of a command did not address exactly its receiver"
		res.Signature = "bad-single-target"
		return
	}

	abnormal, inflight := 0, c.Mode == "stress" && len(cmds) > 1
	for i, st := range cmds {
		// per-target expectation
		r := got[i]
		per := map[cc.MesosCommandTarget]cc.MesosCommandResponse{}
		if len(st.spec.Targets) == 1 {
			if r == nil {
				res.Violation = fmt.Sprintf("command %d (1 target) completed with a nil response", i)
				res.Signature = "nil-response"
				return
			}
			per[mkTarget(st.spec.Targets[0].Task)] = r
		} else {
			mr, ok := r.(*cc.MesosCommandMultiResponse)
			if !ok {
				res.Violation = fmt.Sprintf("command %d with %d targets completed with %T instead of a per-target result", i, len(st.spec.Targets), r)
				res.Signature = "not-multi"
				return
			}
			per = mr.GetResponses()
			if mr.GetCommandId() != st.cmd.GetId() {
				res.Violation = fmt.Sprintf("command %d: result carries another command's id", i)
				res.Signature = "wrong-id"
				return
			}
		}
		if len(per) != len(st.spec.Targets) {
			keys := []string{}
			for k := range per {
				keys = append(keys, k.TaskId.Value)
			}
			sort.Strings(keys)
			res.Violation = fmt.Sprintf("command %d: result holds %d per-target entries %v for %d targets", i, len(per), keys, len(st.spec.Targets))
			res.Signature = "entry-count"
			return
		}
		for j, t := range st.spec.Targets {
			tr, ok := per[mkTarget(t.Task)]
			if !ok || tr == nil {
				res.Violation = fmt.Sprintf("command %d: no result for target %s (%s)", i, mkTarget(t.Task).TaskId.Value, t.Kind)
				res.Signature = "missing-target:" + kindClass(t.Kind)
				return
			}
			if n := sends[fmt.Sprintf("%d/%s", i, mkTarget(t.Task).TaskId.Value)]; n != 1 {
				res.Violation = fmt.Sprintf("command %d was sent %d times to target %s", i, n, mkTarget(t.Task).TaskId.Value)
				res.Signature = "send-count"
				return
			}
			tok := ""
			if x, ok := tr.(*cc.MesosCommandResponse_Transition); ok {
				tok = x.CurrentState
			}
			switch t.Kind {
			case "reply", "dup", "fastreply":
				// either copy of a duplicated reply is this target's own reply (replies are delivered in their own goroutines and may overtake each other)
				if t.Kind == "dup" && tok == token(i, j)+"-dup" && tr.Err() == nil {
					break
				}
				if tok != token(i, j) || tr.Err() != nil {
					res.Violation = fmt.Sprintf("command %d target %s replied %q without error but the result holds state %q err %v", i, mkTarget(t.Task).TaskId.Value, token(i, j), tok, tr.Err())
					res.Signature = "own-reply-lost:" + t.Kind
					return
				}
			case "errreply":
				if tok != token(i, j) || tr.Err() == nil || !strings.Contains(tr.Err().Error(), token(i, j)) {
					res.Violation = fmt.Sprintf("command %d target %s replied with error %q but the result holds state %q err %v", i, mkTarget(t.Task).TaskId.Value, token(i, j), tok, tr.Err())
					res.Signature = "own-error-lost"
					return
				}
			default: // sendfail, silent, late, foreignid, otherscmd, foreigntarget: an error, and nobody's token
				abnormal++
				if tr.Err() == nil {
					res.Violation = fmt.Sprintf("command %d target %s (%s) never answered this command, yet the result reports no error (state %q)", i, mkTarget(t.Task).TaskId.Value, t.Kind, tok)
					res.Signature = "no-error:" + kindClass(t.Kind)
					return
				}
				if tok != "" {
					res.Violation = fmt.Sprintf("command %d target %s (%s): result carries a reply %q that is not this target's reply to this command", i, mkTarget(t.Task).TaskId.Value, t.Kind, tok)
					res.Signature = "foreign-reply:" + kindClass(t.Kind)
					return
				}
			}
			if t.Kind == "errreply" || t.Kind == "dup" {
				abnormal++
			}
		}
	}
	// timing: within the response timeout (plus scheduling slack) counted from the moment the queue could start it
	qEnd := map[int]time.Duration{}
	for i, st := range cmds {
		q := st.spec.Queue % c.Queues
		startAt := qEnd[q]
		allowed := startAt + time.Duration(st.spec.TimeoutMs)*time.Millisecond + 1500*time.Millisecond
		if gotAt[i] > allowed {
			res.Violation = fmt.Sprintf("command %d completed at %v, later than its response timeout allows (%v)", i, gotAt[i], allowed)
			res.Signature = "too-late"
			return
		}
		qEnd[q] = gotAt[i]
	}
	multi := false
	for _, st := range cmds {
		if len(st.spec.Targets) >= 2 {
			multi = true
		}
	}
	res.NonTrivial = (multi && abnormal > 0) || inflight
	res.Classes = append(res.Classes, "mode:"+c.Mode)
	if abnormal > 0 {
		res.Classes = append(res.Classes, "abnormal")
	}
	if multi {
		res.Classes = append(res.Classes, "multi-target")
	}
	if inflight {
		res.Classes = append(res.Classes, "concurrent-commands")
	}
	kinds := map[string]bool{}
	for _, st := range cmds {
		for _, t := range st.spec.Targets {
			kinds[t.Kind] = true
		}
	}
	for k := range kinds {
		res.Classes = append(res.Classes, "kind:"+k)
	}
	sort.Strings(res.Classes)
	return
}

func kindClass(k string) string {
	switch k {
	case "sendfail":
		return "sendfail"
	case "reply", "errreply", "dup", "fastreply":
		return "answered"
	}
	return "unanswered"
}

// timing-dependent verdicts are confirmed by a second execution of the same case
func run(c Case) vh.Result {
	r := runOnce(c)
	if r.Violation == "" {
		return r
	}
	r2 := runOnce(c)
	if r2.Violation == "" {
		r2.Inconclusive = "first execution reported: " + r.Violation
		r2.Classes = append(r2.Classes, "not-confirmed")
		return r2
	}
	return r2
}

var kinds = []string{"reply", "reply", "reply", "fastreply", "errreply", "sendfail", "silent", "dup", "late", "foreignid", "otherscmd", "foreigntarget"}

func gen(t *rapid.T) Case {
	c := Case{Mode: rapid.SampledFrom([]string{"production", "production", "stress"}).Draw(t, "mode"), Queues: 1}
	n := rapid.IntRange(1, 5).Draw(t, "ncmd")
	if c.Mode == "stress" {
		c.Queues = rapid.IntRange(2, 4).Draw(t, "queues")
		n = rapid.IntRange(2, 4).Draw(t, "ncmd")
	}
	for i := 0; i < n; i++ {
		cmd := Command{Queue: i, TimeoutMs: rapid.SampledFrom([]int{150, 180, 220}).Draw(t, "timeout")}
		nt := rapid.IntRange(1, 6).Draw(t, "ntargets")
		used := map[int]bool{}
		for j := 0; j < nt; j++ {
			task := rapid.IntRange(0, 7).Draw(t, "task")
			if used[task] {
				continue
			}
			used[task] = true
			cmd.Targets = append(cmd.Targets, Target{Task: task, Kind: rapid.SampledFrom(kinds).Draw(t, "kind"), Slot: rapid.IntRange(0, 5).Draw(t, "slot")})
		}
		c.Commands = append(c.Commands, cmd)
	}
	return c
}

func TestCommands(t *testing.T) {
	vh.Check(t, prop, gen, run)
}

// fixed regression shapes (one per abnormal behaviour, in a 3-target command next to two normal repliers)
func TestCommandsFixed(t *testing.T) {
	for _, k := range []string{"fastreply", "errreply", "sendfail", "silent", "dup", "late", "foreignid", "otherscmd", "foreigntarget"} {
		c := Case{Mode: "production", Queues: 1, Commands: []Command{
			{Queue: 0, TimeoutMs: 150, Targets: []Target{{0, "reply", 1}, {1, k, 0}, {2, "reply", 2}}},
			{Queue: 0, TimeoutMs: 150, Targets: []Target{{1, "reply", 0}, {3, "reply", 0}}},
		}}
		vh.Fixed(t, prop, k, c, run)
	}
	// two failing targets in one command
	vh.Fixed(t, prop, "two-failing", Case{Mode: "production", Queues: 1, Commands: []Command{
		{Queue: 0, TimeoutMs: 150, Targets: []Target{{0, "reply", 0}, {1, "sendfail", 0}, {2, "silent", 0}, {3, "reply", 1}}}}}, run)
	// a wide command most of whose targets stay silent: all the others are still sent to at once, and the command completes at
	// its response timeout (3.5 s here, so that twice the timeout is beyond the tolerance of the completion deadline)
	wide := Command{Queue: 0, TimeoutMs: 3500}
	for i := 0; i < 26; i++ {
		k := "silent"
		if i%4 == 3 {
			k = "reply"
		}
		wide.Targets = append(wide.Targets, Target{Task: i, Kind: k, Slot: i % 3})
	}
	vh.Fixed(t, prop, "wide-command-mostly-silent", Case{Mode: "production", Queues: 1, Commands: []Command{wide}}, run)
	vh.Fixed(t, prop, "single-silent", Case{Mode: "production", Queues: 1, Commands: []Command{
		{Queue: 0, TimeoutMs: 150, Targets: []Target{{0, "silent", 0}}}, {Queue: 0, TimeoutMs: 150, Targets: []Target{{0, "reply", 0}}}}}, run)
}

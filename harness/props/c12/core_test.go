package c12

// Whole-core part of C12: replies are attributed by command *and* sender. The servent-level properties above are judged on
// controlcommands alone; the place where the sender of an incoming MESSAGE is determined is the scheduler, so the same
// question is asked once more of the whole core: while a command to a task is pending, a reply that names this command
// and this task but comes from another executor must not complete it.

import (
	"fmt"
	"os"
	"strings"
	"sync/atomic"
	"testing"
	"time"

	pb "github.com/AliceO2Group/Control/core/protos"
	"pgregory.net/rapid"

	"verifharness/simworld"
	"verifharness/vh"
)

type CoreCase struct {
	NTasks int
	Victim int
	Op     string // START_ACTIVITY | RESET : the transition during which the foreign reply arrives
	Own    string // the victim's own answer, 150 ms later: error | ok
}

var coreSeq int64

func runCore(c CoreCase) (res vh.Result) {
	w, err := simworld.Shared("default", 20, func() simworld.Options {
		ag, det := simworld.DefaultAgents()
		return simworld.Options{Agents: ag, Detectors: det}
	})
	if err != nil {
		res.Inconclusive = "world: " + err.Error()
		return
	}
	n := atomic.AddInt64(&coreSeq, 1)
	wf := fmt.Sprintf("wa%dx%d", os.Getpid(), n)
	var sb strings.Builder
	fmt.Fprintf(&sb, "name: %s\ndefaults:\n  deploy_timeout: 8s\nroles:\n", wf)
	hosts := []string{"hosta", "hostb", "hostc"}
	idx := map[string]int{}
	for i := 0; i < c.NTasks; i++ {
		cls := fmt.Sprintf("a%dx%dt%d", os.Getpid(), n, i)
		idx[cls] = i
		fmt.Fprintf(&sb, "  - name: t%d\n    constraints:\n      - attribute: machine_id\n        value: %s\n    task:\n      load: %s\n", i, hosts[i%3], cls)
		w.WriteTask(cls, simworld.TaskClassYAML(cls, "direct", ""))
	}
	w.WriteWorkflow(wf, sb.String())
	defer func() { res.History = map[string]interface{}{"workflow": sb.String(), "world_log_tail": w.LogLines(60)} }()
	victim := c.Victim % c.NTasks
	var armed int32
	w.Master.OnCommand = func(t *simworld.SimTask, cmd *simworld.Command) simworld.Reply {
		if i, ok := idx[simworld.ClassOf(t)]; ok && i == victim && atomic.LoadInt32(&armed) == 1 {
			r := simworld.Reply{Impostor: true, Delay: 150 * time.Millisecond}
			if c.Own == "error" {
				r.Error, r.State = "simulated: task did not reach the expected state", cmd.Source
			}
			return r
		}
		return simworld.Reply{}
	}
	defer func() { w.Master.OnCommand = nil }()
	env, err := w.NewEnv(wf, nil, 40*time.Second)
	if err != nil {
		res.Inconclusive = "creation failed: " + err.Error()
		simworld.Discard()
		return
	}
	defer w.Destroy(env.Id, true, true, false, 30*time.Second)
	atomic.StoreInt32(&armed, 1)
	op := map[string]pb.ControlEnvironmentRequest_Optype{"START_ACTIVITY": pb.ControlEnvironmentRequest_START_ACTIVITY, "RESET": pb.ControlEnvironmentRequest_RESET}[c.Op]
	dst := map[string]string{"START_ACTIVITY": "RUNNING", "RESET": "DEPLOYED"}[c.Op]
	t0 := time.Now()
	rep, cerr := w.Control(env.Id, op, 60*time.Second)
	took := time.Since(t0)
	res.NonTrivial = true
	res.Classes = []string{"whole-core", "foreign-sender", "own-reply:" + c.Own}
	if c.Own == "error" {
		if cerr == nil && rep.GetState() == dst {
			res.Violation = fmt.Sprintf("%s: task t%d answered with an error, but 150 ms earlier another executor had sent a success reply naming this command and this task: the transition was reported successful (state %s)", c.Op, victim, rep.GetState())
			res.Signature = "foreign-sender-completed-command"
			simworld.Discard()
		}
		return
	}
	if cerr != nil || rep.GetState() != dst {
		res.Violation = fmt.Sprintf("%s: every task acknowledged (t%d 150 ms after a foreign executor's reply in its name), yet the request reports state=%s err=%v", c.Op, victim, rep.GetState(), cerr)
		res.Signature = "foreign-sender-disturbed-command"
		simworld.Discard()
		return
	}
	// the command was completed by the task's own reply, not by the earlier foreign one
	if took < 140*time.Millisecond {
		res.Violation = fmt.Sprintf("%s completed after %v: before task t%d's own reply (sent after 150 ms), i.e. on the strength of the foreign executor's reply", c.Op, took.Round(time.Millisecond), victim)
		res.Signature = "foreign-sender-completed-command"
		simworld.Discard()
	}
	return
}

func TestWholeCoreAttribution(t *testing.T) {
	defer simworld.Discard()
	vh.Check(t, prop, func(t *rapid.T) CoreCase {
		return CoreCase{NTasks: rapid.IntRange(1, 4).Draw(t, "ntasks"), Victim: rapid.IntRange(0, 3).Draw(t, "victim"),
			Op: rapid.SampledFrom([]string{"START_ACTIVITY", "RESET"}).Draw(t, "op"), Own: rapid.SampledFrom([]string{"error", "ok"}).Draw(t, "own")}
	}, vh.Confirmed(runCore))
}

func TestWholeCoreAttributionFixed(t *testing.T) {
	defer simworld.Discard()
	vh.Fixed(t, prop, "core/foreign-success-own-error", CoreCase{NTasks: 2, Victim: 0, Op: "START_ACTIVITY", Own: "error"}, vh.Confirmed(runCore))
	vh.Fixed(t, prop, "core/foreign-success-own-success", CoreCase{NTasks: 2, Victim: 1, Op: "START_ACTIVITY", Own: "ok"}, vh.Confirmed(runCore))
}

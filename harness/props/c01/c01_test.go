package c01

import (
	"encoding/json"
	"fmt"
	"os"
	"path/filepath"
	"strings"
	"sync"
	"sync/atomic"
	"testing"
	"time"

	pb "github.com/AliceO2Group/Control/core/protos"
	"pgregory.net/rapid"

	"verifharness/simworld"
	"verifharness/vh"
)

const prop = "C01"

type Req struct {
	Kind         string // control | destroy
	Op           string // for control: DEPLOY CONFIGURE START_ACTIVITY STOP_ACTIVITY RESET GO_ERROR
	Force        bool
	AllowRunning bool
}

type Batch struct {
	Reqs []Req // 1 request = issued alone; 2-3 = concurrent callers (the first is parked inside its transition while the others are fired)
}

type Case struct {
	NTasks   int
	Batches  []Batch
	Outcomes []string // outcome of the n-th executed transition after creation: ok | taskfail | hookfail
	// every GO_ERROR of this history is itself cancelled by a failing critical hook at before_GO_ERROR+1: the API then forces
	// the state (only drawn for histories without concurrent callers: the forcing happens outside the serialisation)
	GoErrorFails bool
}

var ops = map[string]pb.ControlEnvironmentRequest_Optype{
	"DEPLOY": pb.ControlEnvironmentRequest_DEPLOY, "CONFIGURE": pb.ControlEnvironmentRequest_CONFIGURE,
	"START_ACTIVITY": pb.ControlEnvironmentRequest_START_ACTIVITY, "STOP_ACTIVITY": pb.ControlEnvironmentRequest_STOP_ACTIVITY,
	"RESET": pb.ControlEnvironmentRequest_RESET, "GO_ERROR": pb.ControlEnvironmentRequest_GO_ERROR,
}

var taskEvent = map[string]string{"CONFIGURE": "CONFIGURE", "START": "START_ACTIVITY", "STOP": "STOP_ACTIVITY", "RESET": "RESET"}

var caseSeq int64

func world() (*simworld.World, error) {
	return simworld.Shared("default", 20, func() simworld.Options {
		ag, det := simworld.DefaultAgents()
		return simworld.Options{Agents: ag, Detectors: det}
	})
}

func run(c Case) (res vh.Result) {
	w, err := world()
	if err != nil {
		res.Inconclusive = "world: " + err.Error()
		return
	}
	n := atomic.AddInt64(&caseSeq, 1)
	wf := fmt.Sprintf("wf%dx%d", os.Getpid(), n)
	var sb strings.Builder
	fmt.Fprintf(&sb, "name: %s\ndefaults:\n  deploy_timeout: 6s\nroles:\n", wf)
	hosts := []string{"hosta", "hostb", "hostc"}
	for i := 0; i < c.NTasks; i++ {
		cls := fmt.Sprintf("k%dx%dt%d", os.Getpid(), n, i)
		fmt.Fprintf(&sb, "  - name: t%d\n    constraints:\n      - attribute: machine_id\n        value: %s\n    task:\n      load: %s\n", i, hosts[i%3], cls)
		w.WriteTask(cls, simworld.TaskClassYAML(cls, "direct", ""))
	}
	for _, e := range []string{"DEPLOY", "CONFIGURE", "START_ACTIVITY", "STOP_ACTIVITY", "RESET", "GO_ERROR"} {
		crit := e != "GO_ERROR" && e != "DEPLOY"
		fmt.Fprintf(&sb, "  - name: pb%s\n    call:\n      func: verifprobe.P(\"before:%s\")\n      trigger: before_%s\n      timeout: 5s\n      critical: %v\n", strings.ToLower(e), e, e, crit)
		fmt.Fprintf(&sb, "  - name: pa%s\n    call:\n      func: verifprobe.P(\"after:%s\")\n      trigger: after_%s\n      timeout: 5s\n      critical: false\n", strings.ToLower(e), e, e)
	}
	if c.GoErrorFails {
		fmt.Fprintf(&sb, "  - name: pge\n    call:\n      func: verifprobe.P(\"fail:GO_ERROR\")\n      trigger: before_GO_ERROR+1\n      timeout: 5s\n      critical: true\n")
	}
	for _, s := range []string{"STANDBY", "DEPLOYED", "CONFIGURED", "RUNNING", "ERROR"} {
		fmt.Fprintf(&sb, "  - name: pl%s\n    call:\n      func: verifprobe.P(\"leave:%s\")\n      trigger: leave_%s\n      timeout: 5s\n      critical: false\n", strings.ToLower(s), s, s)
	}
	w.WriteWorkflow(wf, sb.String())

	// ---------------- scripted world
	var mu sync.Mutex
	executed := -1  // index of the executed transition (after creation) whose outcome applies
	created := false
	failTasks := false
	var park *simworld.Gate // armed: the next before_* probe blocks here
	outcome := func(k int) string {
		if k >= 0 && k < len(c.Outcomes) {
			return c.Outcomes[k]
		}
		return "ok"
	}
	w.OnProbe = func(p simworld.ProbeRec) simworld.ProbeReply {
		if strings.HasPrefix(p.Role, wf+".") && p.Arg == "fail:GO_ERROR" {
			return simworld.ProbeReply{Fail: "simulated critical hook failure at before_GO_ERROR"}
		}
		if !strings.HasPrefix(p.Role, wf+".") || !strings.HasPrefix(p.Arg, "before:") {
			return simworld.ProbeReply{}
		}
		mu.Lock()
		g := park
		park = nil
		o := "ok"
		if created && p.Arg != "before:GO_ERROR" {
			executed++
			o = outcome(executed)
			failTasks = o == "taskfail"
		}
		mu.Unlock()
		if g != nil {
			g.Wait()
		}
		if o == "hookfail" {
			return simworld.ProbeReply{Fail: "simulated critical hook failure"}
		}
		return simworld.ProbeReply{}
	}
	w.Master.OnCommand = func(t *simworld.SimTask, cmd *simworld.Command) simworld.Reply {
		mu.Lock()
		f := failTasks
		mu.Unlock()
		if f && strings.HasSuffix(simworld.ClassOf(t), "t0") {
			return simworld.Reply{Error: "simulated task failure", State: cmd.Source}
		}
		return simworld.Reply{}
	}

	steps := []string{}
	defer func() {
		res.History = map[string]interface{}{"steps": steps, "world_log_tail": w.LogLines(200)}
	}()
	fail := func(sig, f string, a ...interface{}) vh.Result {
		res.Violation = fmt.Sprintf(f, a...)
		res.Signature = sig
		simworld.Discard()
		return res
	}

	env, err := w.NewEnv(wf, nil, 40*time.Second)
	if err != nil || env.GetState() != "CONFIGURED" {
		res.Inconclusive = fmt.Sprintf("creation failed: %v", err)
		simworld.Discard()
		return
	}
	id := env.Id
	mu.Lock()
	created = true
	mu.Unlock()

	illegal, failedT, concurrent := false, false, false
	destroyed := false
	for bi, b := range c.Batches {
		if destroyed {
			break
		}
		evMark := len(w.EnvEvents(id))
		type reply struct {
			req   Req
			state string
			err   error
		}
		replies := make(chan reply, len(b.Reqs))
		issue := func(r Req) {
			go func() {
				if r.Kind == "destroy" {
					_, err := w.Destroy(id, r.Force, r.AllowRunning, false, 60*time.Second)
					replies <- reply{r, "", err}
					return
				}
				rep, err := w.Control(id, ops[r.Op], 60*time.Second)
				replies <- reply{r, rep.GetState(), err}
			}()
		}
		if len(b.Reqs) > 1 {
			concurrent = true
			g := simworld.NewGate()
			mu.Lock()
			park = g
			mu.Unlock()
			issue(b.Reqs[0])
			parked := g.AwaitArrival(1, 1500*time.Millisecond)
			var parkedT string
			if parked {
				ge, _ := w.GetEnv(id, false)
				parkedT = ge.GetEnvironment().GetCurrentTransition()
			}
			nBefore := countStarts(w.EnvEvents(id))
			for _, r := range b.Reqs[1:] {
				issue(r)
			}
			time.Sleep(250 * time.Millisecond)
			if parked {
				// nothing of the other requests may have happened while the first one is inside its transition
				if nNow := countStarts(w.EnvEvents(id)); nNow != nBefore {
					g.Open()
					return fail("second-transition-while-parked", "batch %d: while %v was parked inside its transition, another transition started (%d -> %d 'transition starting' events)", bi, b.Reqs[0], nBefore, nNow)
				}
				ge, _ := w.GetEnv(id, false)
				if ct := ge.GetEnvironment().GetCurrentTransition(); ct != parkedT {
					g.Open()
					return fail("current-transition-changed-while-parked", "batch %d: currentTransition changed from %q to %q while the first request was parked", bi, parkedT, ct)
				}
			}
			mu.Lock()
			park = nil
			mu.Unlock()
			g.Open()
			steps = append(steps, fmt.Sprintf("batch %d: concurrent %v (first parked=%v in %q)", bi, b.Reqs, parked, parkedT))
		} else {
			issue(b.Reqs[0])
			steps = append(steps, fmt.Sprintf("batch %d: %v", bi, b.Reqs[0]))
		}
		for range b.Reqs {
			select {
			case r := <-replies:
				steps = append(steps, fmt.Sprintf("  reply %v -> state=%q err=%v", r.req, r.state, r.err))
				if r.req.Kind == "destroy" && r.err == nil {
					destroyed = true
				}
			case <-time.After(90 * time.Second):
				return fail("request-hangs", "batch %d: a request did not return within 90 s", bi)
			}
		}
		if crash := w.CoreCrash(); crash != "" {
			return fail("core-crash", "the core died: %s", crash)
		}
		_ = evMark
	}

	// ---------------- oracle over the whole history of this environment
	evs := w.EnvEvents(id)
	brackets, viol := simworld.ParseBrackets(evs)
	if len(viol) > 0 {
		return fail("bracket-structure", "transitions of one environment overlap or leak: %s", strings.Join(viol, " | "))
	}
	if v := simworld.CheckStateSequence(evs); v != "" {
		return fail("undocumented-edge", "%s", v)
	}
	// model walk: each bracket starts from the state left by the previous one
	state := "STANDBY"
	k := -1
	goErrorFailed := false
	defer func() {
		if goErrorFailed {
			res.Classes = append(res.Classes, "go-error-failed-state-forced")
		}
	}()
	probes := w.Probes()
	calls := w.Master.Calls()
	afterCreate := 0
	for i, b := range brackets {
		if b.Result == "open" {
			return fail("bracket-never-closed", "transition %s opened at #%d never finished", b.Event, b.Open)
		}
		if b.Event == "DESTROY" {
			state = "DONE"
			continue
		}
		dst, legal := simworld.LegalFrom(b.Event, state)
		inside := func(seq int64) bool { return seq > b.Open && seq < b.Close }
		nProbes, nCmds := 0, 0
		for _, p := range probes {
			if p.Env == id && p.Phase == "start" && inside(p.Seq) {
				nProbes++
			}
		}
		for _, cl := range calls {
			if cl.Type == "MESSAGE" && cl.Command != nil && cl.Command.EnvId == id && cl.Command.Name == "MesosCommand_Transition" && inside(cl.Seq) {
				nCmds++
				if te := taskEvent[cl.Command.Event]; te != b.Event && !(cl.Command.Event == "STOP" && b.Event == "GO_ERROR") {
					return fail("command-in-wrong-transition", "task command %s was sent during transition %s (#%d)", cl.Command.Event, b.Event, cl.Seq)
				}
			}
		}
		if !legal {
			illegal = true
			if b.Result == "ok" {
				return fail("illegal-executed", "transition %s executed from state %s, where it is not legal (bracket #%d..#%d)", b.Event, state, b.Open, b.Close)
			}
			if nProbes > 0 || nCmds > 0 {
				return fail("illegal-had-effects", "request %s is not legal in state %s, yet %d hooks ran and %d task commands were sent", b.Event, state, nProbes, nCmds)
			}
			continue
		}
		want := "ok"
		if b.Event == "GO_ERROR" && c.GoErrorFails {
			want = "error"
			goErrorFailed = true
		}
		if i >= 2 && b.Event != "GO_ERROR" { // brackets 0,1 are the DEPLOY and CONFIGURE of the creation
			k++
			afterCreate++
			if o := outcome(k); o != "ok" {
				want = "error"
				failedT = true
			}
			if outcome(k) == "taskfail" && c.NTasks == 0 {
				want = "ok" // nothing to command, nothing can fail
			}
		}
		if b.Result != want {
			return fail("wrong-result", "transition %s from %s: expected %s (outcome %q), the core reported %s (%s)", b.Event, state, want, outcome(k), b.Result, b.Error)
		}
		if want == "ok" {
			if b.EndState != dst {
				return fail("wrong-destination", "transition %s from %s completed in state %s, documented destination is %s", b.Event, state, b.EndState, dst)
			}
			state = dst
		} else if b.EndState != state {
			return fail("failed-transition-moved", "failed transition %s left state %s -> %s", b.Event, state, b.EndState)
		}
		if b.Event == "GO_ERROR" && want == "error" {
			state = "ERROR" // the API forces ERROR when the GO_ERROR it attempts after a failure does not complete
		}
	}
	// final state
	ge, gerr := w.GetEnv(id, false)
	if state == "DONE" {
		if gerr == nil {
			return fail("done-not-terminal", "environment still answers in state %s after teardown completed", ge.GetEnvironment().GetState())
		}
	} else {
		if gerr != nil {
			return fail("env-vanished", "environment vanished without teardown: %v", gerr)
		}
		got := ge.GetEnvironment().GetState()
		// any failed or illegal API request must have left the environment in ERROR
		if got != state {
			return fail("final-state", "environment reports %s, the serial execution of the observed transitions gives %s", got, state)
		}
		if (illegal || failedT) && !hasDestroy(c) && got != "ERROR" {
			return fail("not-error-after-failure", "a request failed or was illegal but the environment ends in %s", got)
		}
	}
	// every control request produced exactly one transition of its own event
	wantN := map[string]int{}
	for _, b := range c.Batches {
		for _, r := range b.Reqs {
			if r.Kind == "control" {
				wantN[r.Op]++
			}
		}
	}
	if !hasDestroy(c) {
		gotN := map[string]int{}
		for _, b := range brackets[2:] {
			gotN[b.Event]++
		}
		for op, n := range wantN {
			if op != "GO_ERROR" && gotN[op] != n {
				return fail("request-count", "%d %s requests were made, %d %s transitions were attempted", n, op, gotN[op], op)
			}
		}
	}
	res.NonTrivial = illegal || failedT || concurrent
	if illegal {
		res.Classes = append(res.Classes, "illegal-request")
	}
	if failedT {
		res.Classes = append(res.Classes, "failed-transition")
	}
	if concurrent {
		res.Classes = append(res.Classes, "concurrent-batch")
	}
	if hasDestroy(c) {
		res.Classes = append(res.Classes, "destroy")
	}
	return
}

func hasDestroy(c Case) bool {
	for _, b := range c.Batches {
		for _, r := range b.Reqs {
			if r.Kind == "destroy" {
				return true
			}
		}
	}
	return false
}

func countStarts(evs []simworld.EnvEvent) int {
	n := 0
	for _, e := range evs {
		if e.Message == "transition starting" || (e.Transition == "DESTROY" && e.Message == "workflow teardown started") {
			n++
		}
	}
	return n
}

func genReq(t *rapid.T) Req {
	if rapid.IntRange(0, 9).Draw(t, "isDestroy") == 0 {
		return Req{Kind: "destroy", Force: rapid.Bool().Draw(t, "force"), AllowRunning: rapid.Bool().Draw(t, "allowRunning")}
	}
	return Req{Kind: "control", Op: rapid.SampledFrom([]string{"START_ACTIVITY", "STOP_ACTIVITY", "RESET", "CONFIGURE", "START_ACTIVITY", "STOP_ACTIVITY", "GO_ERROR", "DEPLOY"}).Draw(t, "op")}
}

func gen(t *rapid.T) Case {
	c := Case{NTasks: rapid.IntRange(1, 3).Draw(t, "ntasks")}
	nb := rapid.IntRange(1, 7).Draw(t, "batches")
	for i := 0; i < nb; i++ {
		b := Batch{}
		k := 1
		if rapid.IntRange(0, 2).Draw(t, "concurrent") == 0 {
			k = rapid.IntRange(2, 3).Draw(t, "callers")
		}
		for j := 0; j < k; j++ {
			b.Reqs = append(b.Reqs, genReq(t))
		}
		c.Batches = append(c.Batches, b)
	}
	c.Outcomes = rapid.SliceOfN(rapid.SampledFrom([]string{"ok", "ok", "ok", "ok", "taskfail", "hookfail"}), 0, 8).Draw(t, "outcomes")
	serial := true
	for _, b := range c.Batches {
		if len(b.Reqs) > 1 {
			serial = false
		}
	}
	if serial && rapid.IntRange(0, 2).Draw(t, "goErrorFails") == 0 {
		c.GoErrorFails = true
	}
	return c
}

func TestHistories(t *testing.T) {
	defer simworld.Discard()
	vh.Check(t, prop, gen, vh.Confirmed(run))
}

func ctl(op string) Req { return Req{Kind: "control", Op: op} }

func TestFixed(t *testing.T) {
	defer simworld.Discard()
	vh.Fixed(t, prop, "legal-walk", Case{NTasks: 2, Batches: []Batch{{[]Req{ctl("START_ACTIVITY")}}, {[]Req{ctl("STOP_ACTIVITY")}}, {[]Req{ctl("RESET")}}, {[]Req{ctl("CONFIGURE")}}}}, vh.Confirmed(run))
	vh.Fixed(t, prop, "illegal-reset-while-running", Case{NTasks: 1, Batches: []Batch{{[]Req{ctl("START_ACTIVITY")}}, {[]Req{ctl("RESET")}}}}, vh.Confirmed(run))
	vh.Fixed(t, prop, "two-starts-race", Case{NTasks: 1, Batches: []Batch{{[]Req{ctl("START_ACTIVITY"), ctl("START_ACTIVITY")}}}}, vh.Confirmed(run))
	vh.Fixed(t, prop, "start-then-stop-race", Case{NTasks: 2, Batches: []Batch{{[]Req{ctl("START_ACTIVITY"), ctl("STOP_ACTIVITY"), ctl("RESET")}}}}, vh.Confirmed(run))
	vh.Fixed(t, prop, "two-destroys-race", Case{NTasks: 1, Batches: []Batch{{[]Req{ctl("RESET")}}, {[]Req{ctl("CONFIGURE"), {Kind: "destroy"}, {Kind: "destroy"}}}}}, vh.Confirmed(run))
	// found at VERIF_SEED=2: two control requests wait behind a destroy; once it is DONE their failure path forced DONE -> ERROR
	vh.Fixed(t, prop, "controls-queued-behind-destroy", Case{NTasks: 3, Batches: []Batch{{[]Req{{Kind: "destroy"}, ctl("STOP_ACTIVITY"), ctl("CONFIGURE")}}, {[]Req{ctl("START_ACTIVITY"), ctl("GO_ERROR")}}}}, vh.Confirmed(run))
	vh.Fixed(t, prop, "failed-start-and-failed-go-error", Case{NTasks: 2, GoErrorFails: true, Batches: []Batch{{[]Req{ctl("START_ACTIVITY")}}, {[]Req{ctl("STOP_ACTIVITY")}}}, Outcomes: []string{"taskfail"}}, vh.Confirmed(run))
	vh.Fixed(t, prop, "illegal-request-and-failed-go-error", Case{NTasks: 1, GoErrorFails: true, Batches: []Batch{{[]Req{ctl("STOP_ACTIVITY")}}, {[]Req{ctl("START_ACTIVITY")}}}}, vh.Confirmed(run))
	vh.Fixed(t, prop, "requested-go-error-fails", Case{NTasks: 1, GoErrorFails: true, Batches: []Batch{{[]Req{ctl("START_ACTIVITY")}}, {[]Req{ctl("GO_ERROR")}}, {[]Req{ctl("RESET")}}}}, vh.Confirmed(run))
	vh.Fixed(t, prop, "failed-start", Case{NTasks: 2, Batches: []Batch{{[]Req{ctl("START_ACTIVITY")}}, {[]Req{ctl("STOP_ACTIVITY")}}}, Outcomes: []string{"taskfail"}}, vh.Confirmed(run))
	vh.Fixed(t, prop, "hook-fails-then-requests", Case{NTasks: 1, Batches: []Batch{{[]Req{ctl("START_ACTIVITY")}}, {[]Req{ctl("START_ACTIVITY")}}, {[]Req{ctl("GO_ERROR")}}}, Outcomes: []string{"hookfail"}}, vh.Confirmed(run))
}

// TestSavedDoneToError repeats a saved case (found by the thorough tier): a destroy that first stops the run, and a RESET
// and a STOP_ACTIVITY queued behind it. The two control requests fail; one of them attempted its GO_ERROR just after the
// teardown had completed and then forced the destroyed environment from DONE to ERROR (about 1 history in 3500).
func TestSavedDoneToError(t *testing.T) {
	defer simworld.Discard()
	dir := os.Getenv("VERIF_HARNESS_DIR")
	if dir == "" {
		dir = "/verif/harness"
	}
	b, err := os.ReadFile(filepath.Join(dir, "props/c01/testdata/done_to_error_case.json"))
	if err != nil {
		t.Fatal(err)
	}
	var c Case
	if err := json.Unmarshal(b, &c); err != nil {
		t.Fatal(err)
	}
	for i := 0; i < vh.Scale(25, 400); i++ {
		vh.Fixed(t, prop, fmt.Sprintf("saved-done-to-error-%d", i), c, run) // the verdict (DONE -> ERROR observed) does not depend on timing: no confirmation run
	}
}

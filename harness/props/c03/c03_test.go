package c03

import (
	"fmt"
	"os"
	"strings"
	"sync"
	"sync/atomic"
	"testing"
	"time"

	pb "github.com/AliceO2Group/Control/core/protos"
	occpb "github.com/AliceO2Group/Control/executor/protos"
	mesos "github.com/mesos/mesos-go/api/v1/lib"
	"pgregory.net/rapid"

	"verifharness/simworld"
	"verifharness/vh"
)

const prop = "C03"

type TaskSpec struct {
	Host     int
	Critical bool
	Group    int // 0 = directly under the root, 1..2 = inside aggregator g<Group> (nested tree)
}

type Case struct {
	Tasks   []TaskSpec
	State   string // CONFIGURED | RUNNING
	Victim  int
	Kind    string // TASK_FAILED TASK_LOST TASK_KILLED TASK_FINISHED EXECUTOR_FAILURE AGENT_FAILURE INTERNAL_ERROR
	Instant string // idle | parked (a transition is parked on a gated reply) | after (right after a transition returned) |
	//                burst (the fault arrives together with the replies of all other tasks to an in-flight transition)
	ParkMs    int // parked: how long the transition stays parked after the fault (default 100 ms; beyond 500 ms the environment's own
	//               reaction to the fault has to wait for the transition)
	GoErrorHook bool // the GO_ERROR by which the environment reacts is itself cancelled by a failing critical hook: the state is then forced
	Reconnect int // 0: no; 1: the master connection is dropped once after the creation and the reconciliation answers are as the master
	//               generates them (no executor id, labels, uuid); 2: same with fully filled answers
}

var hosts = []string{"hosta", "hostb", "hostc"}
var caseSeq int64

func world() (*simworld.World, error) {
	return simworld.Shared("default", 12, func() simworld.Options {
		ag, det := simworld.DefaultAgents()
		return simworld.Options{Agents: ag, Detectors: det}
	})
}

// replyRace: inject an internal error immediately after the victim's reply (the open finding's shape); set by the canary only
var replyRace bool

func run(c Case) (res vh.Result) {
	raceAvoided := false
	w, err := world()
	if err != nil {
		res.Inconclusive = "world: " + err.Error()
		return
	}
	// an agent failure is permanent for a world: use a fresh one afterwards
	if c.Kind == "AGENT_FAILURE" {
		defer simworld.Discard()
	}
	n := atomic.AddInt64(&caseSeq, 1)
	wf := fmt.Sprintf("wf%dx%d", os.Getpid(), n)
	var sb strings.Builder
	fmt.Fprintf(&sb, "name: %s\ndefaults:\n  deploy_timeout: 6s\nroles:\n", wf)
	cls := make([]string, len(c.Tasks))
	idx := map[string]int{}
	role := func(i int, indent string) {
		t := c.Tasks[i]
		cls[i] = fmt.Sprintf("v%dx%dt%d", os.Getpid(), n, i)
		idx[cls[i]] = i
		fmt.Fprintf(&sb, "%s- name: t%d\n%s  constraints:\n%s    - attribute: machine_id\n%s      value: %s\n%s  task:\n%s    load: %s\n%s    critical: %v\n",
			indent, i, indent, indent, indent, hosts[t.Host%3], indent, indent, cls[i], indent, t.Critical)
		w.WriteTask(cls[i], simworld.TaskClassYAML(cls[i], "direct", ""))
	}
	for i, t := range c.Tasks {
		if t.Group == 0 {
			role(i, "  ")
		}
	}
	for g := 1; g <= 2; g++ {
		any := false
		for _, t := range c.Tasks {
			if t.Group == g {
				any = true
			}
		}
		if !any {
			continue
		}
		fmt.Fprintf(&sb, "  - name: g%d\n    roles:\n", g)
		for i, t := range c.Tasks {
			if t.Group == g {
				role(i, "      ")
			}
		}
	}
	if c.GoErrorHook {
		fmt.Fprintf(&sb, "  - name: gehook\n    call:\n      func: verifprobe.P(\"fail-go-error\")\n      trigger: before_GO_ERROR\n      timeout: 5s\n      critical: true\n")
		w.OnProbe = func(p simworld.ProbeRec) simworld.ProbeReply {
			if strings.HasPrefix(p.Role, wf+".") && p.Arg == "fail-go-error" {
				return simworld.ProbeReply{Fail: "simulated critical hook failure at before_GO_ERROR"}
			}
			return simworld.ProbeReply{}
		}
		defer func() { w.OnProbe = nil }()
	}
	w.WriteWorkflow(wf, sb.String())

	steps := []string{}
	defer func() { res.History = map[string]interface{}{"workflow": sb.String(), "steps": steps, "world_log_tail": w.LogLines(150)} }()
	fail := func(sig, f string, a ...interface{}) vh.Result {
		res.Violation = fmt.Sprintf(f, a...)
		res.Signature = sig
		simworld.Discard()
		return res
	}
	inconclusive := func(f string, a ...interface{}) vh.Result {
		res.Inconclusive = fmt.Sprintf(f, a...)
		simworld.Discard()
		return res
	}

	var mu sync.Mutex
	var gate *simworld.Gate
	gateTask := -1
	gateSet := map[int]bool{} // burst: every task in this set is held
	w.Master.OnCommand = func(t *simworld.SimTask, cmd *simworld.Command) simworld.Reply {
		mu.Lock()
		defer mu.Unlock()
		if i, ok := idx[simworld.ClassOf(t)]; ok && gate != nil && (i == gateTask || gateSet[i]) {
			g := gate
			return simworld.Reply{Hold: g}
		}
		return simworld.Reply{}
	}

	env, err := w.NewEnv(wf, nil, 40*time.Second)
	if err != nil || env.GetState() != "CONFIGURED" {
		return inconclusive("creation failed: %v", err)
	}
	id := env.Id
	taskOf := map[int]*simworld.SimTask{}
	for _, t := range w.Master.Tasks() {
		if i, ok := idx[simworld.ClassOf(t)]; ok && t.EnvID == id {
			taskOf[i] = t
		}
	}
	if len(taskOf) != len(c.Tasks) {
		return inconclusive("could not map tasks")
	}
	victim := c.Victim % len(c.Tasks)
	vt := taskOf[victim]
	if c.Reconnect > 0 {
		w.Master.ReconcileBare = c.Reconnect == 1
		defer func() { w.Master.ReconcileBare = false }()
		for len(w.Master.Subscribed) > 0 {
			<-w.Master.Subscribed
		}
		w.Master.DropStream()
		select {
		case <-w.Master.Subscribed:
		case <-time.After(30 * time.Second):
			return inconclusive("the core did not resubscribe")
		}
		time.Sleep(800 * time.Millisecond) // reconciliation answers processed
		if ge, err := w.GetEnv(id, false); err != nil || ge.GetEnvironment().GetState() != "CONFIGURED" {
			return inconclusive("environment not CONFIGURED after the reconnection")
		}
		steps = append(steps, fmt.Sprintf("master connection dropped and re-established (bare answers: %v)", c.Reconnect == 1))
	}

	// who is affected, and is any affected task critical?
	affected := []int{}
	for i := range c.Tasks {
		switch c.Kind {
		case "EXECUTOR_FAILURE":
			if taskOf[i].AgentID == vt.AgentID && taskOf[i].ExecID == vt.ExecID {
				affected = append(affected, i)
			}
		case "AGENT_FAILURE":
			if taskOf[i].AgentID == vt.AgentID {
				affected = append(affected, i)
			}
		default:
			if i == victim {
				affected = append(affected, i)
			}
		}
	}
	critical := false
	for _, i := range affected {
		if c.Tasks[i].Critical {
			critical = true
		}
	}

	inject := func() {
		steps = append(steps, fmt.Sprintf("inject %s on t%d (%s); affected tasks %v; any critical: %v", c.Kind, victim, vt.ID, affected, critical))
		w.Note("INJECT %s on task t%d %s", c.Kind, victim, vt.ID)
		switch c.Kind {
		case "TASK_FAILED":
			r := mesos.REASON_EXECUTOR_TERMINATED
			w.Master.SendUpdate(vt.ID, mesos.TASK_FAILED, &r, mesos.SOURCE_EXECUTOR)
		case "TASK_LOST":
			r := mesos.REASON_AGENT_REMOVED
			w.Master.SendUpdate(vt.ID, mesos.TASK_LOST, &r, mesos.SOURCE_MASTER)
		case "TASK_KILLED":
			w.Master.SendUpdate(vt.ID, mesos.TASK_KILLED, nil, mesos.SOURCE_EXECUTOR)
		case "TASK_FINISHED":
			w.Master.SendUpdate(vt.ID, mesos.TASK_FINISHED, nil, mesos.SOURCE_EXECUTOR)
		case "EXECUTOR_FAILURE":
			w.Master.FailExecutor(vt.AgentID, vt.ExecID)
		case "AGENT_FAILURE":
			w.Master.FailAgent(vt.AgentID)
		case "INTERNAL_ERROR":
			w.Master.SendDeviceEvent(vt.ID, occpb.DeviceEventType_TASK_INTERNAL_ERROR, nil)
		}
	}

	runNumber := uint32(0)
	start := func() error {
		rep, err := w.Control(id, pb.ControlEnvironmentRequest_START_ACTIVITY, 30*time.Second)
		if err != nil || rep.GetState() != "RUNNING" {
			return fmt.Errorf("START failed: %v state=%s", err, rep.GetState())
		}
		runNumber = rep.GetCurrentRunNumber()
		return nil
	}

	healthy := c.State // the healthy state the environment should keep if the victim is non-critical
	switch c.Instant {
	case "idle", "after":
		if c.State == "RUNNING" {
			if err := start(); err != nil {
				return inconclusive("%v", err)
			}
		} else if c.Instant == "after" {
			// a STOP just returned: go RUNNING and back
			if err := start(); err != nil {
				return inconclusive("%v", err)
			}
			if rep, err := w.Control(id, pb.ControlEnvironmentRequest_STOP_ACTIVITY, 30*time.Second); err != nil || rep.GetState() != "CONFIGURED" {
				return inconclusive("STOP failed: %v", err)
			}
			runNumber = 0
		}
		if c.Instant == "idle" {
			time.Sleep(30 * time.Millisecond)
		}
		inject()
	case "burst":
		// START (from CONFIGURED) resp. STOP (from RUNNING) is in flight: the affected tasks have answered, the replies of all
		// the others are held; then the fault and all those replies reach the core together
		others := []int{}
		for i := range c.Tasks {
			hit := false
			for _, a := range affected {
				if a == i {
					hit = true
				}
			}
			if !hit {
				others = append(others, i)
			}
		}
		op := pb.ControlEnvironmentRequest_START_ACTIVITY
		if c.State == "RUNNING" {
			if err := start(); err != nil {
				return inconclusive("%v", err)
			}
			op = pb.ControlEnvironmentRequest_STOP_ACTIVITY
		}
		if len(others) == 0 {
			inject()
			break
		}
		healthy = map[string]string{"RUNNING": "CONFIGURED", "CONFIGURED": "RUNNING"}[c.State]
		g := simworld.NewGate()
		mu.Lock()
		gate = g
		for _, o := range others {
			gateSet[o] = true
		}
		mu.Unlock()
		logMark := w.Note("holding the replies of %v to %s", others, op)
		done := make(chan struct{})
		go func() {
			rep, err := w.Control(id, op, 60*time.Second)
			steps = append(steps, fmt.Sprintf("%s returned state=%s run=%d err=%v", op, rep.GetState(), rep.GetCurrentRunNumber(), err))
			if rep.GetCurrentRunNumber() != 0 {
				runNumber = rep.GetCurrentRunNumber()
			}
			close(done)
		}()
		if !g.AwaitArrival(len(others), 10*time.Second) {
			g.Open()
			return inconclusive("transition did not reach the gated tasks")
		}
		deadline := time.Now().Add(5 * time.Second)
		for {
			answered := 0
			for _, r := range w.Log() {
				if r.Seq <= logMark || r.Kind != "reply" {
					continue
				}
				if m, ok := r.Data.(map[string]interface{}); ok {
					for _, a := range affected {
						if m["taskId"] == taskOf[a].ID {
							answered++
						}
					}
				}
			}
			if answered >= len(affected) {
				break
			}
			if time.Now().After(deadline) {
				g.Open()
				return inconclusive("affected tasks did not answer the command")
			}
			time.Sleep(5 * time.Millisecond)
		}
		time.Sleep(60 * time.Millisecond) // the affected tasks' replies are processed
		if c.Kind == "INTERNAL_ERROR" && vh.Open("KF-C03-internal-error-after-reply") {
			time.Sleep(250 * time.Millisecond)
			raceAvoided = true
		}
		mu.Lock()
		gate = nil
		mu.Unlock()
		opened := make(chan struct{})
		go func() { g.Open(); close(opened) }()
		inject()
		<-opened
		select {
		case <-done:
		case <-time.After(150 * time.Second):
			return fail("request-hangs", "the transition in flight during the fault did not return")
		}
	case "parked":
		// park START (from CONFIGURED) resp. STOP (from RUNNING) on the gated reply of a non-victim task
		other := -1
		for i := range c.Tasks {
			hit := false
			for _, a := range affected {
				if a == i {
					hit = true
				}
			}
			if !hit {
				other = i
			}
		}
		op := pb.ControlEnvironmentRequest_START_ACTIVITY
		if c.State == "RUNNING" {
			if err := start(); err != nil {
				return inconclusive("%v", err)
			}
			op = pb.ControlEnvironmentRequest_STOP_ACTIVITY
		}
		if other < 0 {
			inject() // every task is affected: nothing to park on
			break
		}
		healthy = map[string]string{"RUNNING": "CONFIGURED", "CONFIGURED": "RUNNING"}[c.State]
		g := simworld.NewGate()
		mu.Lock()
		gate, gateTask = g, other
		mu.Unlock()
		logMark := w.Note("parking %s on the reply of t%d", op, other)
		done := make(chan struct{})
		go func() {
			rep, err := w.Control(id, op, 60*time.Second)
			steps = append(steps, fmt.Sprintf("parked %s returned state=%s run=%d err=%v", op, rep.GetState(), rep.GetCurrentRunNumber(), err))
			if rep.GetCurrentRunNumber() != 0 {
				runNumber = rep.GetCurrentRunNumber()
			}
			close(done)
		}()
		if !g.AwaitArrival(1, 10*time.Second) {
			g.Open()
			return inconclusive("transition did not reach the gated task")
		}
		// the affected tasks have answered this command before they die (a task that dies before answering costs the
		// compiled-in 90 s response timeout; that variant is left to the slow shard of C02)
		deadline := time.Now().Add(5 * time.Second)
		for {
			answered := 0
			for _, r := range w.Log() {
				if r.Seq <= logMark || r.Kind != "reply" {
					continue
				}
				if m, ok := r.Data.(map[string]interface{}); ok {
					for _, a := range affected {
						if m["taskId"] == taskOf[a].ID {
							answered++
						}
					}
				}
			}
			if answered >= len(affected) {
				break
			}
			if time.Now().After(deadline) {
				g.Open()
				return inconclusive("affected tasks did not answer the parked command")
			}
			time.Sleep(5 * time.Millisecond)
		}
		if c.Kind == "INTERNAL_ERROR" && !replyRace && vh.Open("KF-C03-internal-error-after-reply") {
			// open finding: an internal error announced within milliseconds of the task's reply to the in-flight command is
			// overwritten by that reply (processed in another goroutine). Excluded by construction: the error comes 250 ms later.
			time.Sleep(250 * time.Millisecond)
			raceAvoided = true
		}
		inject()
		park := 100
		if c.ParkMs > 0 {
			park = c.ParkMs
		}
		time.Sleep(time.Duration(park) * time.Millisecond)
		mu.Lock()
		gate = nil
		mu.Unlock()
		g.Open()
		select {
		case <-done:
		case <-time.After(150 * time.Second):
			return fail("request-hangs", "the transition parked during the fault did not return")
		}
	}
	if crash := w.CoreCrash(); crash != "" {
		return fail("core-crash", "the core died: %s", crash)
	}
	wasRunning := runNumber != 0

	res.NonTrivial = true
	res.Classes = []string{"kind:" + c.Kind, "instant:" + c.Instant, "state:" + c.State, fmt.Sprintf("critical:%v", critical)}
	if c.Reconnect > 0 {
		res.Classes = append(res.Classes, fmt.Sprintf("after-reconnection:%d", c.Reconnect))
	}
	if c.ParkMs > 500 {
		res.Classes = append(res.Classes, "reaction-waits-for-transition")
	}
	if c.GoErrorHook {
		res.Classes = append(res.Classes, "go-error-cancelled-state-forced")
	}
	if raceAvoided {
		res.Classes = append(res.Classes, "reply-race-avoided")
	}
	sigBase := fmt.Sprintf("%s/%s", c.Kind, map[bool]string{true: "critical", false: "noncritical"}[critical])
	sigTail := ""
	if c.Kind == "INTERNAL_ERROR" && c.Instant == "parked" && !raceAvoided {
		sigTail = "/right-after-reply"
	}

	if critical {
		st, ok := w.WaitState(id, 15*time.Second, "ERROR")
		steps = append(steps, fmt.Sprintf("waited for ERROR: state=%s ok=%v", st, ok))
		if !ok {
			return fail("stays-healthy:"+sigBase+"/"+c.State+sigTail, "critical task t%d suffered %s while the environment was %s (%s); 15 s later the environment reports %s instead of ERROR", victim, c.Kind, c.State, c.Instant, st)
		}
		// stays in ERROR and never reports RUNNING again
		deadline := time.Now().Add(1200 * time.Millisecond)
		for time.Now().Before(deadline) {
			ge, err := w.GetEnv(id, false)
			if err == nil && ge.GetEnvironment().GetState() != "ERROR" {
				return fail("left-error:"+sigBase, "after the failure of a critical task the environment went from ERROR to %s", ge.GetEnvironment().GetState())
			}
			time.Sleep(50 * time.Millisecond)
		}
		if wasRunning {
			ge, _ := w.GetEnv(id, false)
			uv := ge.GetEnvironment().GetUserVars()
			if uv["run_end_time_ms"] == "" {
				return fail("run-end-not-recorded:"+sigBase, "run %d ended by the failure of a critical task but run_end_time_ms is not set (user vars: start=%q end=%q)", runNumber, uv["run_start_time_ms"], uv["run_end_time_ms"])
			}
			// a run event past the start record
			n := 0
			for _, e := range w.Events() {
				if e.Topic == "aliecs.run" && e.Ev["environmentId"] == id {
					if rn, _ := e.Ev["runNumber"].(float64); uint32(rn) == runNumber {
						if tr, _ := e.Ev["transition"].(string); tr != "START_ACTIVITY" {
							n++
						}
					}
				}
			}
			if n == 0 {
				return fail("run-end-not-recorded:"+sigBase, "run %d ended by the failure of a critical task but no end-of-run record was published", runNumber)
			}
		}
	} else {
		time.Sleep(1500 * time.Millisecond)
		ge, err := w.GetEnv(id, false)
		if err != nil {
			return fail("env-vanished", "environment vanished after a non-critical failure: %v", err)
		}
		if got := ge.GetEnvironment().GetState(); got != healthy {
			return fail("noncritical-changed-state:"+sigBase, "non-critical task t%d suffered %s; the environment went from %s to %s", victim, c.Kind, healthy, got)
		}
	}
	return
}

var kinds = []string{"TASK_FAILED", "TASK_LOST", "TASK_KILLED", "TASK_FINISHED", "EXECUTOR_FAILURE", "AGENT_FAILURE", "INTERNAL_ERROR"}

func gen(t *rapid.T) Case {
	c := Case{}
	n := rapid.IntRange(1, 5).Draw(t, "ntasks")
	for i := 0; i < n; i++ {
		c.Tasks = append(c.Tasks, TaskSpec{Host: rapid.IntRange(0, 2).Draw(t, "host"), Critical: rapid.IntRange(0, 2).Draw(t, "critical") > 0, Group: rapid.IntRange(0, 2).Draw(t, "group")})
	}
	c.State = rapid.SampledFrom([]string{"CONFIGURED", "RUNNING", "RUNNING"}).Draw(t, "state")
	c.Victim = rapid.IntRange(0, n-1).Draw(t, "victim")
	c.Kind = rapid.SampledFrom(kinds).Draw(t, "kind")
	c.Instant = rapid.SampledFrom([]string{"idle", "idle", "parked", "after", "burst"}).Draw(t, "instant")
	if c.Instant == "burst" { // a burst needs tasks: 2-4 more
		for k := rapid.IntRange(2, 4).Draw(t, "more"); k > 0; k-- {
			c.Tasks = append(c.Tasks, TaskSpec{Host: rapid.IntRange(0, 2).Draw(t, "host"), Critical: rapid.IntRange(0, 3).Draw(t, "critical") > 0, Group: rapid.IntRange(0, 2).Draw(t, "group")})
		}
	}
	c.GoErrorHook = rapid.IntRange(0, 4).Draw(t, "goErrorHook") == 0
	if c.Instant == "parked" {
		c.ParkMs = rapid.SampledFrom([]int{100, 100, 900}).Draw(t, "parkMs")
	}
	c.Reconnect = rapid.SampledFrom([]int{0, 0, 0, 1, 1, 2}).Draw(t, "reconnect")
	// exclusions while findings are open
	if (vh.Open("KF-C03-task-finished") || vh.Open("KF-C03-task-finished-configured")) && c.Kind == "TASK_FINISHED" && c.Tasks[c.Victim].Critical {
		c.Kind = "TASK_FAILED"
	}
	return c
}

func TestFaults(t *testing.T) {
	defer simworld.Discard()
	vh.Check(t, prop, gen, vh.Confirmed(run))
}

func two(crit0, crit1 bool) []TaskSpec {
	return []TaskSpec{{Host: 0, Critical: crit0}, {Host: 1, Critical: crit1}}
}

// every failure kind x live state, critical victim, idle
func TestFixedMatrix(t *testing.T) {
	defer simworld.Discard()
	for _, k := range kinds {
		for _, st := range []string{"CONFIGURED", "RUNNING"} {
			for _, crit := range []bool{true, false} {
				if crit && k == "TASK_FINISHED" && (vh.Open("KF-C03-task-finished") || vh.Open("KF-C03-task-finished-configured")) {
					continue
				}
				vh.Fixed(t, prop, fmt.Sprintf("%s-%s-critical=%v", k, st, crit), Case{Tasks: two(crit, true), State: st, Victim: 0, Kind: k, Instant: "idle"}, vh.Confirmed(run))
			}
		}
	}
}

func TestCanaryTaskFinished(t *testing.T) {
	defer simworld.Discard()
	vh.Canary(t, prop, "KF-C03-task-finished", Case{Tasks: two(true, true), State: "RUNNING", Victim: 0, Kind: "TASK_FINISHED", Instant: "idle"}, vh.Confirmed(run))
}


// Open finding: TASK_INTERNAL_ERROR of a critical task that arrives right after the task's reply to an in-flight
// transition command is lost: the reply is handled in its own goroutine and overwrites the ERROR state afterwards.
// Schedule-dependent (seen under load); the canary tries the immediate injection a few times.
func TestCanaryInternalErrorAfterReply(t *testing.T) {
	defer simworld.Discard()
	if !vh.Open("KF-C03-internal-error-after-reply") {
		return
	}
	replyRace = true
	defer func() { replyRace = false }()
	c := Case{Tasks: []TaskSpec{{Host: 2, Critical: true, Group: 2}, {Host: 1, Critical: false, Group: 0}}, State: "RUNNING", Victim: 0, Kind: "INTERNAL_ERROR", Instant: "parked"}
	for i := 0; i < vh.Scale(3, 25); i++ {
		if r := run(c); r.Violation != "" {
			vh.Canary(t, prop, "KF-C03-internal-error-after-reply", c, func(Case) vh.Result { return r })
			return
		}
	}
	vh.Canary(t, prop, "KF-C03-internal-error-after-reply", c, func(Case) vh.Result { return vh.Result{} })
}

func TestCanaryTaskFinishedConfigured(t *testing.T) {
	defer simworld.Discard()
	vh.Canary(t, prop, "KF-C03-task-finished-configured", Case{Tasks: two(true, true), State: "CONFIGURED", Victim: 0, Kind: "TASK_FINISHED", Instant: "idle"}, vh.Confirmed(run))
}

// A critical task fails after the master connection was dropped and re-established (reconciliation answers as the master
// generates them), and a fault that reaches the core together with a burst of replies from the other tasks: repeated,
// because which notification of the workflow state is dropped by the (non-blocking) subscription depends on scheduling.
func TestFixedReconnectAndBurst(t *testing.T) {
	defer simworld.Discard()
	for _, k := range []string{"TASK_FAILED", "EXECUTOR_FAILURE", "TASK_LOST"} {
		for _, st := range []string{"CONFIGURED", "RUNNING"} {
			vh.Fixed(t, prop, fmt.Sprintf("after-reconnection-%s-%s", k, st), Case{Tasks: two(true, true), State: st, Victim: 0, Kind: k, Instant: "idle", Reconnect: 1}, vh.Confirmed(run))
		}
	}
	// the transition in flight outlasts the half second after which the environment reacts to the fault
	for _, st := range []string{"CONFIGURED", "RUNNING"} {
		vh.Fixed(t, prop, "fault-during-long-transition-"+st, Case{Tasks: []TaskSpec{{Host: 0, Critical: true}, {Host: 1, Critical: true}, {Host: 2, Critical: false}}, State: st, Victim: 0, Kind: "TASK_FAILED", Instant: "parked", ParkMs: 900}, vh.Confirmed(run))
	}
	vh.Fixed(t, prop, "go-error-cancelled-by-a-hook-RUNNING", Case{Tasks: two(true, true), State: "RUNNING", Victim: 1, Kind: "TASK_FAILED", Instant: "idle", GoErrorHook: true}, vh.Confirmed(run))
	vh.Fixed(t, prop, "go-error-cancelled-by-a-hook-CONFIGURED", Case{Tasks: two(true, false), State: "CONFIGURED", Victim: 0, Kind: "EXECUTOR_FAILURE", Instant: "idle", GoErrorHook: true}, vh.Confirmed(run))
	six := []TaskSpec{{Host: 0, Critical: true}, {Host: 1, Critical: true, Group: 1}, {Host: 2, Critical: true, Group: 1}, {Host: 0, Critical: true, Group: 2}, {Host: 1, Critical: true}, {Host: 2, Critical: true, Group: 2}}
	for i := 0; i < vh.Scale(12, 150); i++ {
		st := []string{"CONFIGURED", "RUNNING"}[i%2]
		vh.Fixed(t, prop, fmt.Sprintf("burst-%d", i), Case{Tasks: six, State: st, Victim: i % 6, Kind: "TASK_FAILED", Instant: "burst"}, vh.Confirmed(run))
	}
}

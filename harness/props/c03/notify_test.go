package c03

// In-process part of C03: the path by which the environment learns that its workflow went to ERROR.
// The environment watches the workflow through a subscription that is served with a non-blocking send: a notification
// that arrives while the watcher is busy with the previous one is dropped. The whole-core check reaches that window only
// by luck (microseconds); here the harness owns it: the subscriber's one-slot mailbox is either emptied before an update
// (watcher ready) or left full (watcher busy). The failure of a critical task must still reach a watcher that was busy at
// that instant as soon as it is ready again and the tasks keep reporting - otherwise the environment would go on
// reporting its healthy state with a dead critical task.

import (
	"fmt"
	"strings"
	"testing"

	"github.com/AliceO2Group/Control/common/event"
	"github.com/AliceO2Group/Control/common/gera"
	"github.com/AliceO2Group/Control/common/utils/uid"
	"github.com/AliceO2Group/Control/core/task/sm"
	"github.com/AliceO2Group/Control/core/workflow"
	"pgregory.net/rapid"

	"verifharness/vh"
)

type NLeaf struct {
	Group    int // 0: child of the root; 1..3: inside aggregator g<Group>; 4..5: inside g1.h<Group> (two levels)
	Critical bool
}

type NUpdate struct {
	Leaf  int
	State string // STANDBY CONFIGURED RUNNING ERROR
	Busy  bool   // the watcher has not taken the previous notification yet when this update arrives
}

type NCase struct {
	Leaves  []NLeaf
	Updates []NUpdate
}

func (c NCase) yaml() (string, []string) {
	var sb strings.Builder
	paths := make([]string, len(c.Leaves))
	sb.WriteString("name: root\nroles:\n")
	leaf := func(i int, indent, prefix string) {
		fmt.Fprintf(&sb, "%s- name: t%d\n%s  task:\n%s    load: dummy\n%s    critical: %v\n", indent, i, indent, indent, indent, c.Leaves[i].Critical)
		paths[i] = prefix + fmt.Sprintf("t%d", i)
	}
	for i, l := range c.Leaves {
		if l.Group == 0 {
			leaf(i, "  ", "root.")
		}
	}
	for g := 1; g <= 3; g++ {
		members, sub := []int{}, map[int][]int{}
		for i, l := range c.Leaves {
			if l.Group == g {
				members = append(members, i)
			}
			if g == 1 && l.Group >= 4 {
				sub[l.Group] = append(sub[l.Group], i)
			}
		}
		if len(members) == 0 && len(sub) == 0 {
			continue
		}
		fmt.Fprintf(&sb, "  - name: g%d\n    roles:\n", g)
		for _, i := range members {
			leaf(i, "      ", fmt.Sprintf("root.g%d.", g))
		}
		for _, h := range []int{4, 5} {
			if len(sub[h]) == 0 {
				continue
			}
			fmt.Fprintf(&sb, "      - name: h%d\n        roles:\n", h)
			for _, i := range sub[h] {
				leaf(i, "          ", fmt.Sprintf("root.g1.h%d.", h))
			}
		}
	}
	return sb.String(), paths
}

func runNotify(c NCase) (res vh.Result) {
	doc, paths := c.yaml()
	envId := uid.New()
	empty := func() gera.Map[string, string] { return gera.MakeMap[string, string]() }
	pa := workflow.NewParentAdapter(func() uid.ID { return envId }, func() uint32 { return 0 }, empty, empty, empty, func(event.Event) {})
	mailbox := make(chan sm.State, 1) // the watcher's mailbox: what it has been handed and not looked at yet
	pa.SubscribeToStateChange("verif-watcher", mailbox)
	root, err := workflow.VerifUnmarshalWorkflow([]byte(doc), pa)
	if err != nil {
		res.Inconclusive = "build: " + err.Error()
		return
	}
	byPath := map[string]workflow.Role{}
	workflow.Walk(root, func(r workflow.Role) { byPath[r.GetPath()] = r })
	hist := []string{}
	defer func() { res.History = map[string]interface{}{"workflow": doc, "steps": hist} }()
	sawError := false
	take := func() {
		select {
		case s := <-mailbox:
			if s == sm.ERROR {
				sawError = true
			}
			hist = append(hist, "   watcher takes "+s.String())
		default:
		}
	}
	state := make([]string, len(c.Leaves))
	for i := range state {
		state[i] = "STANDBY"
	}
	critError := func() bool {
		for i, l := range c.Leaves {
			if l.Critical && state[i] == "ERROR" {
				return true
			}
		}
		return false
	}
	busySeen, mustKnow := false, false
	for k, u := range c.Updates {
		li := u.Leaf % len(c.Leaves)
		r := byPath[paths[li]]
		if r == nil {
			res.Inconclusive = "no role " + paths[li]
			return
		}
		if !u.Busy {
			take() // the watcher is back at its mailbox before this update arrives
		} else {
			busySeen = true
		}
		errorBefore := critError()
		r.(workflow.PublicUpdatable).UpdateState(sm.StateFromString(u.State))
		state[li] = u.State
		hist = append(hist, fmt.Sprintf("%d: %s -> %s (critical=%v, watcher busy=%v)", k, paths[li], u.State, c.Leaves[li].Critical, u.Busy))
		// a critical task is (still) in ERROR, a critical task reported just now, and the watcher's mailbox was empty: the
		// watcher has been told by now (this very notification carries it)
		if !u.Busy && c.Leaves[li].Critical && (errorBefore || critError()) && critError() {
			mustKnow = true
		}
		if mustKnow {
			take()
			if !sawError {
				res.Violation = fmt.Sprintf("after update %d a critical task is in ERROR, a critical task has just reported while the watcher's mailbox was empty, and the watcher has still not been told ERROR (earlier notifications arrived while it was busy)", k)
				res.Signature = "error-notification-lost-for-good"
				return
			}
		}
	}
	take()
	if !critError() && sawError {
		everErr := false
		for _, u := range c.Updates {
			if u.State == "ERROR" && c.Leaves[u.Leaf%len(c.Leaves)].Critical {
				everErr = true
			}
		}
		if !everErr {
			res.Violation = "no critical task was ever in ERROR but the watcher was told ERROR"
			res.Signature = "error-invented"
			return
		}
	}
	res.NonTrivial = busySeen && mustKnow
	if busySeen {
		res.Classes = append(res.Classes, "watcher-busy")
	}
	if mustKnow {
		res.Classes = append(res.Classes, "critical-error-announced")
	}
	return
}

func genNotify(t *rapid.T) NCase {
	c := NCase{}
	n := rapid.IntRange(2, 7).Draw(t, "leaves")
	for i := 0; i < n; i++ {
		c.Leaves = append(c.Leaves, NLeaf{Group: rapid.IntRange(0, 5).Draw(t, "group"), Critical: rapid.IntRange(0, 3).Draw(t, "critical") > 0})
	}
	m := rapid.IntRange(2, 14).Draw(t, "updates")
	for i := 0; i < m; i++ {
		c.Updates = append(c.Updates, NUpdate{Leaf: rapid.IntRange(0, n-1).Draw(t, "leaf"),
			State: rapid.SampledFrom([]string{"CONFIGURED", "RUNNING", "ERROR", "CONFIGURED", "RUNNING", "STANDBY"}).Draw(t, "state"),
			Busy:  rapid.IntRange(0, 2).Draw(t, "busy") == 0})
	}
	return c
}

func TestNotifyInProcess(t *testing.T) { vh.Check(t, prop, genNotify, runNotify) }

func TestNotifyFixed(t *testing.T) {
	// t0 reports RUNNING and the watcher is still looking at that when t1 fails; t2 reports afterwards with the watcher ready
	vh.Fixed(t, prop, "notify/error-while-watcher-busy", NCase{Leaves: []NLeaf{{0, true}, {1, true}, {1, true}},
		Updates: []NUpdate{{0, "CONFIGURED", false}, {1, "CONFIGURED", false}, {2, "CONFIGURED", false}, {0, "RUNNING", false}, {1, "ERROR", true}, {2, "RUNNING", false}}}, runNotify)
	vh.Fixed(t, prop, "notify/two-levels", NCase{Leaves: []NLeaf{{4, true}, {4, true}, {5, true}, {0, false}},
		Updates: []NUpdate{{0, "RUNNING", false}, {2, "ERROR", true}, {3, "RUNNING", false}, {1, "RUNNING", false}}}, runNotify)
}

package c02

// Commands of all environments go through one serial queue: a transition of environment B asked while a command of
// environment A waits for a silent task is sent only after A's response timeout. TestFixedQueued: a critical task of A and
// a critical task of B both never acknowledge START; B's request is made half a second after A's, so B's verdict arrives
// about 180 s after it was asked. Both requests must fail and neither environment may be reported RUNNING - however long
// the task manager takes to answer (about 190 s of waiting; a shard of its own).

import (
	"fmt"
	"os"
	"strings"
	"sync/atomic"
	"testing"
	"time"

	pb "github.com/AliceO2Group/Control/core/protos"

	"verifharness/simworld"
	"verifharness/vh"
)

type QCase struct {
	GapMs int // B's request follows A's after this long
}

func runQueued(c QCase) (res vh.Result) {
	w, err := world()
	if err != nil {
		res.Inconclusive = "world: " + err.Error()
		return
	}
	defer simworld.Discard()
	n := atomic.AddInt64(&caseSeq, 1)
	mk := func(tag, host string) (string, string) {
		wf := fmt.Sprintf("wfq%s%dx%d", tag, os.Getpid(), n)
		cls := fmt.Sprintf("cq%s%dx%d", tag, os.Getpid(), n)
		w.WriteTask(cls, simworld.TaskClassYAML(cls, "direct", ""))
		w.WriteWorkflow(wf, fmt.Sprintf("name: %s\ndefaults:\n  deploy_timeout: 2s\nroles:\n  - name: t\n    constraints:\n      - attribute: machine_id\n        value: %s\n    task:\n      load: %s\n      critical: true\n", wf, host, cls))
		return wf, cls
	}
	wfA, clsA := mk("a", "hosta")
	wfB, clsB := mk("b", "hostb")
	w.Master.OnCommand = func(t *simworld.SimTask, cmd *simworld.Command) simworld.Reply {
		cl := simworld.ClassOf(t)
		if (cl == clsA || cl == clsB) && cmd.Event == "START" {
			return simworld.Reply{NoReply: true}
		}
		return simworld.Reply{}
	}
	hist := []string{}
	defer func() { res.History = map[string]interface{}{"steps": hist, "world_log_tail": w.LogLines(80)} }()
	envA, err := w.NewEnv(wfA, nil, 30*time.Second)
	if err != nil {
		res.Inconclusive = "creation of A failed: " + err.Error()
		return
	}
	envB, err := w.NewEnv(wfB, nil, 30*time.Second)
	if err != nil {
		res.Inconclusive = "creation of B failed: " + err.Error()
		return
	}
	res.NonTrivial = true
	res.Classes = []string{"queued-behind-another-environment"}
	type out struct {
		rep  *pb.ControlEnvironmentReply
		err  error
		took time.Duration
	}
	ask := func(id string) chan out {
		ch := make(chan out, 1)
		go func() {
			t0 := time.Now()
			rep, err := w.Control(id, pb.ControlEnvironmentRequest_START_ACTIVITY, 300*time.Second)
			ch <- out{rep, err, time.Since(t0)}
		}()
		return ch
	}
	chA := ask(envA.Id)
	time.Sleep(time.Duration(c.GapMs) * time.Millisecond)
	chB := ask(envB.Id)
	oA, oB := <-chA, <-chB
	hist = append(hist, fmt.Sprintf("START A -> state=%s err=%v after %s", oA.rep.GetState(), oA.err, oA.took.Round(time.Second)),
		fmt.Sprintf("START B -> state=%s err=%v after %s", oB.rep.GetState(), oB.err, oB.took.Round(time.Second)))
	if crash := w.CoreCrash(); crash != "" {
		res.Violation, res.Signature = "the core died: "+crash, "core-crash"
		return
	}
	for _, x := range []struct {
		tag string
		id  string
		o   out
	}{{"A", envA.Id, oA}, {"B", envB.Id, oB}} {
		if x.o.err != nil && strings.Contains(x.o.err.Error(), "DeadlineExceeded") {
			res.Inconclusive = "START " + x.tag + " did not return within 300 s"
			return
		}
		ge, _ := w.GetEnv(x.id, false)
		now := ge.GetEnvironment().GetState()
		if x.o.err == nil && x.o.rep.GetState() == "RUNNING" || now == "RUNNING" {
			res.Violation = fmt.Sprintf("the only, critical task of environment %s never acknowledged START, yet the request returned state=%q err=%v after %s and the environment is now %s",
				x.tag, x.o.rep.GetState(), x.o.err, x.o.took.Round(time.Second), now)
			res.Signature = "success-without-acknowledgement"
			return
		}
	}
	w.Destroy(envA.Id, true, true, false, 60*time.Second)
	w.Destroy(envB.Id, true, true, false, 60*time.Second)
	return
}

func TestFixedQueued(t *testing.T) {
	vh.Fixed(t, prop, "silent-critical-task-queued-behind-a-silent-task-of-another-environment", QCase{GapMs: 500}, runQueued)
}

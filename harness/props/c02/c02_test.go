package c02

import (
	"fmt"
	"os"
	"strings"
	"sync"
	"sync/atomic"
	"testing"
	"time"

	pb "github.com/AliceO2Group/Control/core/protos"
	occpb "github.com/AliceO2Group/Control/executor/protos"
	mesos "github.com/mesos/mesos-go/api/v1/lib"
	"pgregory.net/rapid"

	"verifharness/simworld"
	"verifharness/vh"
)

const prop = "C02"

var hosts = []string{"hosta", "hostb", "hostc"}

type TaskSpec struct {
	Host      int
	Critical  bool
	Mode      string // basic | direct | fairmq
	Deploy    string // ok | fail | silent | noagent
	Configure string // outcome of the CONFIGURE that is part of creation
}

type Step struct {
	Op       string   // START_ACTIVITY | STOP_ACTIVITY | RESET | CONFIGURE
	Outcomes []string // per task: ok | err-src | err-error | err-impostor (error reply preceded by a success reply from a foreign executor naming this task) | undeliverable | dies | silent
}

type Case struct {
	// DevErr[i] = k > 0: 60 ms before step i the device of task k-1 goes to ERROR by itself (TASK_INTERNAL_ERROR device event): the task
	// stays alive, is still a target of the command and refuses it (its outcome is forced to err-error)
	DevErr   []int
	Tasks    []TaskSpec
	CallOnly bool // a workflow without any task (only a call role): nothing to command
	Steps    []Step
}

var caseSeq int64

var opOf = map[string]pb.ControlEnvironmentRequest_Optype{
	"START_ACTIVITY": pb.ControlEnvironmentRequest_START_ACTIVITY, "STOP_ACTIVITY": pb.ControlEnvironmentRequest_STOP_ACTIVITY,
	"RESET": pb.ControlEnvironmentRequest_RESET, "CONFIGURE": pb.ControlEnvironmentRequest_CONFIGURE,
}

// documented graph + the task-level event of each environment transition
var trans = map[string]struct{ src, dst, tev, tsrc, tdst string }{
	"CONFIGURE":      {"DEPLOYED", "CONFIGURED", "CONFIGURE", "STANDBY", "CONFIGURED"},
	"START_ACTIVITY": {"CONFIGURED", "RUNNING", "START", "CONFIGURED", "RUNNING"},
	"STOP_ACTIVITY":  {"RUNNING", "CONFIGURED", "STOP", "RUNNING", "CONFIGURED"},
	"RESET":          {"CONFIGURED", "DEPLOYED", "RESET", "CONFIGURED", "STANDBY"},
}

func world() (*simworld.World, error) {
	return simworld.Shared("default", 25, func() simworld.Options {
		ag, det := simworld.DefaultAgents()
		return simworld.Options{Agents: ag, Detectors: det}
	})
}

func slow(o string) bool { return o == "silent" || o == "dies" || o == "ok-late" }

// "ok-late": the task acknowledges without error, late but in time: 105 s after a CONFIGURE (whose response timeout is 120 s),
// 60 s after any other command (90 s). For the verdict it counts as "ok".
func norm(o string) string {
	if o == "ok-late" {
		return "ok"
	}
	return o
}

func run(c Case) (res vh.Result) {
	w, err := world()
	if err != nil {
		res.Inconclusive = "world: " + err.Error()
		return
	}
	n := atomic.AddInt64(&caseSeq, 1)
	wfName := fmt.Sprintf("wf%dx%d", os.Getpid(), n)
	var sb strings.Builder
	fmt.Fprintf(&sb, "name: %s\ndefaults:\n  deploy_timeout: 2s\nroles:\n", wfName)
	classOf := make([]string, len(c.Tasks))
	idx := map[string]int{}
	if c.CallOnly {
		sb.WriteString("  - name: onlycall\n    call:\n      func: verifprobe.P(\"only\")\n      trigger: before_START_ACTIVITY\n      timeout: 2s\n")
	}
	for i, t := range c.Tasks {
		if c.CallOnly {
			break
		}
		classOf[i] = fmt.Sprintf("c%dx%dt%d", os.Getpid(), n, i)
		idx[classOf[i]] = i
		host := hosts[t.Host%len(hosts)]
		if t.Deploy == "noagent" {
			host = "nosuchhost"
		}
		fmt.Fprintf(&sb, "  - name: t%d\n    constraints:\n      - attribute: machine_id\n        value: %s\n    task:\n      load: %s\n      critical: %v\n", i, host, classOf[i], t.Critical)
		w.WriteTask(classOf[i], simworld.TaskClassYAML(classOf[i], t.Mode, ""))
	}
	w.WriteWorkflow(wfName, sb.String())

	// ------------------------------------------------------------------ behaviour of the simulated world
	var mu sync.Mutex
	current := map[string]string{} // taskClass -> outcome for the transition in flight
	setOutcomes := func(get func(i int) string) {
		mu.Lock()
		for i := range c.Tasks {
			current[classOf[i]] = get(i)
		}
		mu.Unlock()
	}
	outcomeFor := func(t *simworld.SimTask) string {
		mu.Lock()
		defer mu.Unlock()
		return current[simworld.ClassOf(t)]
	}
	mine := func(t *simworld.SimTask) bool { _, ok := idx[simworld.ClassOf(t)]; return ok }
	w.Master.OnLaunch = func(t *simworld.SimTask) simworld.LaunchPlan {
		if !mine(t) {
			return simworld.LaunchPlan{}
		}
		switch c.Tasks[idx[simworld.ClassOf(t)]].Deploy {
		case "fail":
			return simworld.LaunchPlan{States: []mesos.TaskState{mesos.TASK_FAILED}}
		case "silent":
			return simworld.LaunchPlan{Silent: true}
		}
		return simworld.LaunchPlan{}
	}
	w.Master.RefuseMessage = func(t *simworld.SimTask, cmd *simworld.Command) int {
		if mine(t) && cmd.Name == "MesosCommand_Transition" && outcomeFor(t) == "undeliverable" {
			return 503
		}
		return 0
	}
	w.Master.OnCommand = func(t *simworld.SimTask, cmd *simworld.Command) simworld.Reply {
		if !mine(t) {
			return simworld.Reply{}
		}
		switch outcomeFor(t) {
		case "err-src":
			return simworld.Reply{Error: "simulated: task did not reach the expected state", State: cmd.Source}
		case "err-error":
			return simworld.Reply{Error: "simulated: task went to ERROR", State: "ERROR"}
		case "err-impostor":
			// the task's own (error) reply comes 150 ms after somebody else's executor claimed success in its name
			return simworld.Reply{Error: "simulated: task did not reach the expected state", State: cmd.Source, Impostor: true, Delay: 150 * time.Millisecond}
		case "silent":
			return simworld.Reply{NoReply: true}
		case "ok-late":
			if cmd.Event == "CONFIGURE" {
				return simworld.Reply{Delay: 105 * time.Second}
			}
			return simworld.Reply{Delay: 60 * time.Second}
		case "dies":
			id := t.ID
			return simworld.Reply{NoReply: true, Then: func() {
				r := mesos.REASON_EXECUTOR_TERMINATED
				w.Master.SendUpdate(id, mesos.TASK_FAILED, &r, mesos.SOURCE_EXECUTOR)
			}}
		}
		return simworld.Reply{}
	}

	// ------------------------------------------------------------------ oracle helpers
	hist := []string{}
	defer func() { res.History = map[string]interface{}{"workflow": sb.String(), "steps": hist, "world_log_tail": w.LogLines(160)} }()
	critOK := func(get func(i int) string, alive []bool) bool {
		for i, t := range c.Tasks {
			if t.Critical && alive[i] && norm(get(i)) != "ok" {
				return false
			}
			if t.Critical && !alive[i] {
				return false
			}
		}
		return true
	}
	fail := func(sig, f string, a ...interface{}) vh.Result {
		res.Violation = fmt.Sprintf(f, a...)
		res.Signature = sig
		simworld.Discard()
		return res
	}

	// classes / non-triviality
	nonOK, mixed := false, false
	hasCrit, hasNon := false, false
	for _, t := range c.Tasks {
		if t.Deploy != "ok" || t.Configure != "ok" {
			nonOK = true
		}
		if t.Critical {
			hasCrit = true
		} else {
			hasNon = true
		}
	}
	for _, s := range c.Steps {
		for _, o := range s.Outcomes {
			if o != "ok" {
				nonOK = true
			}
		}
	}
	mixed = hasCrit && hasNon
	res.NonTrivial = nonOK || c.CallOnly || mixed
	res.Classes = []string{fmt.Sprintf("tasks:%d", len(c.Tasks))}
	if nonOK {
		res.Classes = append(res.Classes, "has-fault")
	}
	if mixed {
		res.Classes = append(res.Classes, "mixed-criticality")
	}
	if c.CallOnly {
		res.Classes = append(res.Classes, "nothing-to-command")
	}

	// ------------------------------------------------------------------ creation = DEPLOY + CONFIGURE
	setOutcomes(func(i int) string { return c.Tasks[i].Configure })
	deployOK := true
	for _, t := range c.Tasks {
		if t.Critical && t.Deploy != "ok" && !c.CallOnly {
			deployOK = false
		}
	}
	alive := make([]bool, len(c.Tasks))
	for i, t := range c.Tasks {
		alive[i] = t.Deploy == "ok"
	}
	configureOK := critOK(func(i int) string { return c.Tasks[i].Configure }, alive)
	wantCreate := c.CallOnly || (deployOK && configureOK)
	budget := 25 * time.Second
	for _, t := range c.Tasks {
		if slow(t.Configure) && t.Deploy == "ok" {
			budget = 150 * time.Second
		}
	}
	// poll the environment list while the request is in flight: the destination must never show up on failure
	stopPoll := make(chan struct{})
	seenStates := map[string]bool{}
	var pollWG sync.WaitGroup
	pollWG.Add(1)
	go func() {
		defer pollWG.Done()
		for {
			select {
			case <-stopPoll:
				return
			default:
			}
			if envs, err := w.Envs(); err == nil {
				for _, e := range envs {
					if e.GetRootRole() == wfName {
						mu.Lock()
						seenStates[e.GetState()] = true
						mu.Unlock()
					}
				}
			}
			time.Sleep(15 * time.Millisecond)
		}
	}()
	t0 := time.Now()
	env, err := w.NewEnv(wfName, nil, budget)
	close(stopPoll)
	pollWG.Wait()
	took := time.Since(t0)
	hist = append(hist, fmt.Sprintf("create: want success=%v got state=%q err=%v in %v; states seen while creating: %v", wantCreate, env.GetState(), err, took.Round(time.Millisecond), seenStates))
	if crash := w.CoreCrash(); crash != "" {
		return fail("core-crash", "the core died while creating the environment: %s", crash)
	}
	if wantCreate {
		if err != nil && !onlyNoncriticalDeployFault(c) && (strings.Contains(err.Error(), "deployment timed out") || strings.Contains(err.Error(), "DeadlineExceeded")) {
			// every task was told to come up at once and the simulated agents did so: the 2 s deploy_timeout of the generated workflow
			// ran out because the machine is busy, which says nothing about the property
			res.Inconclusive = "deployment timed out although every task deploys: " + err.Error()
			simworld.Discard()
			return
		}
		if err != nil || env.GetState() != "CONFIGURED" {
			sig := "create-should-succeed"
			if c.CallOnly {
				sig = "nothing-to-command-fails"
			} else if !allCriticalOK(c) {
				sig = "create-should-succeed"
			} else if onlyNoncriticalDeployFault(c) {
				sig = "noncritical-deploy-fault-fails-creation"
			} else if len(activeCount(c)) == 1 {
				sig = "single-target-noncritical-error-fails"
			} else {
				sig = "noncritical-error-fails-creation"
			}
			return fail(sig, "every critical task became active and acknowledged CONFIGURE (non-critical faults only: %s) but creation failed: state=%q err=%v (after %v)", faults(c), env.GetState(), err, took.Round(time.Millisecond))
		}
		if c.CallOnly && took > 10*time.Second {
			return fail("nothing-to-command-slow", "a workflow with nothing to command took %v to configure", took)
		}
	} else {
		if err == nil && env.GetState() == "CONFIGURED" {
			return fail("create-should-fail", "a critical task did not deploy / acknowledge CONFIGURE (%s) but the environment reports CONFIGURED", faults(c))
		}
		mu.Lock()
		sawDst := seenStates["CONFIGURED"] && !(deployOK && configureOK)
		sawDeployed := seenStates["DEPLOYED"] && !deployOK
		mu.Unlock()
		if sawDst {
			return fail("destination-reported", "CONFIGURE failed for a critical task (%s) yet the environment was listed as CONFIGURED meanwhile", faults(c))
		}
		if sawDeployed {
			return fail("destination-reported", "DEPLOY failed for a critical task (%s) yet the environment was listed as DEPLOYED meanwhile", faults(c))
		}
		// the environment is gone or in ERROR (the clean-up of a failed creation may still be finishing when the request returns)
		deadline := time.Now().Add(8 * time.Second)
		for {
			left := ""
			if envs, e := w.Envs(); e == nil {
				for _, e := range envs {
					if e.GetRootRole() == wfName && e.GetState() != "ERROR" && e.GetState() != "DONE" {
						left = fmt.Sprintf("creation failed but environment %s is still listed in state %s", e.GetId(), e.GetState())
					}
				}
			}
			if left == "" {
				break
			}
			if time.Now().After(deadline) {
				return fail("failed-create-left-healthy-env", "%s", left)
			}
			time.Sleep(50 * time.Millisecond)
		}
		return
	}
	// commands of the creation went only to deployed tasks, with the right event
	if v := checkCommands(w, c, idx, "CONFIGURE", alive, 0); v != "" {
		return fail("wrong-command", "%s", v)
	}
	// tasks that died during CONFIGURE are no longer commanded
	for i, t := range c.Tasks {
		if t.Configure == "dies" {
			alive[i] = false
		}
	}

	// ------------------------------------------------------------------ further transitions
	state := "CONFIGURED"
	for si, s := range c.Steps {
		tr := trans[s.Op]
		if tr.src != state {
			continue // generator keeps histories legal; skip anything else
		}
		get := func(i int) string { return s.Outcomes[i%len(s.Outcomes)] }
		devErr := -1
		if si < len(c.DevErr) && c.DevErr[si] > 0 && len(c.Tasks) > 0 {
			if k := (c.DevErr[si] - 1) % len(c.Tasks); alive[k] {
				devErr = k
				inner := get
				get = func(i int) string {
					if i == k {
						return "err-error"
					}
					return inner(i)
				}
			}
		}
		setOutcomes(get)
		want := critOK(get, alive)
		if devErr >= 0 {
			for _, t := range w.Master.Tasks() {
				if simworld.ClassOf(t) == classOf[devErr] && !t.Terminal {
					w.Master.SendDeviceEvent(t.ID, occpb.DeviceEventType_TASK_INTERNAL_ERROR, nil)
				}
			}
			res.Classes = append(res.Classes, "device-error-just-before-the-request")
			hist = append(hist, fmt.Sprintf("device of t%d announces TASK_INTERNAL_ERROR", devErr))
			time.Sleep(60 * time.Millisecond)
		}
		budget := 25 * time.Second
		for i := range c.Tasks {
			if alive[i] && slow(get(i)) {
				budget = 150 * time.Second
			}
		}
		mark := len(w.Master.Calls())
		evMark := len(w.Events())
		rep, err := w.Control(env.Id, opOf[s.Op], budget)
		if crash := w.CoreCrash(); crash != "" {
			return fail("core-crash", "the core died during %s: %s", s.Op, crash)
		}
		ge, _ := w.GetEnv(env.Id, false)
		now := ge.GetEnvironment().GetState()
		hist = append(hist, fmt.Sprintf("step %d %s outcomes=%v alive=%v: want success=%v; reply state=%q err=%v; state afterwards %q", si, s.Op, s.Outcomes, alive, want, rep.GetState(), err, now))
		if want {
			if err != nil || rep.GetState() != tr.dst || now != tr.dst {
				sig := "transition-should-succeed"
				n := 0
				for i := range c.Tasks {
					if alive[i] {
						n++
					}
				}
				if n == 1 {
					sig = "single-target-noncritical-error-fails"
				}
				return fail(sig, "%s: every critical task acknowledged (outcomes %v, alive %v) but the request reported state=%q err=%v and the environment is %q", s.Op, s.Outcomes, alive, rep.GetState(), err, now)
			}
			state = tr.dst
		} else {
			if err == nil && rep.GetState() == tr.dst {
				return fail("transition-should-fail", "%s: a critical task did not acknowledge (outcomes %v, alive %v) but the reply reports the destination %s", s.Op, s.Outcomes, alive, tr.dst)
			}
			if now == tr.dst {
				return fail("destination-reported", "%s failed for a critical task (outcomes %v) yet the environment is in the destination %s", s.Op, s.Outcomes, tr.dst)
			}
			for _, e := range w.Events()[evMark:] {
				if e.Topic == "aliecs.environment" && e.Ev["environmentId"] == env.Id && e.Ev["transition"] == s.Op && e.Ev["state"] == tr.dst {
					return fail("destination-reported", "%s failed for a critical task (outcomes %v) yet an environment event reported state %s: %v", s.Op, s.Outcomes, tr.dst, e.Ev)
				}
			}
			if now != "ERROR" {
				// give the API's GO_ERROR a moment
				if st, ok := w.WaitState(env.Id, 3*time.Second, "ERROR"); !ok {
					return fail("not-error-after-failure", "%s failed (outcomes %v) and the environment ends in %q instead of ERROR", s.Op, s.Outcomes, st)
				}
			}
		}
		if v := checkCommands(w, c, idx, s.Op, alive, mark); v != "" {
			return fail("wrong-command", "%s", v)
		}
		for i := range c.Tasks {
			if alive[i] && get(i) == "dies" {
				alive[i] = false
			}
		}
		if !want {
			break
		}
	}
	return
}

func faults(c Case) string {
	var out []string
	for i, t := range c.Tasks {
		if t.Deploy != "ok" || t.Configure != "ok" {
			out = append(out, fmt.Sprintf("t%d(critical=%v deploy=%s configure=%s)", i, t.Critical, t.Deploy, t.Configure))
		}
	}
	return strings.Join(out, " ")
}

func allCriticalOK(c Case) bool {
	for _, t := range c.Tasks {
		if t.Critical && (t.Deploy != "ok" || norm(t.Configure) != "ok") {
			return false
		}
	}
	return true
}

func onlyNoncriticalDeployFault(c Case) bool {
	for _, t := range c.Tasks {
		if !t.Critical && t.Deploy != "ok" {
			return true
		}
	}
	return false
}

func activeCount(c Case) []int {
	var out []int
	for i, t := range c.Tasks {
		if t.Deploy == "ok" {
			out = append(out, i)
		}
	}
	return out
}

// every command since mark: right task-level event/source/destination, only to tasks that are alive, at most one per task
func checkCommands(w *simworld.World, c Case, idx map[string]int, op string, alive []bool, mark int) string {
	tr := trans[op]
	got := map[int]int{}
	for _, call := range w.Master.Calls()[mark:] {
		if call.Type != "MESSAGE" || call.Command == nil || call.Command.Name != "MesosCommand_Transition" {
			continue
		}
		t := w.Master.Task(call.TaskID)
		if t == nil {
			continue
		}
		i, ok := idx[simworld.ClassOf(t)]
		if !ok {
			continue
		}
		cmd := call.Command
		if cmd.Event == "STOP" && op != "STOP_ACTIVITY" {
			continue // clean-up after a failure (the watcher stops running tasks)
		}
		if cmd.Event != tr.tev || cmd.Source != tr.tsrc || cmd.Destination != tr.tdst {
			if op == "CONFIGURE" || cmd.Event == tr.tev {
				return fmt.Sprintf("%s: task t%d received %s %s->%s, expected %s %s->%s", op, i, cmd.Event, cmd.Source, cmd.Destination, tr.tev, tr.tsrc, tr.tdst)
			}
			continue
		}
		got[i]++
		if !alive[i] {
			return fmt.Sprintf("%s: task t%d is not active (never deployed or dead) but was sent %s", op, i, cmd.Event)
		}
	}
	for i, n := range got {
		if n > 1 {
			return fmt.Sprintf("%s: task t%d was commanded %d times", op, i, n)
		}
	}
	return ""
}

// ---------------------------------------------------------------------------------------------

func slowShard() bool { return os.Getenv("VERIF_C02_SLOW") != "" }

func genOutcome(t *rapid.T, label string) string {
	if slowShard() {
		return rapid.SampledFrom([]string{"ok", "ok", "silent", "dies", "err-src", "ok-late"}).Draw(t, label)
	}
	// "undeliverable" is not drawn per task: a real master accepts MESSAGE calls (202) and drops what it cannot deliver, which the
	// core sees as silence; an HTTP-level refusal disconnects the whole framework instead (see DESIGN.md, C02)
	return rapid.SampledFrom([]string{"ok", "ok", "ok", "ok", "ok", "ok", "err-src", "err-src", "err-error", "err-error", "err-impostor"}).Draw(t, label)
}

func gen(t *rapid.T) Case {
	c := Case{}
	exclNC := vh.Open("KF-C02-noncritical-undeployable")
	exclZero := vh.Open("KF-C02-zero-tasks-configure-hangs")
	n := rapid.IntRange(0, 6).Draw(t, "ntasks")
	if n == 0 {
		if exclZero {
			n = 1
		} else {
			c.CallOnly = true
			return c
		}
	}
	for i := 0; i < n; i++ {
		ts := TaskSpec{Host: rapid.IntRange(0, 2).Draw(t, "host"), Critical: rapid.IntRange(0, 2).Draw(t, "critical") > 0,
			Mode: rapid.SampledFrom([]string{"basic", "direct", "fairmq"}).Draw(t, "mode")}
		ts.Deploy = rapid.SampledFrom([]string{"ok", "ok", "ok", "ok", "ok", "ok", "fail", "silent", "noagent"}).Draw(t, "deploy")
		if !ts.Critical && exclNC {
			ts.Deploy = "ok"
		}
		ts.Configure = genOutcome(t, "configure")
		c.Tasks = append(c.Tasks, ts)
	}
	// a legal walk over the documented graph
	state := "CONFIGURED"
	ns := rapid.IntRange(0, 5).Draw(t, "nsteps")
	for i := 0; i < ns; i++ {
		var op string
		switch state {
		case "CONFIGURED":
			op = rapid.SampledFrom([]string{"START_ACTIVITY", "START_ACTIVITY", "RESET"}).Draw(t, "op")
		case "RUNNING":
			op = "STOP_ACTIVITY"
		case "DEPLOYED":
			op = "CONFIGURE"
		}
		s := Step{Op: op}
		for j := 0; j < n; j++ {
			s.Outcomes = append(s.Outcomes, genOutcome(t, "outcome"))
		}
		// correlated faults: in one round every task on one host fails (a node problem), everything else is fine
		if !slowShard() && rapid.IntRange(0, 3).Draw(t, "hostFault") == 0 {
			h := rapid.IntRange(0, 2).Draw(t, "faultyHost")
			kind := rapid.SampledFrom([]string{"err-src", "err-error"}).Draw(t, "hostFaultKind")
			for j := 0; j < n; j++ {
				if c.Tasks[j].Host == h {
					s.Outcomes[j] = kind
				} else {
					s.Outcomes[j] = "ok"
				}
			}
		}
		c.Steps = append(c.Steps, s)
		de := 0
		if !slowShard() && n > 0 && rapid.IntRange(0, 7).Draw(t, "deviceError") == 0 {
			de = rapid.IntRange(1, n).Draw(t, "deviceErrorTask")
		}
		c.DevErr = append(c.DevErr, de)
		state = trans[op].dst
	}
	return c
}

func TestTransitions(t *testing.T) {
	defer simworld.Discard()
	vh.Check(t, prop, gen, vh.Confirmed(run))
}

func ok(n int) []string {
	out := make([]string, n)
	for i := range out {
		out[i] = "ok"
	}
	return out
}

func TestFixed(t *testing.T) {
	defer simworld.Discard()
	// single active task, non-critical, CONFIGURE answered with an error (DESIGN section 9 observation a)
	vh.Fixed(t, prop, "single-noncritical-configure-error", Case{Tasks: []TaskSpec{{0, false, "direct", "ok", "err-src"}}}, vh.Confirmed(run))
	vh.Fixed(t, prop, "single-noncritical-start-error", Case{Tasks: []TaskSpec{{0, false, "direct", "ok", "ok"}}, Steps: []Step{{"START_ACTIVITY", []string{"err-src"}}}}, vh.Confirmed(run))
	vh.Fixed(t, prop, "critical-and-noncritical-both-fail-start", Case{Tasks: []TaskSpec{{0, true, "direct", "ok", "ok"}, {1, false, "basic", "ok", "ok"}},
		Steps: []Step{{"START_ACTIVITY", []string{"err-src", "err-src"}}}}, vh.Confirmed(run))
	vh.Fixed(t, prop, "noncritical-fails-everywhere", Case{Tasks: []TaskSpec{{0, true, "direct", "ok", "ok"}, {1, false, "basic", "ok", "err-error"}, {2, true, "fairmq", "ok", "ok"}},
		Steps: []Step{{"START_ACTIVITY", []string{"ok", "err-src", "ok"}}, {"STOP_ACTIVITY", []string{"ok", "err-error", "ok"}}, {"RESET", []string{"ok", "err-error", "ok"}}, {"CONFIGURE", []string{"ok", "err-src", "ok"}}}}, vh.Confirmed(run))
	vh.Fixed(t, prop, "critical-error-stop", Case{Tasks: []TaskSpec{{0, true, "direct", "ok", "ok"}, {1, true, "direct", "ok", "ok"}},
		Steps: []Step{{"START_ACTIVITY", ok(2)}, {"STOP_ACTIVITY", []string{"ok", "err-error"}}}}, vh.Confirmed(run))
	// a critical and non-critical tasks of one host fail in the same round, whichever of them the core looks at first (repeated:
	// the order is a map iteration inside the core)
	for i := 0; i < 6; i++ {
		op := []string{"START_ACTIVITY", "RESET"}[i%2]
		vh.Fixed(t, prop, fmt.Sprintf("same-host-critical-and-noncritical-fail-%d", i), Case{Tasks: []TaskSpec{{0, false, "direct", "ok", "ok"}, {0, true, "direct", "ok", "ok"}, {0, false, "basic", "ok", "ok"}, {1, true, "direct", "ok", "ok"}},
			Steps: []Step{{op, []string{"err-src", "err-error", "err-src", "ok"}}}}, vh.Confirmed(run))
	}
	vh.Fixed(t, prop, "critical-device-goes-to-error-just-before-start", Case{DevErr: []int{2}, Tasks: []TaskSpec{{0, true, "direct", "ok", "ok"}, {1, true, "direct", "ok", "ok"}},
		Steps: []Step{{"START_ACTIVITY", ok(2)}}}, vh.Confirmed(run))
	vh.Fixed(t, prop, "foreign-executor-claims-success-for-a-critical-task", Case{Tasks: []TaskSpec{{0, true, "direct", "ok", "ok"}, {1, true, "direct", "ok", "ok"}},
		Steps: []Step{{"START_ACTIVITY", []string{"err-impostor", "ok"}}}}, vh.Confirmed(run))
	vh.Fixed(t, prop, "nothing-to-command-walk", Case{CallOnly: true, Tasks: nil, Steps: []Step{{"START_ACTIVITY", []string{"ok"}}, {"STOP_ACTIVITY", []string{"ok"}}, {"RESET", []string{"ok"}}, {"CONFIGURE", []string{"ok"}}}}, vh.Confirmed(run))
	if !vh.Open("KF-C02-noncritical-undeployable") {
		vh.Fixed(t, prop, "noncritical-unplaceable", canaryNC(), vh.Confirmed(run))
	}
	if !vh.Open("KF-C02-zero-tasks-configure-hangs") {
		vh.Fixed(t, prop, "nothing-to-command", Case{CallOnly: true}, vh.Confirmed(run))
	}
}

func canaryNC() Case {
	return Case{Tasks: []TaskSpec{{0, true, "direct", "ok", "ok"}, {1, false, "direct", "noagent", "ok"}}}
}

func TestCanaryNoncriticalUndeployable(t *testing.T) {
	defer simworld.Discard()
	vh.Canary(t, prop, "KF-C02-noncritical-undeployable", canaryNC(), run)
}

func TestCanaryZeroTasks(t *testing.T) {
	defer simworld.Discard()
	vh.Canary(t, prop, "KF-C02-zero-tasks-configure-hangs", Case{CallOnly: true}, vh.Confirmed(run))
}


// TestFixedSlow: a critical task that never answers while the other targets do. Costs the compiled-in 90 s (120 s for
// CONFIGURE) response timeout per case, so it runs as a shard of its own beside the fast ones.
func TestFixedSlow(t *testing.T) {
	defer simworld.Discard()
	vh.Fixed(t, prop, "critical-silent-others-answer-start", Case{Tasks: []TaskSpec{{0, true, "direct", "ok", "ok"}, {1, true, "direct", "ok", "ok"}, {0, false, "direct", "ok", "ok"}},
		Steps: []Step{{"START_ACTIVITY", []string{"silent", "ok", "ok"}}}}, vh.Confirmed(run))
}

// TestFixedLate: critical tasks that acknowledge late but in time - 105 s after CONFIGURE (response timeout 120 s), 60 s
// after START (90 s): creation and transition succeed. Runs as a shard of its own (about 170 s of waiting).
func TestFixedLate(t *testing.T) {
	defer simworld.Discard()
	vh.Fixed(t, prop, "critical-acknowledges-late-but-in-time-configure-and-start", Case{Tasks: []TaskSpec{{0, true, "direct", "ok", "ok-late"}, {1, true, "direct", "ok", "ok"}},
		Steps: []Step{{"START_ACTIVITY", []string{"ok", "ok-late"}}}}, vh.Confirmed(run))
}

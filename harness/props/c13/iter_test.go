package c13

// Channels declared on iterated roles: every role an iterator generates has its own copy of the bind/connect
// declarations, whose target / global alias may depend on the iteration variable. Consumer x must be connected to
// where producer x was bound - not to the endpoint of a sibling.

import (
	"fmt"
	"os"
	"regexp"
	"strings"
	"sync/atomic"
	"testing"
	"time"

	"pgregory.net/rapid"

	"verifharness/simworld"
	"verifharness/vh"
)

type IterCase struct {
	N       int    // elements of the range (2-4)
	Target  string // role | alias
	Layout  string // flat: an iterator of producers next to an iterator of consumers; pair: an iterated aggregator holding one producer and one consumer
	AtGroup bool   // pair layout: the connect declaration sits on the iterated aggregator
	Extra   bool   // every consumer also has a second outbound channel with an explicit target
}

func runIter(c IterCase) (res vh.Result) {
	w, err := world()
	if err != nil {
		res.Inconclusive = "world: " + err.Error()
		return
	}
	n := atomic.AddInt64(&caseSeq, 1)
	wf := fmt.Sprintf("wi%dx%d", os.Getpid(), n)
	clsP, clsC := fmt.Sprintf("ip%dx%d", os.Getpid(), n), fmt.Sprintf("ic%dx%d", os.Getpid(), n)
	elems := []string{"a", "b", "c", "d"}[:c.N]
	quoted := []string{}
	for _, e := range elems {
		quoted = append(quoted, `"`+e+`"`)
	}
	rng := "[" + strings.Join(quoted, ",") + "]"
	iter := func(indent string) string {
		return fmt.Sprintf("%s  for:\n%s    range: '%s'\n%s    var: it\n", indent, indent, rng, indent)
	}
	target := func(prodPath string) string {
		if c.Target == "alias" {
			return "::ro-{{ it }}"
		}
		return prodPath + ":data"
	}
	conn := func(indent, prodPath string) string {
		s := fmt.Sprintf("%sconnect:\n%s  - name: in\n%s    type: pull\n%s    transport: default\n%s    target: \"%s\"\n", indent, indent, indent, indent, indent, target(prodPath))
		if c.Extra {
			s += fmt.Sprintf("%s  - name: fixed\n%s    type: pull\n%s    transport: zeromq\n%s    target: \"tcp://10.9.8.7:100{{ it == 'a' ? 1 : 2 }}\"\n", indent, indent, indent, indent)
		}
		return s
	}
	bind := func(indent string) string {
		return fmt.Sprintf("%sbind:\n%s  - name: data\n%s    type: push\n%s    transport: zeromq\n%s    addressing: tcp\n%s    global: \"ro-{{ it }}\"\n", indent, indent, indent, indent, indent, indent)
	}
	var sb strings.Builder
	fmt.Fprintf(&sb, "name: %s\ndefaults:\n  deploy_timeout: 6s\nroles:\n", wf)
	if c.Layout == "flat" {
		fmt.Fprintf(&sb, "  - name: \"prod-{{ it }}\"\n%s%s    task:\n      load: %s\n", iter("  "), bind("    "), clsP)
		fmt.Fprintf(&sb, "  - name: \"cons-{{ it }}\"\n%s%s    task:\n      load: %s\n", iter("  "), conn("    ", wf+".prod-{{ it }}"), clsC)
	} else {
		fmt.Fprintf(&sb, "  - name: \"pair-{{ it }}\"\n%s", iter("  "))
		if c.AtGroup {
			sb.WriteString(conn("    ", wf+".pair-{{ it }}.prod"))
		}
		fmt.Fprintf(&sb, "    roles:\n      - name: prod\n%s        task:\n          load: %s\n      - name: cons\n", bind("        "), clsP)
		if !c.AtGroup {
			sb.WriteString(conn("        ", wf+".pair-{{ it }}.prod"))
		}
		fmt.Fprintf(&sb, "        task:\n          load: %s\n", clsC)
	}
	for _, cls := range []string{clsP, clsC} {
		w.WriteTask(cls, fmt.Sprintf("name: %s\ndefaults:\n  it: none\ncontrol:\n  mode: direct\nwants:\n  cpu: 0.1\n  memory: 64\ncommand:\n  shell: true\n  value: \"echo it=<{{ it }}>\"\n", cls))
	}
	w.WriteWorkflow(wf, sb.String())
	defer func() {
		res.History = map[string]interface{}{"workflow": sb.String(), "world_log_tail": w.LogLines(40)}
	}()
	fail := func(sig, f string, a ...interface{}) vh.Result {
		res.Violation = fmt.Sprintf(f, a...)
		res.Signature = sig
		simworld.Discard()
		return res
	}
	res.NonTrivial = true
	res.Classes = []string{"iterated-channels", "iter-target:" + c.Target, "iter-layout:" + c.Layout}

	mark := len(w.Master.Calls())
	taskMark := len(w.Master.Tasks())
	env, cerr := w.NewEnv(wf, nil, 40*time.Second)
	if crash := w.CoreCrash(); crash != "" {
		return fail("core-crash", "the core died: %s", crash)
	}
	if cerr != nil && strings.Contains(cerr.Error(), "deployment timed out") {
		res.Inconclusive = "deployment did not finish: " + cerr.Error()
		simworld.Discard()
		return
	}
	if cerr != nil {
		return fail("creation-failed", "every consumer's target names the producer generated for the same element, yet creation failed: %v", cerr)
	}
	defer w.Destroy(env.Id, true, true, false, 30*time.Second)
	itRe := regexp.MustCompile(`it=<([a-d])>`)
	elemOf := map[string]string{} // task id -> element
	hostOf := map[string]string{}
	prod, cons := map[string]string{}, map[string]string{} // element -> task id
	for _, t := range w.Master.Tasks()[taskMark:] {
		val, _ := t.Cmd["value"].(string)
		m := itRe.FindStringSubmatch(val)
		if m == nil {
			continue
		}
		elemOf[t.ID], hostOf[t.ID] = m[1], t.Hostname
		switch simworld.ClassOf(t) {
		case clsP:
			prod[m[1]] = t.ID
		case clsC:
			cons[m[1]] = t.ID
		}
	}
	if len(prod) != c.N || len(cons) != c.N {
		return fail("iterated-roles-missing", "expected %d producers and %d consumers, found %d and %d", c.N, c.N, len(prod), len(cons))
	}
	args := map[string]map[string]string{}
	for _, cl := range w.Master.Calls()[mark:] {
		if cl.Type == "MESSAGE" && cl.Command != nil && cl.Command.Event == "CONFIGURE" {
			args[cl.TaskID] = cl.Command.Arguments
		}
	}
	tcpRe := regexp.MustCompile(`^tcp://\*:(\d+)$`)
	for _, e := range elems {
		pa, ca := args[prod[e]], args[cons[e]]
		if pa == nil || ca == nil {
			return fail("no-configure", "the tasks generated for element %s did not both receive CONFIGURE", e)
		}
		m := tcpRe.FindStringSubmatch(pa["chans.data.0.address"])
		if m == nil || pa["chans.data.0.method"] != "bind" {
			return fail("inbound-address", "producer %s was told to %s %q", e, pa["chans.data.0.method"], pa["chans.data.0.address"])
		}
		want := fmt.Sprintf("tcp://%s:%s", hostOf[prod[e]], m[1])
		if got := ca["chans.in.0.address"]; got != want || ca["chans.in.0.method"] != "connect" {
			whose := ""
			for _, o := range elems {
				if mo := tcpRe.FindStringSubmatch(args[prod[o]]["chans.data.0.address"]); mo != nil && got == fmt.Sprintf("tcp://%s:%s", hostOf[prod[o]], mo[1]) {
					whose = " (that is where the producer of element " + o + " was bound)"
				}
			}
			return fail("outbound-wrong-address:iterated", "consumer %s targets the channel of producer %s, which was bound at %s, but was told to %s to %q%s", e, e, want, ca["chans.in.0.method"], got, whose)
		}
		if ca["chans.in.0.transport"] != "zeromq" {
			return fail("outbound-transport", "consumer %s: transport %q, the inbound side uses zeromq", e, ca["chans.in.0.transport"])
		}
		if c.Extra {
			wantFixed := "tcp://10.9.8.7:1002"
			if e == "a" {
				wantFixed = "tcp://10.9.8.7:1001"
			}
			if got := ca["chans.fixed.0.address"]; got != wantFixed {
				return fail("explicit-target-changed", "consumer %s: explicit target %q was passed on as %q", e, wantFixed, got)
			}
		}
	}
	return
}

func genIter(t *rapid.T) IterCase {
	c := IterCase{N: rapid.IntRange(2, 4).Draw(t, "n"), Target: rapid.SampledFrom([]string{"role", "alias"}).Draw(t, "target"),
		Layout: rapid.SampledFrom([]string{"flat", "pair"}).Draw(t, "layout"), Extra: rapid.Bool().Draw(t, "extra")}
	if c.Layout == "pair" {
		c.AtGroup = rapid.Bool().Draw(t, "atGroup")
	}
	return c
}

func TestIteratedChannels(t *testing.T) {
	defer simworld.Discard()
	vh.Check(t, prop, genIter, vh.Confirmed(runIter))
}

func TestIteratedFixed(t *testing.T) {
	defer simworld.Discard()
	vh.Fixed(t, prop, "iter/flat-role", IterCase{N: 3, Target: "role", Layout: "flat", Extra: true}, vh.Confirmed(runIter))
	vh.Fixed(t, prop, "iter/flat-alias", IterCase{N: 3, Target: "alias", Layout: "flat"}, vh.Confirmed(runIter))
	vh.Fixed(t, prop, "iter/pair-group", IterCase{N: 2, Target: "role", Layout: "pair", AtGroup: true}, vh.Confirmed(runIter))
}

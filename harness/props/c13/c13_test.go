package c13

import (
	"fmt"
	"os"
	"regexp"
	"strconv"
	"strings"
	"sync/atomic"
	"testing"
	"time"

	mesos "github.com/mesos/mesos-go/api/v1/lib"
	"github.com/mesos/mesos-go/api/v1/lib/resources"
	"pgregory.net/rapid"

	"verifharness/simworld"
	"verifharness/vh"
)

const prop = "C13"

type Bind struct {
	Name       string
	Transport  string // default zeromq shmem
	Addressing string // tcp | ipc
	Global     string // alias ("" = none)
	InClass    bool   // declared in the task template instead of the role
	ClassToo   bool   // also declared in the task template with another transport (role level must win)
	AtGroup    bool   // declared on the enclosing aggregator instead of the task role (inherited by the task)
	Explicit   string // an explicit tcp:// or ipc:// target on the inbound channel: to be passed through unchanged (nobody connects to it by name)
	GroupToo   bool   // (role-level declarations only) the enclosing aggregator declares a channel of the same name with another transport: the nearest declaration wins
}

type Connect struct {
	Name      string
	Kind      string // role (path:channel) | alias | explicit | unmatched
	ToTask    int
	ToChan    int
	Explicit  string
	Transport string
	InClass   bool // the task template also declares this channel (without target: templates cannot carry targets); the role level supplies the target and wins
	AtGroup   bool // declared on the enclosing aggregator instead of the task role
	GroupToo  bool // (role-level declarations only) the enclosing aggregator declares the same channel name with a decoy target: the nearest declaration wins
}

type TaskSpec struct {
	Host        int
	NonCritical bool   // the task role says critical: false
	Mode        string // direct | fairmq
	Binds       []Bind
	Connects    []Connect
}

type Case struct {
	Tasks         []TaskSpec
	AliasConflict bool // two tasks claim the same global alias
}

var hostNames = []string{"hosta", "hostb", "hostc"}
var caseSeq int64

func world() (*simworld.World, error) {
	return simworld.Shared("default", 20, func() simworld.Options {
		ag, det := simworld.DefaultAgents()
		return simworld.Options{Agents: ag, Detectors: det}
	})
}

func bindYAML(b Bind, transport, indent string) string {
	s := fmt.Sprintf("%s- name: %s\n%s  type: push\n%s  transport: %s\n%s  addressing: %s\n", indent, b.Name, indent, indent, transport, indent, b.Addressing)
	if b.Global != "" {
		s += fmt.Sprintf("%s  global: %s\n", indent, b.Global)
	}
	if b.Explicit != "" {
		s += fmt.Sprintf("%s  target: \"%s\"\n", indent, b.Explicit)
	}
	return s
}

func run(c Case) (res vh.Result) {
	w, err := world()
	if err != nil {
		res.Inconclusive = "world: " + err.Error()
		return
	}
	n := atomic.AddInt64(&caseSeq, 1)
	wf := fmt.Sprintf("wf%dx%d", os.Getpid(), n)
	var sb strings.Builder
	fmt.Fprintf(&sb, "name: %s\ndefaults:\n  deploy_timeout: 6s\nroles:\n", wf)
	idx := map[string]int{}
	path := func(i int) string { return fmt.Sprintf("%s.g%d.t%d", wf, i, i) }
	target := func(cn Connect) string {
		switch cn.Kind {
		case "role":
			return path(cn.ToTask) + ":" + c.Tasks[cn.ToTask].Binds[cn.ToChan].Name
		case "alias":
			return "::" + c.Tasks[cn.ToTask].Binds[cn.ToChan].Global
		case "explicit":
			return cn.Explicit
		}
		return wf + ".nosuchrole:nochannel"
	}
	connYAML := func(cn Connect, indent string) string {
		return fmt.Sprintf("%s- name: %s\n%s  type: pull\n%s  transport: %s\n%s  target: \"%s\"\n", indent, cn.Name, indent, indent, cn.Transport, indent, target(cn))
	}
	crossHost, hasAlias, override, unmatched := false, false, false, false
	for i, t := range c.Tasks {
		cls := fmt.Sprintf("n%dx%dt%d", os.Getpid(), n, i)
		idx[cls] = i
		// every task sits in its own aggregator so that channels can also be declared one level up
		fmt.Fprintf(&sb, "  - name: g%d\n", i)
		group, groupBind := "", ""
		for _, cn := range t.Connects {
			if cn.AtGroup {
				group += connYAML(cn, "      ")
			} else if cn.GroupToo {
				other := "zeromq"
				if cn.Transport == "zeromq" {
					other = "shmem"
				}
				group += fmt.Sprintf("      - name: %s\n        type: pull\n        transport: %s\n        target: \"tcp://decoy.invalid:1\"\n", cn.Name, other)
				override = true
			}
		}
		for _, b := range t.Binds {
			if b.AtGroup && !b.InClass {
				groupBind += bindYAML(b, b.Transport, "      ")
			} else if b.GroupToo && !b.InClass {
				other := "zeromq"
				if b.Transport == "zeromq" {
					other = "shmem"
				}
				groupBind += bindYAML(Bind{Name: b.Name, Addressing: b.Addressing}, other, "      ")
			}
		}
		if groupBind != "" {
			sb.WriteString("    bind:\n" + groupBind)
			override = true
		}
		if group != "" {
			sb.WriteString("    connect:\n" + group)
		}
		fmt.Fprintf(&sb, "    roles:\n      - name: t%d\n        constraints:\n          - attribute: machine_id\n            value: %s\n", i, hostNames[t.Host%3])
		rb, cb, rc, cc := "", "", "", ""
		for _, b := range t.Binds {
			if b.InClass {
				cb += bindYAML(b, b.Transport, "  ")
			} else if b.AtGroup {
				// written above, on the aggregator
			} else {
				rb += bindYAML(b, b.Transport, "          ")
				if b.ClassToo {
					other := "zeromq"
					if b.Transport == "zeromq" {
						other = "shmem"
					}
					cb += bindYAML(Bind{Name: b.Name, Addressing: b.Addressing}, other, "  ")
					override = true
				}
			}
			if b.Global != "" {
				hasAlias = true
			}
		}
		for _, cn := range t.Connects {
			if cn.InClass {
				other := "zeromq"
				if cn.Transport == "zeromq" {
					other = "default"
				}
				cc += fmt.Sprintf("  - name: %s\n    type: pull\n    transport: %s\n", cn.Name, other)
				override = true
			}
			if !cn.AtGroup {
				rc += connYAML(cn, "          ")
			} else {
				override = true
			}
			if cn.Kind == "unmatched" {
				unmatched = true
			}
			if (cn.Kind == "role" || cn.Kind == "alias") && c.Tasks[cn.ToTask].Host%3 != t.Host%3 {
				crossHost = true
			}
		}
		if rb != "" {
			sb.WriteString("        bind:\n" + rb)
		}
		if rc != "" {
			sb.WriteString("        connect:\n" + rc)
		}
		fmt.Fprintf(&sb, "        task:\n          load: %s\n", cls)
		if t.NonCritical {
			sb.WriteString("          critical: false\n")
		}
		extra := ""
		if cb != "" {
			extra += "bind:\n" + cb
		}
		if cc != "" {
			extra += "connect:\n" + cc
		}
		w.WriteTask(cls, simworld.TaskClassYAML(cls, t.Mode, extra))
	}
	w.WriteWorkflow(wf, sb.String())
	defer func() {
		res.History = map[string]interface{}{"workflow": sb.String(), "world_log_tail": w.LogLines(40)}
	}()
	fail := func(sig, f string, a ...interface{}) vh.Result {
		res.Violation = fmt.Sprintf(f, a...)
		res.Signature = sig
		simworld.Discard()
		return res
	}
	res.NonTrivial = crossHost || hasAlias || override
	for k, b := range map[string]bool{"cross-host": crossHost, "alias": hasAlias, "role-level-override": override, "unmatched-target": unmatched, "alias-conflict": c.AliasConflict} {
		if b {
			res.Classes = append(res.Classes, k)
		}
	}

	mark := len(w.Master.Calls())
	taskMark := len(w.Master.Tasks())
	env, cerr := w.NewEnv(wf, nil, 40*time.Second)
	if crash := w.CoreCrash(); crash != "" {
		return fail("core-crash", "the core died: %s", crash)
	}
	if unmatched || c.AliasConflict {
		if cerr == nil {
			w.Destroy(env.GetId(), true, true, false, 30*time.Second)
			what := "an outbound channel whose target matches nothing"
			if c.AliasConflict && !unmatched {
				what = "two different endpoints claiming the same global alias"
			}
			return fail("bad-channels-accepted", "the workflow has %s, yet the environment was configured", what)
		}
		return
	}
	if cerr != nil {
		if strings.Contains(cerr.Error(), "deployment timed out") {
			// the tasks did not come up in time (machine under heavy load): the channel resolution was never reached
			res.Inconclusive = "deployment did not finish: " + cerr.Error()
			simworld.Discard()
			return
		}
		return fail("creation-failed", "all channel targets are resolvable, yet creation failed: %v", cerr)
	}
	defer w.Destroy(env.Id, true, true, false, 30*time.Second)

	// ---- what every executor was told at CONFIGURE, and what was launched where
	args := map[int]map[string]string{}
	for _, cl := range w.Master.Calls()[mark:] {
		if cl.Type == "MESSAGE" && cl.Command != nil && cl.Command.Event == "CONFIGURE" {
			if t := w.Master.Task(cl.TaskID); t != nil {
				if i, ok := idx[simworld.ClassOf(t)]; ok {
					args[i] = cl.Command.Arguments
				}
			}
		}
	}
	host := map[int]string{}
	ports := map[int]map[uint64]bool{}
	for _, t := range w.Master.Tasks()[taskMark:] {
		if i, ok := idx[simworld.ClassOf(t)]; ok {
			host[i] = t.Hostname
			ports[i] = map[uint64]bool{}
			if pr, ok := resources.Ports(mesos.Resources(t.Info.Resources)...); ok {
				for _, r := range pr {
					for p := r.Begin; p <= r.End; p++ {
						ports[i][p] = true
					}
				}
			}
		}
	}
	tcpRe := regexp.MustCompile(`^tcp://([^:]+):(\d+)$`)
	boundAddr := map[string]string{} // "task/chan" -> address as seen from other tasks
	boundTransport := map[string]string{}
	for i, t := range c.Tasks {
		a := args[i]
		if a == nil {
			return fail("no-configure", "task t%d never received CONFIGURE", i)
		}
		for _, b := range t.Binds {
			key := fmt.Sprintf("%d/%s", i, b.Name)
			addr, method, tr := a["chans."+b.Name+".0.address"], a["chans."+b.Name+".0.method"], a["chans."+b.Name+".0.transport"]
			if method != "bind" {
				return fail("inbound-not-bind", "task t%d inbound channel %s was configured with method %q (address %q)", i, b.Name, method, addr)
			}
			if tr != b.Transport {
				return fail("inbound-transport", "task t%d inbound channel %s: transport %q, declared %q (role level must win over the task template)", i, b.Name, tr, b.Transport)
			}
			if b.Explicit != "" {
				if addr != b.Explicit {
					return fail("explicit-target-changed", "task t%d inbound channel %s: explicit target %q was passed on as %q", i, b.Name, b.Explicit, addr)
				}
				continue
			}
			if b.Addressing == "ipc" {
				if !strings.HasPrefix(addr, "ipc://") {
					return fail("inbound-address", "task t%d inbound ipc channel %s was told to bind %q", i, b.Name, addr)
				}
				boundAddr[key] = addr
			} else {
				m := tcpRe.FindStringSubmatch(addr)
				if m == nil || m[1] != "*" {
					return fail("inbound-address", "task t%d inbound tcp channel %s was told to bind %q", i, b.Name, addr)
				}
				p, _ := strconv.ParseUint(m[2], 10, 64)
				if !ports[i][p] {
					return fail("inbound-port-not-allocated", "task t%d inbound channel %s binds port %d, which is not among the ports launched for it", i, b.Name, p)
				}
				boundAddr[key] = fmt.Sprintf("tcp://%s:%d", host[i], p)
			}
			boundTransport[key] = tr
		}
	}
	// pairwise distinct endpoints per host
	seen := map[string]string{}
	for k, a := range boundAddr {
		if o, dup := seen[a]; dup {
			return fail("endpoint-shared", "inbound channels %s and %s were given the same endpoint %s", o, k, a)
		}
		seen[a] = k
	}
	for i, t := range c.Tasks {
		a := args[i]
		for _, cn := range t.Connects {
			addr, method, tr := a["chans."+cn.Name+".0.address"], a["chans."+cn.Name+".0.method"], a["chans."+cn.Name+".0.transport"]
			if method != "connect" {
				return fail("outbound-not-connect", "task t%d outbound channel %s was configured with method %q (address %q)", i, cn.Name, method, addr)
			}
			switch cn.Kind {
			case "explicit":
				if addr != cn.Explicit {
					return fail("explicit-target-changed", "task t%d outbound channel %s: explicit target %q was passed on as %q", i, cn.Name, cn.Explicit, addr)
				}
				if tr != cn.Transport {
					return fail("explicit-transport", "task t%d outbound channel %s with explicit target: transport %q, declared %q", i, cn.Name, tr, cn.Transport)
				}
			case "role", "alias":
				key := fmt.Sprintf("%d/%s", cn.ToTask, c.Tasks[cn.ToTask].Binds[cn.ToChan].Name)
				if addr != boundAddr[key] {
					return fail("outbound-wrong-address:"+cn.Kind, "task t%d outbound channel %s targets channel %s of t%d (host %s), which was bound at %q, but it was told to connect to %q", i, cn.Name,
						c.Tasks[cn.ToTask].Binds[cn.ToChan].Name, cn.ToTask, host[cn.ToTask], boundAddr[key], addr)
				}
				if tr != boundTransport[key] {
					return fail("outbound-transport", "task t%d outbound channel %s: transport %q, the inbound side uses %q", i, cn.Name, tr, boundTransport[key])
				}
			}
		}
	}
	return
}

func gen(t *rapid.T) Case {
	c := Case{}
	n := rapid.IntRange(2, 6).Draw(t, "ntasks")
	aliasN := 0
	for i := 0; i < n; i++ {
		ts := TaskSpec{Host: rapid.IntRange(0, 2).Draw(t, "host"), Mode: rapid.SampledFrom([]string{"direct", "fairmq"}).Draw(t, "mode"), NonCritical: rapid.IntRange(0, 3).Draw(t, "nonCritical") == 0}
		nb := rapid.IntRange(0, 3).Draw(t, "nbinds")
		for j := 0; j < nb; j++ {
			b := Bind{Name: fmt.Sprintf("in%d", j), Transport: rapid.SampledFrom([]string{"default", "zeromq", "shmem"}).Draw(t, "transport"),
				Addressing: rapid.SampledFrom([]string{"tcp", "tcp", "ipc"}).Draw(t, "addressing"), InClass: rapid.IntRange(0, 2).Draw(t, "inClass") == 0}
			if rapid.IntRange(0, 2).Draw(t, "global") == 0 {
				aliasN++
				b.Global = fmt.Sprintf("alias%d", aliasN)
			}
			if !b.InClass && rapid.IntRange(0, 3).Draw(t, "classToo") == 0 {
				b.ClassToo = true
			}
			if !b.InClass && !b.ClassToo && rapid.IntRange(0, 3).Draw(t, "bindAtGroup") == 0 {
				b.AtGroup = true
			}
			if !b.InClass && !b.AtGroup && rapid.IntRange(0, 4).Draw(t, "bindGroupToo") == 0 {
				b.GroupToo = true
			}
			if !b.InClass && !b.ClassToo && b.Global == "" && rapid.IntRange(0, 5).Draw(t, "explicitBind") == 0 {
				b.Explicit = rapid.SampledFrom([]string{"tcp://*:31999", "ipc://@fixed-pipe", "tcp://*:47000"}).Draw(t, "explicitTarget")
			}
			ts.Binds = append(ts.Binds, b)
		}
		c.Tasks = append(c.Tasks, ts)
	}
	// connections
	var bound [][2]int
	for i, ts := range c.Tasks {
		for j := range ts.Binds {
			if ts.Binds[j].Explicit == "" {
				bound = append(bound, [2]int{i, j})
			}
		}
	}
	for i := range c.Tasks {
		nc := rapid.IntRange(0, 3).Draw(t, "nconnects")
		for j := 0; j < nc; j++ {
			cn := Connect{Name: fmt.Sprintf("out%d", j), Transport: rapid.SampledFrom([]string{"default", "zeromq"}).Draw(t, "ctransport"), InClass: rapid.IntRange(0, 3).Draw(t, "cinClass") == 0}
			kind := rapid.SampledFrom([]string{"role", "role", "role", "alias", "explicit", "unmatched"}).Draw(t, "ckind")
			if kind == "unmatched" && rapid.IntRange(0, 3).Draw(t, "reallyUnmatched") != 0 {
				kind = "role"
			}
			if len(bound) == 0 && (kind == "role" || kind == "alias") {
				kind = "explicit"
			}
			switch kind {
			case "role", "alias":
				b := bound[rapid.IntRange(0, len(bound)-1).Draw(t, "to")]
				cn.ToTask, cn.ToChan = b[0], b[1]
				if kind == "alias" && c.Tasks[b[0]].Binds[b[1]].Global == "" {
					kind = "role"
				}
			case "explicit":
				cn.Explicit = rapid.SampledFrom([]string{"tcp://10.0.0.7:5555", "ipc://@some-pipe", "tcp://otherhost.cern.ch:30000", "ipc:///tmp/x y"}).Draw(t, "explicit")
			}
			cn.Kind = kind
			if rapid.IntRange(0, 3).Draw(t, "atGroup") == 0 {
				cn.AtGroup = true
			} else if rapid.IntRange(0, 4).Draw(t, "groupToo") == 0 {
				cn.GroupToo = true
			}
			c.Tasks[i].Connects = append(c.Tasks[i].Connects, cn)
		}
	}
	// two tasks claiming one alias
	if rapid.IntRange(0, 7).Draw(t, "aliasConflict") == 0 {
		var withAlias [][2]int
		for _, b := range bound {
			if c.Tasks[b[0]].Binds[b[1]].Global != "" {
				withAlias = append(withAlias, b)
			}
		}
		if len(withAlias) >= 2 && withAlias[0][0] != withAlias[1][0] {
			c.Tasks[withAlias[1][0]].Binds[withAlias[1][1]].Global = c.Tasks[withAlias[0][0]].Binds[withAlias[0][1]].Global
			c.AliasConflict = true
		}
	}
	return c
}

func TestChannels(t *testing.T) {
	defer simworld.Discard()
	vh.Check(t, prop, gen, vh.Confirmed(run))
}

func TestFixed(t *testing.T) {
	defer simworld.Discard()
	prodcons := []TaskSpec{
		{Host: 0, Mode: "fairmq", Binds: []Bind{{Name: "data", Transport: "shmem", Addressing: "tcp", Global: "readout"}, {Name: "mon", Transport: "zeromq", Addressing: "ipc"}}},
		{Host: 1, Mode: "direct", Connects: []Connect{{Name: "from-prod", Kind: "role", ToTask: 0, ToChan: 0, Transport: "default"}, {Name: "via-alias", Kind: "alias", ToTask: 0, ToChan: 0, Transport: "zeromq", AtGroup: true},
			{Name: "fixed", Kind: "explicit", Explicit: "tcp://10.1.2.3:4444", Transport: "zeromq", InClass: true}}},
		{Host: 0, Mode: "fairmq", Connects: []Connect{{Name: "ipc-in", Kind: "role", ToTask: 0, ToChan: 1, Transport: "default"}}},
	}
	vh.Fixed(t, prop, "producer-consumers", Case{Tasks: prodcons}, vh.Confirmed(run))
	un := append([]TaskSpec{}, prodcons...)
	un = append(un, TaskSpec{Host: 2, Mode: "direct", Connects: []Connect{{Name: "lost", Kind: "unmatched", Transport: "default"}}})
	vh.Fixed(t, prop, "unmatched-target", Case{Tasks: un}, vh.Confirmed(run))
	un2 := append([]TaskSpec{}, prodcons...)
	un2 = append(un2, TaskSpec{Host: 2, Mode: "direct", NonCritical: true, Connects: []Connect{{Name: "lost", Kind: "unmatched", Transport: "default"}}})
	vh.Fixed(t, prop, "unmatched-target-on-a-non-critical-task", Case{Tasks: un2}, vh.Confirmed(run))
	// two producers on two hosts, same alias: both get the same port number on their host
	vh.Fixed(t, prop, "alias-conflict-same-port", Case{AliasConflict: true, Tasks: []TaskSpec{
		{Host: 0, Mode: "fairmq", Binds: []Bind{{Name: "data", Transport: "zeromq", Addressing: "tcp", Global: "readout"}}},
		{Host: 1, Mode: "fairmq", Binds: []Bind{{Name: "data", Transport: "zeromq", Addressing: "tcp", Global: "readout"}}},
		{Host: 2, Mode: "direct", Connects: []Connect{{Name: "in", Kind: "alias", ToTask: 0, ToChan: 0, Transport: "default"}}}}}, vh.Confirmed(run))
	vh.Fixed(t, prop, "inbound-channel-declared-on-the-aggregator", Case{Tasks: []TaskSpec{
		{Host: 0, Mode: "fairmq", Binds: []Bind{{Name: "data", Transport: "zeromq", Addressing: "tcp", AtGroup: true}, {Name: "own", Transport: "shmem", Addressing: "tcp"}}},
		{Host: 1, Mode: "direct", Connects: []Connect{{Name: "in", Kind: "role", ToTask: 0, ToChan: 0, Transport: "default"}, {Name: "in2", Kind: "role", ToTask: 0, ToChan: 1, Transport: "default"}}}}}, vh.Confirmed(run))
	vh.Fixed(t, prop, "inbound-channel-with-explicit-target", Case{Tasks: []TaskSpec{
		{Host: 0, Mode: "fairmq", Binds: []Bind{{Name: "fixed", Transport: "zeromq", Addressing: "tcp", Explicit: "tcp://*:31999"}, {Name: "data", Transport: "zeromq", Addressing: "tcp"}}},
		{Host: 1, Mode: "direct", Connects: []Connect{{Name: "in", Kind: "role", ToTask: 0, ToChan: 1, Transport: "default"}}}}}, vh.Confirmed(run))
	vh.Fixed(t, prop, "nearest-declaration-wins-over-the-aggregator", Case{Tasks: []TaskSpec{
		{Host: 0, Mode: "fairmq", Binds: []Bind{{Name: "data", Transport: "shmem", Addressing: "tcp", GroupToo: true}}},
		{Host: 1, Mode: "fairmq", Connects: []Connect{{Name: "in", Kind: "role", ToTask: 0, ToChan: 0, Transport: "default", GroupToo: true}}}}}, vh.Confirmed(run))
	vh.Fixed(t, prop, "role-level-wins", Case{Tasks: []TaskSpec{
		{Host: 0, Mode: "fairmq", Binds: []Bind{{Name: "data", Transport: "shmem", Addressing: "tcp", ClassToo: true}}},
		{Host: 1, Mode: "fairmq", Connects: []Connect{{Name: "in", Kind: "role", ToTask: 0, ToChan: 0, Transport: "default"}}}}}, vh.Confirmed(run))
}

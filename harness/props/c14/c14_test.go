package c14

import (
	"fmt"
	"os"
	"sort"
	"strings"
	"sync/atomic"
	"testing"
	texttemplate "text/template"
	"time"

	"github.com/AliceO2Group/Control/common/gera"
	"github.com/AliceO2Group/Control/configuration/template"
	pb "github.com/AliceO2Group/Control/core/protos"
	"pgregory.net/rapid"

	"verifharness/simworld"
	"verifharness/vh"
)

const prop = "C14"

var keys = []string{"k0", "k1", "k2", "k3", "k4"}

// KV: absent key = not in the map; "" = defined empty
type KV map[string]string

// ---------------------------------------------------------------------------------------------
// (A1) gera.Map against a list-of-maps model

type GeraOp struct {
	Kind  string // set | del | wrap | unwrap
	Map   int
	Other int
	Key   string
	Val   string
}

type GeraCase struct {
	N   int
	Ops []GeraOp
}

func runGera(c GeraCase) (res vh.Result) {
	maps := make([]*gera.WrapMap[string, string], c.N)
	model := make([]map[string]string, c.N)
	parent := make([]int, c.N)
	for i := range maps {
		maps[i] = gera.MakeMap[string, string]()
		model[i] = map[string]string{}
		parent[i] = -1
	}
	flat := func(i int) map[string]string {
		// nearest definition wins: walk from the outermost ancestor down
		chain := []int{}
		for j := i; j >= 0; j = parent[j] {
			chain = append(chain, j)
		}
		out := map[string]string{}
		for k := len(chain) - 1; k >= 0; k-- {
			for key, v := range model[chain[k]] {
				out[key] = v
			}
		}
		return out
	}
	inChain := func(i, j int) bool { // is j an ancestor-or-self of i
		for x := i; x >= 0; x = parent[x] {
			if x == j {
				return true
			}
		}
		return false
	}
	wraps, empties := 0, 0
	for oi, op := range c.Ops {
		i := op.Map % c.N
		switch op.Kind {
		case "set":
			maps[i].Set(op.Key, op.Val)
			model[i][op.Key] = op.Val
			if op.Val == "" {
				empties++
			}
		case "del":
			maps[i].Del(op.Key)
			delete(model[i], op.Key)
		case "wrap":
			j := op.Other % c.N
			if inChain(j, i) { // would create a cycle
				continue
			}
			maps[i].Wrap(maps[j])
			parent[i] = j
			wraps++
		case "unwrap":
			maps[i].Unwrap()
			parent[i] = -1
		}
		for m := 0; m < c.N; m++ {
			want := flat(m)
			got, err := maps[m].Flattened()
			if err != nil {
				res.Violation = fmt.Sprintf("after op %d: Flattened: %v", oi, err)
				res.Signature = "gera:error"
				return
			}
			if fmt.Sprint(sorted(got)) != fmt.Sprint(sorted(want)) {
				res.Violation = fmt.Sprintf("after op %d (%+v): map %d flattens to %v, the nearest-definition model gives %v", oi, op, m, sorted(got), sorted(want))
				res.Signature = "gera:flattened"
				return
			}
			for _, k := range keys {
				gv, gok := maps[m].Get(k)
				wv, wok := want[k]
				if gok != wok || gv != wv || maps[m].Has(k) != wok {
					res.Violation = fmt.Sprintf("after op %d: map %d Get(%s) = (%q,%v), model (%q,%v)", oi, m, k, gv, gok, wv, wok)
					res.Signature = "gera:get"
					return
				}
			}
			if maps[m].Len() != len(want) {
				res.Violation = fmt.Sprintf("after op %d: map %d Len() = %d, model %d", oi, m, maps[m].Len(), len(want))
				res.Signature = "gera:len"
				return
			}
		}
		// WrappedAndFlattened(m) = this map's own entries over the flattened m, without changing the hierarchy
		j := op.Other % c.N
		waf, _ := maps[i].WrappedAndFlattened(maps[j])
		want := flat(j)
		for k, v := range model[i] {
			want[k] = v
		}
		if fmt.Sprint(sorted(waf)) != fmt.Sprint(sorted(want)) {
			res.Violation = fmt.Sprintf("after op %d: WrappedAndFlattened(%d over %d) = %v, want %v", oi, i, j, sorted(waf), sorted(want))
			res.Signature = "gera:wrapped-and-flattened"
			return
		}
	}
	res.NonTrivial = wraps >= 2 && empties >= 1
	if wraps >= 2 {
		res.Classes = append(res.Classes, "chain>=3")
	}
	if empties > 0 {
		res.Classes = append(res.Classes, "empty-value")
	}
	return
}

func sorted(m map[string]string) []string {
	out := []string{}
	for k, v := range m {
		out = append(out, k+"="+v)
	}
	sort.Strings(out)
	return out
}

func genVal(t *rapid.T, tag string) string {
	if rapid.IntRange(0, 3).Draw(t, "empty") == 0 {
		return ""
	}
	return tag
}

func TestGeraMap(t *testing.T) {
	vh.Check(t, prop, func(t *rapid.T) GeraCase {
		c := GeraCase{N: rapid.IntRange(1, 5).Draw(t, "n")}
		n := rapid.IntRange(1, 30).Draw(t, "ops")
		for i := 0; i < n; i++ {
			op := GeraOp{Kind: rapid.SampledFrom([]string{"set", "set", "set", "del", "wrap", "wrap", "unwrap"}).Draw(t, "kind"), Map: rapid.IntRange(0, 4).Draw(t, "map"), Other: rapid.IntRange(0, 4).Draw(t, "other"),
				Key: rapid.SampledFrom(keys).Draw(t, "key")}
			op.Val = genVal(t, fmt.Sprintf("v%d", i))
			c.Ops = append(c.Ops, op)
		}
		return c
	}, runGera)
}

// ---------------------------------------------------------------------------------------------
// (A2) what each template-evaluation stage can see

type StageCase struct {
	Levels []struct{ Defaults, Vars, UserVars KV } // outermost first; the last one is the role itself
	Locals KV
}

func chain(levels []KV) *gera.WrapMap[string, string] {
	var cur *gera.WrapMap[string, string]
	for _, l := range levels {
		m := map[string]string{}
		for k, v := range l {
			m[k] = v
		}
		w := gera.MakeMapWithMap(m)
		if cur != nil {
			w.Wrap(cur)
		}
		cur = w
	}
	return cur
}

func runStage(c StageCase) (res vh.Result) {
	var ds, vs, us []KV
	for _, l := range c.Levels {
		ds, vs, us = append(ds, l.Defaults), append(vs, l.Vars), append(us, l.UserVars)
	}
	n := len(c.Levels)
	// reference: nearest definition within a kind; user vars over vars over defaults; locals on top; the role's own
	// maps of a kind become visible from the documented stage on
	visible := func(stage int, key string) (string, bool) {
		if v, ok := c.Locals[key]; ok {
			return v, true
		}
		type kind struct {
			levels  []KV
			ownFrom int
		}
		for _, kd := range []kind{{us, 4}, {vs, 3}, {ds, 2}} {
			top := n - 1
			if stage < kd.ownFrom {
				top = n - 2
			}
			for j := top; j >= 0; j-- {
				if v, ok := kd.levels[j][key]; ok {
					return v, true
				}
			}
		}
		return "", false
	}
	multi := false
	for _, key := range keys {
		defs := 0
		for _, l := range c.Levels {
			for _, m := range []KV{l.Defaults, l.Vars, l.UserVars} {
				if _, ok := m[key]; ok {
					defs++
				}
			}
		}
		if defs >= 2 {
			multi = true
		}
	}
	res.NonTrivial = multi && n >= 2
	for stage := 0; stage <= 5; stage++ {
		for _, key := range keys {
			want, ok := visible(stage, key)
			field := "<{{ " + key + " }}>"
			seq := template.Sequence{template.Stage(stage): template.Fields{template.WrapPointer(&field)}}
			stack := template.VarStack{Locals: c.Locals, Defaults: chain(ds), Vars: chain(vs), UserVars: chain(us)}
			err := seq.Execute(nil, "role", stack, func(template.Stage) map[string]interface{} { return nil }, nil, make(map[string]texttemplate.Template), nil, template.NullCallback)
			if ok {
				if err != nil {
					res.Violation = fmt.Sprintf("stage %d: key %s should be visible with value %q, evaluation failed: %v", stage, key, want, err)
					res.Signature = "stage:invisible"
					return
				}
				if field != "<"+want+">" {
					res.Violation = fmt.Sprintf("stage %d: key %s evaluates to %s, the documented visibility/precedence gives <%s>", stage, key, field, want)
					res.Signature = "stage:wrong-value"
					return
				}
			} else if err == nil {
				res.Violation = fmt.Sprintf("stage %d: key %s should not be visible yet, but evaluates to %s", stage, key, field)
				res.Signature = "stage:visible-too-early"
				return
			}
		}
	}
	return
}

func genKV(t *rapid.T, tag string) KV {
	m := KV{}
	for _, k := range keys {
		switch rapid.IntRange(0, 4).Draw(t, "presence") {
		case 0:
			m[k] = ""
		case 1, 2:
			m[k] = tag + "-" + k
		}
	}
	return m
}

func TestStageVisibility(t *testing.T) {
	vh.Check(t, prop, func(t *rapid.T) StageCase {
		c := StageCase{}
		n := rapid.IntRange(1, 4).Draw(t, "levels")
		for i := 0; i < n; i++ {
			c.Levels = append(c.Levels, struct{ Defaults, Vars, UserVars KV }{genKV(t, fmt.Sprintf("D%d", i)), genKV(t, fmt.Sprintf("V%d", i)), genKV(t, fmt.Sprintf("U%d", i))})
		}
		c.Locals = KV{}
		if rapid.Bool().Draw(t, "locals") {
			c.Locals[rapid.SampledFrom(keys).Draw(t, "lkey")] = "LOCAL"
		}
		return c
	}, runStage)
}

// ---------------------------------------------------------------------------------------------
// (B) whole core: every role, the launched task and a call see the value of the highest-ranking source

type Level struct{ Defaults, Vars KV }

type EnvCase struct {
	Levels                     []Level // 0 = workflow root ... last = the task role
	ConsulDefaults, ConsulVars KV
	Request                    KV
	ClassDefaults, ClassVars   KV
	IteratorAt                 int  // 0 = none, otherwise the aggregator level that is an iterator over ["x","y"]
	InnerIterator              bool // the task role itself is generated by an iterator over ["0","1"] that uses the same variable name (it)
	// IncludeAt: 0 = none, otherwise the aggregator level that is an include role: its own defaults/vars (and iterator variable) are
	// written at the include site, everything below it lives in a second workflow file whose root defines nothing itself
	IncludeAt int
}

var caseSeq int64

func world() (*simworld.World, error) {
	return simworld.Shared("default", 25, func() simworld.Options {
		ag, det := simworld.DefaultAgents()
		return simworld.Options{Agents: ag, Detectors: det}
	})
}

func yamlMap(name string, m KV, indent string) string {
	if len(m) == 0 {
		return ""
	}
	ks := make([]string, 0, len(m))
	for k := range m {
		ks = append(ks, k)
	}
	sort.Strings(ks)
	s := indent + name + ":\n"
	for _, k := range ks {
		s += fmt.Sprintf("%s  %s: \"%s\"\n", indent, k, m[k])
	}
	return s
}

func runEnv(c EnvCase) (res vh.Result) {
	w, err := world()
	if err != nil {
		res.Inconclusive = "world: " + err.Error()
		return
	}
	n := atomic.AddInt64(&caseSeq, 1)
	wf := fmt.Sprintf("wf%dx%d", os.Getpid(), n)
	cls := fmt.Sprintf("y%dx%d", os.Getpid(), n)
	depth := len(c.Levels)
	var sb strings.Builder
	fmt.Fprintf(&sb, "name: %s\n", wf)
	rootDefaults := KV{"deploy_timeout": "6s"}
	for k, v := range c.Levels[0].Defaults {
		rootDefaults[k] = v
	}
	sb.WriteString(yamlMap("defaults", rootDefaults, ""))
	sb.WriteString(yamlMap("vars", c.Levels[0].Vars, ""))
	sb.WriteString("roles:\n")
	indent := "  "
	var sub strings.Builder
	subName := fmt.Sprintf("sub%dx%d", os.Getpid(), n)
	cur := &sb
	for lvl := 1; lvl < depth; lvl++ {
		last := lvl == depth-1
		name := fmt.Sprintf("r%d", lvl)
		if c.IteratorAt == lvl && !last {
			fmt.Fprintf(cur, "%s- name: \"r%d-{{ it }}\"\n%s  for:\n%s    range: '[\"x\",\"y\"]'\n%s    var: it\n", indent, lvl, indent, indent, indent)
		} else if last && c.InnerIterator {
			// the task role is generated by an iterator (same variable name as an outer iterator, if any)
			rng := `["0","1"]`
			if c.IteratorAt > 0 && c.IteratorAt < depth-1 {
				rng = `["{{ it }}0","{{ it }}1"]` // the inner range is an expression over the outer iteration variable
			}
			fmt.Fprintf(cur, "%s- name: \"t-{{ it }}\"\n%s  for:\n%s    range: '%s'\n%s    var: it\n", indent, indent, indent, rng, indent)
		} else {
			fmt.Fprintf(cur, "%s- name: %s\n", indent, name)
		}
		cur.WriteString(yamlMap("defaults", c.Levels[lvl].Defaults, indent+"  "))
		cur.WriteString(yamlMap("vars", c.Levels[lvl].Vars, indent+"  "))
		if last {
			fmt.Fprintf(cur, "%s  constraints:\n%s    - attribute: machine_id\n%s      value: hosta\n%s  task:\n%s    load: %s\n", indent, indent, indent, indent, indent, cls)
		} else {
			if c.IncludeAt == lvl {
				fmt.Fprintf(cur, "%s  include: %s\n", indent, subName)
				cur = &sub
				fmt.Fprintf(cur, "name: %s\nroles:\n", subName)
				indent = "  "
			} else {
				fmt.Fprintf(cur, "%s  roles:\n", indent)
				indent += "    "
			}
			// a call next to the next level, to see what a call at this level sees
			fmt.Fprintf(cur, "%s- name: probe%d\n%s  call:\n%s    func: verifprobe.P(\"vars%d\")\n%s    trigger: before_CONFIGURE\n%s    timeout: 5s\n%s    critical: false\n", indent, lvl, indent, indent, lvl, indent, indent, indent)
		}
	}
	if depth == 1 {
		fmt.Fprintf(&sb, "  - name: t\n    constraints:\n      - attribute: machine_id\n        value: hosta\n    task:\n      load: %s\n", cls)
	}
	w.WriteWorkflow(wf, sb.String())
	if sub.Len() > 0 {
		w.WriteWorkflow(subName, sub.String())
	}
	// the task template: every key has a class default, so that the command line can always be rendered
	cd := KV{}
	for _, k := range keys {
		cd[k] = "CD-" + k
	}
	for k, v := range c.ClassDefaults {
		cd[k] = v
	}
	cd["it"] = "CD-it"
	// a default of the task template that is itself an expression over the role's variables: resolved per task, against the stack of
	// the role that runs it (the template object is shared by all tasks of the class)
	cd["kx"] = "X{{ it }}"
	cmdTpl := []string{"it=<{{ it }}>", "kx=<{{ kx }}>"}
	props := "properties:\n"
	for _, k := range keys {
		cmdTpl = append(cmdTpl, k+"=<{{ "+k+" }}>")
		props += fmt.Sprintf("  p%s: \"<{{ %s }}>\"\n", k, k)
	}
	classYAML := fmt.Sprintf("name: %s\n%s%scontrol:\n  mode: direct\nwants:\n  cpu: 0.1\n  memory: 64\n%scommand:\n  shell: true\n  value: \"echo %s\"\n", cls, yamlMap("defaults", cd, ""), yamlMap("vars", c.ClassVars, ""), props, strings.Join(cmdTpl, " "))
	w.WriteTask(cls, classYAML)
	for k, v := range c.ConsulDefaults {
		w.Consul.Put("o2/runtime/aliecs/defaults/"+k, v)
	}
	for k, v := range c.ConsulVars {
		w.Consul.Put("o2/runtime/aliecs/vars/"+k, v)
	}
	defer func() {
		for _, k := range keys {
			w.Consul.Delete("o2/runtime/aliecs/defaults/" + k)
			w.Consul.Delete("o2/runtime/aliecs/vars/" + k)
		}
	}()
	defer func() {
		res.History = map[string]interface{}{"workflow": sb.String(), "included": sub.String(), "class": classYAML, "world_log_tail": w.LogLines(30)}
	}()
	fail := func(sig, f string, a ...interface{}) vh.Result {
		res.Violation = fmt.Sprintf(f, a...)
		res.Signature = sig
		simworld.Discard()
		return res
	}
	req := map[string]string{}
	for k, v := range c.Request {
		req[k] = v
	}
	mark := len(w.Master.Calls())
	taskMark := len(w.Master.Tasks())
	env, cerr := w.NewEnv(wf, req, 40*time.Second)
	if cerr != nil {
		if strings.Contains(cerr.Error(), "deployment timed out") {
			res.Inconclusive = "deployment did not finish (machine under load): " + cerr.Error()
			simworld.Discard()
			return
		}
		return fail("creation-failed", "creation failed: %v", cerr)
	}
	defer w.Destroy(env.Id, true, true, false, 30*time.Second)

	// ---- reference resolver for the role at level lvl
	ref := func(lvl int, key string) (string, bool) {
		if lvl > depth-1 {
			lvl = depth - 1 // roles without maps of their own see what their parent sees
		}
		if v, ok := c.Request[key]; ok {
			return v, true
		}
		for j := lvl; j >= 0; j-- {
			if v, ok := c.Levels[j].Vars[key]; ok {
				return v, true
			}
		}
		if v, ok := c.ConsulVars[key]; ok {
			return v, true
		}
		for j := lvl; j >= 0; j-- {
			if v, ok := c.Levels[j].Defaults[key]; ok {
				return v, true
			}
		}
		if v, ok := c.ConsulDefaults[key]; ok {
			return v, true
		}
		return "", false
	}
	multi, hasEmpty := false, false
	for _, key := range keys {
		kinds, lvls := map[string]bool{}, map[int]bool{}
		for j, l := range c.Levels {
			if v, ok := l.Defaults[key]; ok {
				kinds["d"], lvls[j] = true, true
				hasEmpty = hasEmpty || v == ""
			}
			if v, ok := l.Vars[key]; ok {
				kinds["v"], lvls[j] = true, true
				hasEmpty = hasEmpty || v == ""
			}
		}
		if _, ok := c.Request[key]; ok {
			kinds["u"] = true
		}
		if _, ok := c.ConsulVars[key]; ok {
			kinds["v"] = true
			lvls[-1] = true
		}
		if _, ok := c.ConsulDefaults[key]; ok {
			kinds["d"] = true
			lvls[-1] = true
		}
		if len(kinds) >= 2 && len(lvls) >= 2 {
			multi = true
		}
	}
	res.NonTrivial = multi && hasEmpty
	if multi {
		res.Classes = append(res.Classes, "key-in-2-kinds-at-2-levels")
	}
	if hasEmpty {
		res.Classes = append(res.Classes, "empty-value")
	}
	if c.IteratorAt > 0 && c.IteratorAt < depth-1 {
		res.Classes = append(res.Classes, "iterator")
	}
	res.Classes = append(res.Classes, fmt.Sprintf("depth:%d", depth))

	// ---- (i) consolidated stack of every role reported by the API
	ge, err := w.GetEnv(env.Id, true)
	if err != nil {
		return fail("api-error", "GetEnvironment: %v", err)
	}
	innerOf := map[string]string{} // task id -> value of the inner iteration variable
	itOf := map[string]string{}    // task id -> "it" in the consolidated stack of its role ("" = not defined by the workflow)
	var walk func(r *pb.RoleInfo, lvl int) string
	walk = func(r *pb.RoleInfo, lvl int) string {
		if strings.HasPrefix(r.Name, "probe") {
			lvl-- // a call role sits beside the next level and sees the stack of the level above
			_ = lvl
			return ""
		}
		for _, key := range keys {
			want, ok := ref(lvl, key)
			got, gok := r.ConsolidatedStack[key]
			if ok != gok || want != got {
				return fmt.Sprintf("role %s (level %d): key %s resolves to (%q, defined=%v), the documented precedence gives (%q, defined=%v)", r.FullPath, lvl, key, got, gok, want, ok)
			}
		}
		if c.IteratorAt > 0 && lvl >= c.IteratorAt && c.IteratorAt < depth-1 && !(c.InnerIterator && strings.HasPrefix(r.Name, "t-")) {
			it := r.ConsolidatedStack["it"]
			if !strings.Contains(r.FullPath, fmt.Sprintf("r%d-%s", c.IteratorAt, it)) || it == "" {
				return fmt.Sprintf("role %s: iteration variable it=%q does not match the generated role", r.FullPath, it)
			}
		}
		if c.InnerIterator && strings.HasPrefix(r.Name, "t-") {
			want := strings.TrimPrefix(r.Name, "t-")
			if c.IteratorAt > 0 && c.IteratorAt < depth-1 {
				// generated from the outer element: below r<k>-x only t-x0 and t-x1
				outer := ""
				for _, seg := range strings.Split(r.FullPath, ".") {
					if strings.HasPrefix(seg, fmt.Sprintf("r%d-", c.IteratorAt)) {
						outer = strings.TrimPrefix(seg, fmt.Sprintf("r%d-", c.IteratorAt))
					}
				}
				if outer == "" || !strings.HasPrefix(want, outer) {
					return fmt.Sprintf("role %s: the inner iterator ranges over [\"{{ it }}0\",\"{{ it }}1\"] of the outer element %q, yet it generated %s", r.FullPath, outer, r.Name)
				}
			}
			if r.ConsolidatedStack["it"] != want {
				return fmt.Sprintf("role %s is generated by the inner iterator for it=%q but its consolidated stack has it=%q (the nearest definition must win)", r.FullPath, want, r.ConsolidatedStack["it"])
			}
			for _, id := range r.TaskIds {
				innerOf[id] = want
			}
		}
		for _, id := range r.TaskIds {
			itOf[id] = r.ConsolidatedStack["it"]
		}
		for _, ch := range r.Roles {
			if v := walk(ch, lvl+1); v != "" {
				return v
			}
		}
		return ""
	}
	if v := walk(ge.Workflow, 0); v != "" {
		return fail("role-precedence", "%s", v)
	}
	// ---- (ii) what the tasks received: command line and CONFIGURE properties
	taskWant := func(key string) (string, bool) {
		if v, ok := ref(depth-1, key); ok {
			return v, true
		}
		if _, inV := c.ClassVars[key]; inV {
			return "", false // the template defines the key both in its defaults (every key has one here) and in its vars: their relative rank is not claimed
		}
		return cd[key], true
	}
	for _, t := range w.Master.Tasks()[taskMark:] {
		if simworld.ClassOf(t) != cls {
			continue
		}
		val, _ := t.Cmd["value"].(string)
		if want, ok := innerOf[t.ID]; ok && !strings.Contains(val, "it=<"+want+">") {
			return fail("task-iterator-local", "task %s of the role generated for it=%q was launched with %q", t.ID, want, val)
		}
		if it, known := itOf[t.ID]; known {
			want := "X" + it
			if it == "" {
				want = "XCD-it"
			}
			if !strings.Contains(val, "kx=<"+want+">") {
				return fail("template-default-expression", "task %s, whose role has it=%q, was launched with %q; the task template's default kx: \"X{{ it }}\" should have given kx=<%s>", t.ID, it, val, want)
			}
		}
		for _, key := range keys {
			if want, ok := taskWant(key); ok && !strings.Contains(val, key+"=<"+want+">") {
				return fail("task-command-precedence", "task %s was launched with %q; key %s should be <%s> (workflow values rank above the task template's own)", t.ID, val, key, want)
			}
		}
	}
	for _, cl := range w.Master.Calls()[mark:] {
		if cl.Type == "MESSAGE" && cl.Command != nil && cl.Command.Event == "CONFIGURE" {
			if t := w.Master.Task(cl.TaskID); t != nil && simworld.ClassOf(t) == cls {
				for _, key := range keys {
					if want, ok := taskWant(key); ok && cl.Command.Arguments["p"+key] != "<"+want+">" {
						return fail("task-property-precedence", "task %s was configured with p%s=%q, expected <%s>", t.ID, key, cl.Command.Arguments["p"+key], want)
					}
				}
			}
		}
	}
	// ---- (iii) what the calls saw
	for _, p := range w.Probes() {
		if p.Env != env.Id || p.Phase != "start" || !strings.HasPrefix(p.Arg, "vars") {
			continue
		}
		var lvl int
		fmt.Sscanf(p.Arg, "vars%d", &lvl)
		for _, key := range keys {
			want, ok := ref(lvl, key)
			got, gok := p.Vars[key]
			if ok != gok || want != got {
				return fail("call-precedence", "call %s (inside level %d) saw %s=(%q, defined=%v), the documented precedence gives (%q, defined=%v)", p.Role, lvl, key, got, gok, want, ok)
			}
		}
	}
	return
}

func genEnv(t *rapid.T) EnvCase {
	c := EnvCase{}
	depth := rapid.IntRange(1, 5).Draw(t, "depth")
	for i := 0; i < depth; i++ {
		c.Levels = append(c.Levels, Level{genKV(t, fmt.Sprintf("L%dd", i)), genKV(t, fmt.Sprintf("L%dv", i))})
	}
	c.ConsulDefaults, c.ConsulVars = genKV(t, "CSd"), genKV(t, "CSv")
	c.Request = KV{}
	for _, k := range keys {
		if rapid.IntRange(0, 4).Draw(t, "req") == 0 {
			c.Request[k] = genVal(t, "REQ-"+k)
		}
	}
	c.ClassDefaults, c.ClassVars = genKV(t, "Cd"), genKV(t, "Cv")
	if depth >= 3 && rapid.Bool().Draw(t, "iter") {
		c.IteratorAt = rapid.IntRange(1, depth-2).Draw(t, "iterAt")
	}
	if depth >= 2 && rapid.IntRange(0, 2).Draw(t, "innerIter") == 0 {
		c.InnerIterator = true
	}
	if depth >= 3 && rapid.IntRange(0, 2).Draw(t, "include") == 0 {
		c.IncludeAt = rapid.IntRange(1, depth-2).Draw(t, "includeAt")
	}
	return c
}

func TestPrecedence(t *testing.T) {
	defer simworld.Discard()
	vh.Check(t, prop, genEnv, vh.Confirmed(runEnv))
}

func TestPrecedenceFixed(t *testing.T) {
	defer simworld.Discard()
	vh.Fixed(t, prop, "all-sources", EnvCase{
		Levels:         []Level{{KV{"k0": "rootD", "k1": "rootD", "k2": "rootD"}, KV{"k1": "rootV"}}, {KV{"k0": "midD", "k3": ""}, KV{"k2": "", "k3": "midV"}}, {KV{"k1": "leafD", "k4": "leafD"}, KV{"k0": "leafV"}}},
		ConsulDefaults: KV{"k4": "consulD", "k0": "consulD"}, ConsulVars: KV{"k4": "consulV"}, Request: KV{"k3": "REQ"}, ClassDefaults: KV{"k2": "classD"}, ClassVars: KV{"k1": "classV"}, IteratorAt: 1}, vh.Confirmed(runEnv))
	vh.Fixed(t, prop, "include-role-with-definitions-of-its-own", EnvCase{
		Levels:    []Level{{KV{"k0": "rootD", "k1": "rootD"}, KV{"k2": "rootV"}}, {KV{"k0": "inclD", "k3": "inclD"}, KV{"k2": "inclV", "k4": "inclV"}}, {KV{"k3": "leafD"}, KV{}}},
		IncludeAt: 1, ConsulDefaults: KV{"k4": "consulD"}, ConsulVars: KV{}, Request: KV{}, ClassDefaults: KV{}, ClassVars: KV{}}, vh.Confirmed(runEnv))
	vh.Fixed(t, prop, "iterated-include-role", EnvCase{
		Levels:     []Level{{KV{"k0": "rootD"}, KV{}}, {KV{"k0": "inclD"}, KV{"k1": "inclV"}}, {KV{}, KV{}}, {KV{"k2": "leafD"}, KV{}}},
		IteratorAt: 1, IncludeAt: 1, ConsulDefaults: KV{}, ConsulVars: KV{}, Request: KV{}, ClassDefaults: KV{}, ClassVars: KV{}}, vh.Confirmed(runEnv))
	vh.Fixed(t, prop, "nested-iterators-same-variable", EnvCase{
		Levels:     []Level{{KV{"k0": "rootD"}, KV{}}, {KV{}, KV{"k1": "midV"}}, {KV{"k2": "leafD"}, KV{}}},
		IteratorAt: 1, InnerIterator: true, ConsulDefaults: KV{}, ConsulVars: KV{}, Request: KV{}, ClassDefaults: KV{}, ClassVars: KV{}}, vh.Confirmed(runEnv))
}

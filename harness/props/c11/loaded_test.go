package c11

// The fold on trees as the loader really builds them: iterators (over task roles, aggregators and included
// sub-workflows) expanded by workflow.ProcessTemplates (overlay hook H4), instead of the already expanded trees of
// TestFold. The question is the same: after every leaf update every role reports the fold of its critical descendants.

import (
	"fmt"
	"io"
	"strings"
	"sync"
	"testing"

	"github.com/AliceO2Group/Control/core/repos"
	"github.com/AliceO2Group/Control/core/task/sm"
	"github.com/AliceO2Group/Control/core/workflow"
	"github.com/sirupsen/logrus"
	"github.com/spf13/viper"
	"pgregory.net/rapid"

	"verifharness/vh"
)

type LGroup struct {
	Kind     string // tasks | iter-task | iter-agg | iter-include
	N        int    // iterator elements (1-3)
	Critical []bool // criticality of the (up to 2) task roles of the group / of each generated role / of the included workflow's tasks
	Side     int    // 0: none; 1: a critical task next to the iterator; 2: a non-critical one
	Nested   bool   // the group sits inside one more aggregator
}

type LCase struct {
	Groups     []LGroup
	Concurrent bool // template processing switches on
	Updates    []Update
}

var loadedOnce sync.Once
var loadedRepo repos.Repo

func (c LCase) docs() (string, string, map[string]bool) {
	crit := map[string]bool{} // leaf role *name* -> critical
	var sb strings.Builder
	sb.WriteString("name: root\nroles:\n")
	elems := []string{"a", "b", "c"}
	inclCrit := []bool{true, false}
	for gi, g := range c.Groups {
		ind := "  "
		if g.Nested {
			fmt.Fprintf(&sb, "  - name: outer%d\n    roles:\n", gi)
			ind = "      "
		}
		fmt.Fprintf(&sb, "%s- name: g%d\n%s  roles:\n", ind, gi, ind)
		in := ind + "    "
		q := []string{}
		for _, e := range elems[:g.N] {
			q = append(q, `"`+e+`"`)
		}
		iter := fmt.Sprintf("%s  for:\n%s    range: '[%s]'\n%s    var: it%d\n", in, in, strings.Join(q, ","), in, gi)
		cr := func(k int) bool { return k < len(g.Critical) && g.Critical[k] }
		task := func(indent, name string, critical bool) {
			fmt.Fprintf(&sb, "%s- name: %s\n%s  task:\n%s    load: cls\n%s    critical: %v\n", indent, name, indent, indent, indent, critical)
		}
		switch g.Kind {
		case "tasks":
			for k := 0; k < 2; k++ {
				n := fmt.Sprintf("p%dx%d", gi, k)
				task(in, n, cr(k))
				crit[n] = cr(k)
			}
		case "iter-task":
			fmt.Fprintf(&sb, "%s- name: \"q%d-{{ it%d }}\"\n%s%s  task:\n%s    load: cls\n%s    critical: %v\n", in, gi, gi, iter, in, in, in, cr(0))
			for _, e := range elems[:g.N] {
				crit[fmt.Sprintf("q%d-%s", gi, e)] = cr(0)
			}
		case "iter-agg":
			fmt.Fprintf(&sb, "%s- name: \"a%d-{{ it%d }}\"\n%s%s  roles:\n", in, gi, gi, iter, in)
			for k := 0; k < 2; k++ {
				n := fmt.Sprintf("r%dx%d", gi, k)
				task(in+"    ", n, cr(k))
				crit[n] = cr(k)
			}
		case "iter-include":
			fmt.Fprintf(&sb, "%s- name: \"i%d-{{ it%d }}\"\n%s%s  include: included\n", in, gi, gi, iter, in)
			if len(g.Critical) >= 2 {
				inclCrit = g.Critical[:2]
			}
		}
		switch g.Side {
		case 1, 2:
			n := fmt.Sprintf("s%d", gi)
			task(in, n, g.Side == 1)
			crit[n] = g.Side == 1
		}
	}
	incl := fmt.Sprintf("name: included\nroles:\n  - name: w1\n    task:\n      load: cls\n      critical: %v\n  - name: w2\n    task:\n      load: cls\n      critical: %v\n", inclCrit[0], inclCrit[1])
	crit["w1"], crit["w2"] = inclCrit[0], inclCrit[1]
	return sb.String(), incl, crit
}

func runLoaded(c LCase) (res vh.Result) {
	loadedOnce.Do(func() {
		viper.Set("config_endpoint", "mock://")
		logrus.SetLevel(logrus.PanicLevel)
		logrus.SetOutput(io.Discard)
		_, loadedRepo, _ = repos.NewRepo("/home/user/git/ControlWorkflows", "", "/var/lib/o2/aliecs/repos")
	})
	for _, n := range []string{"concurrentWorkflowTemplateProcessing", "concurrentWorkflowTemplateIteratorProcessing", "concurrentIteratorRoleExpansion"} {
		viper.Set(n, c.Concurrent)
	}
	rootDoc, inclDoc, crit := c.docs()
	root, err := workflow.VerifLoad([]byte(rootDoc), map[string][]byte{"included": []byte(inclDoc)}, &loadedRepo, map[string]string{})
	if err != nil {
		res.Inconclusive = "load: " + err.Error()
		return
	}
	hist := []string{}
	defer func() { res.History = map[string]interface{}{"workflow": rootDoc, "included": inclDoc, "steps": hist} }()
	type node struct {
		r    workflow.Role
		path string
	}
	var all, leaves []node
	var walk func(r workflow.Role)
	walk = func(r workflow.Role) {
		all = append(all, node{r, r.GetPath()})
		if len(r.GetRoles()) == 0 {
			if _, ok := r.(workflow.PublicUpdatable); ok {
				leaves = append(leaves, node{r, r.GetPath()})
			}
		}
		for _, ch := range r.GetRoles() {
			walk(ch)
		}
	}
	walk(root)
	if len(leaves) == 0 {
		res.Inconclusive = "no task leaves"
		return
	}
	leafCrit := func(p string) bool { return crit[p[strings.LastIndex(p, ".")+1:]] }
	state := map[string]string{}
	for _, l := range leaves {
		state[l.path] = "STANDBY"
	}
	hasIter, hasInclude := false, false
	for _, g := range c.Groups {
		if strings.HasPrefix(g.Kind, "iter") {
			hasIter = true
		}
		if g.Kind == "iter-include" {
			hasInclude = true
		}
	}
	errSeen := false
	for k, u := range c.Updates {
		l := leaves[u.Leaf%len(leaves)]
		l.r.(workflow.PublicUpdatable).UpdateState(sm.StateFromString(u.Value))
		state[l.path] = u.Value
		if u.Value == "ERROR" {
			errSeen = true
		}
		hist = append(hist, fmt.Sprintf("%d: %s -> %s (critical=%v)", k, l.path, u.Value, leafCrit(l.path)))
		for _, n := range all {
			var vals []leafVal
			for _, lf := range leaves {
				if lf.path == n.path || strings.HasPrefix(lf.path, n.path+".") {
					vals = append(vals, leafVal{state: state[lf.path], critical: leafCrit(lf.path)})
				}
			}
			want := foldState(vals)
			if want == "" {
				continue // no critical descendant: no opinion, own value not claimed
			}
			if got := n.r.GetState().String(); got != want {
				res.Violation = fmt.Sprintf("after update %d (%s -> %s): role %s reports state %s, the fold of its critical descendants is %s", k, l.path, u.Value, n.path, got, want)
				res.Signature = "loaded-tree-state:" + got + "-want-" + want
				return
			}
		}
	}
	res.NonTrivial = hasIter && errSeen
	res.Classes = []string{"loaded-tree"}
	if hasInclude {
		res.Classes = append(res.Classes, "iterator-over-include")
	}
	if c.Concurrent {
		res.Classes = append(res.Classes, "concurrent-template-processing")
	}
	return
}

func genLoaded(t *rapid.T) LCase {
	c := LCase{Concurrent: rapid.Bool().Draw(t, "concurrent")}
	ng := rapid.IntRange(1, 3).Draw(t, "groups")
	for i := 0; i < ng; i++ {
		g := LGroup{Kind: rapid.SampledFrom([]string{"tasks", "iter-task", "iter-agg", "iter-include", "iter-include"}).Draw(t, "kind"), N: rapid.IntRange(1, 3).Draw(t, "n"),
			Critical: []bool{rapid.IntRange(0, 3).Draw(t, "c0") > 0, rapid.IntRange(0, 3).Draw(t, "c1") > 0}, Side: rapid.IntRange(0, 2).Draw(t, "side"), Nested: rapid.Bool().Draw(t, "nested")}
		c.Groups = append(c.Groups, g)
	}
	nu := rapid.IntRange(1, 20).Draw(t, "updates")
	for i := 0; i < nu; i++ {
		c.Updates = append(c.Updates, Update{Leaf: rapid.IntRange(0, 40).Draw(t, "leaf"), What: "state", Value: rapid.SampledFrom([]string{"CONFIGURED", "RUNNING", "ERROR", "CONFIGURED", "RUNNING", "STANDBY", "DONE"}).Draw(t, "value")})
	}
	return c
}

func TestFoldLoaded(t *testing.T) { vh.Check(t, prop, genLoaded, runLoaded) }

func TestFoldLoadedFixed(t *testing.T) {
	// an iterator over an included sub-workflow inside a group that has no critical task of its own: a critical task of one of the
	// included copies fails
	vh.Fixed(t, prop, "loaded/iterator-over-include-under-group", LCase{Groups: []LGroup{{Kind: "iter-include", N: 2, Critical: []bool{true, false}, Side: 2}, {Kind: "tasks", Critical: []bool{true, true}}},
		Updates: []Update{{Leaf: 0, What: "state", Value: "RUNNING"}, {Leaf: 2, What: "state", Value: "ERROR"}, {Leaf: 5, What: "state", Value: "RUNNING"}}}, runLoaded)
	vh.Fixed(t, prop, "loaded/nested-iterated-aggregator", LCase{Concurrent: true, Groups: []LGroup{{Kind: "iter-agg", N: 3, Critical: []bool{false, true}, Nested: true}},
		Updates: []Update{{Leaf: 1, What: "state", Value: "CONFIGURED"}, {Leaf: 3, What: "state", Value: "ERROR"}, {Leaf: 5, What: "state", Value: "CONFIGURED"}}}, runLoaded)
}

package c11

import (
	"encoding/json"
	"fmt"
	"os"
	"path/filepath"
	"testing"

	"verifharness/vh"
)

// TestConcurrentSavedCase repeats a saved, schedule-dependent case (found by TestFold under load): a 27-role tree
// whose leaves are updated by one goroutine each. On the pinned tree about 1 run in 230 left role root.n12 in ERROR
// although none of its critical descendants was (a stale ERROR taken over by SafeState.merge).
func TestConcurrentSavedCase(t *testing.T) {
	dir := os.Getenv("VERIF_HARNESS_DIR")
	if dir == "" {
		dir = "/verif/harness"
	}
	b, err := os.ReadFile(filepath.Join(dir, "props/c11/testdata/stale_error_case.json"))
	if err != nil {
		t.Fatal(err)
	}
	var doc struct{ Case Case }
	if err := json.Unmarshal(b, &doc); err != nil {
		t.Fatal(err)
	}
	n := vh.Scale(1500, 30000)
	bad, first := 0, ""
	for i := 0; i < n; i++ {
		if res := run(doc.Case); res.Violation != "" {
			bad++
			if first == "" {
				first = res.Violation
			}
		}
	}
	res := vh.Result{NonTrivial: true, Classes: []string{"concurrent", "saved-case-repeated"}}
	if bad > 0 {
		res.Violation = fmt.Sprintf("%d of %d concurrent runs of the saved case ended inconsistent; first: %s", bad, n, first)
		res.Signature = "concurrent:saved-case"
	}
	vh.Fixed(t, prop, "saved-27-role-tree-concurrent", doc.Case, func(Case) vh.Result { return res })
}

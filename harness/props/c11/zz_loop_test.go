package c11

import (
	"encoding/json"
	"fmt"
	"os"
	"path/filepath"
	"testing"

	"verifharness/vh"
)

// TestConcurrentSavedCase repeats a saved, schedule-dependent case (found by TestFold under load): a 27-role tree
// whose leaves are updated by one goroutine each. On the pinned tree about 1 run in 230 left role root.n12 in ERROR
// although none of its critical descendants was (a stale ERROR taken over by SafeState.merge).
func TestConcurrentSavedCase(t *testing.T) {
	dir := os.Getenv("VERIF_HARNESS_DIR")
	if dir == "" {
		dir = "/verif/harness"
	}
	b, err := os.ReadFile(filepath.Join(dir, "props/c11/testdata/stale_error_case.json"))
	if err != nil {
		t.Fatal(err)
	}
	var doc struct{ Case Case }
	if err := json.Unmarshal(b, &doc); err != nil {
		t.Fatal(err)
	}
	n := vh.Scale(1500, 30000)
	bad, first := 0, ""
	for i := 0; i < n; i++ {
		cs := doc.Case
		if i%2 == 1 {
			// every other repetition with a yield pattern (a function of the repetition number) in the update prologues
			cs.Yields = []int{i % 3, (i / 3) % 4, (i / 12) % 2, 0, (i / 24) % 5}
		}
		if res := run(cs); res.Violation != "" {
			bad++
			if first == "" {
				first = res.Violation
			}
		}
	}
	res := vh.Result{NonTrivial: true, Classes: []string{"concurrent", "saved-case-repeated"}}
	if bad > 0 {
		res.Violation = fmt.Sprintf("%d of %d concurrent runs of the saved case ended inconsistent; first: %s", bad, n, first)
		res.Signature = "concurrent:saved-case"
	}
	vh.Fixed(t, prop, "saved-27-role-tree-concurrent", doc.Case, func(Case) vh.Result { return res })
}

// TestConcurrentDeployment repeats the status side of a deployment: every task of a small tree reports ACTIVE at the same time
// (the task manager handles each Mesos status update in a goroutine of its own), under yield patterns that hold one update in
// its parent's prologue while the others run to the root. At quiescence every role must be ACTIVE.
func TestConcurrentDeployment(t *testing.T) {
	tree := &Node{Name: "root", Kind: "agg", Children: []*Node{
		{Name: "a", Kind: "agg", Children: []*Node{
			{Name: "s", Kind: "agg", Children: []*Node{{Name: "t1", Kind: "task", Critical: true}, {Name: "t2", Kind: "task", Critical: true}}},
			{Name: "t3", Kind: "task", Critical: false}}},
		{Name: "b", Kind: "agg", Children: []*Node{{Name: "t4", Kind: "task", Critical: true}, {Name: "t5", Kind: "task", Critical: true}}},
	}}
	base := Case{Tree: tree, Concurrent: true, Perm: []int{1}}
	for i := 0; i < 5; i++ {
		base.Updates = append(base.Updates, Update{Leaf: i, What: "status", Value: "ACTIVE"})
	}
	n := vh.Scale(3000, 60000)
	bad, first := 0, ""
	var firstCase Case
	for i := 0; i < n; i++ {
		cs := base
		// one long stay (100-300 us) among short ones, at a position that moves with the repetition number
		pat := make([]int, 5+i%4)
		pat[i%len(pat)] = 5 + (i/7)%11
		cs.Yields = pat
		if res := run(cs); res.Violation != "" {
			bad++
			if first == "" {
				first, firstCase = res.Violation, cs
			}
		}
	}
	res := vh.Result{NonTrivial: true, Classes: []string{"concurrent", "deployment-status-repeated"}}
	if bad > 0 {
		res.Violation = fmt.Sprintf("%d of %d concurrent deployments ended inconsistent; first: %s", bad, n, first)
		res.Signature = "concurrent:deployment-status"
	} else {
		firstCase = base
	}
	vh.Fixed(t, prop, "five-tasks-report-active-at-once", firstCase, func(Case) vh.Result { return res })
}

package c11

import (
	"fmt"
	"runtime"
	"sort"
	"strings"
	"sync"
	"sync/atomic"
	"testing"
	"time"

	"github.com/AliceO2Group/Control/common/event"
	"github.com/AliceO2Group/Control/common/gera"
	"github.com/AliceO2Group/Control/common/utils/uid"
	"github.com/AliceO2Group/Control/core/task"
	"github.com/AliceO2Group/Control/core/task/sm"
	"github.com/AliceO2Group/Control/core/workflow"
	"pgregory.net/rapid"

	"verifharness/vh"
)

const prop = "C11"

// Node of a generated role tree.
type Node struct {
	Name     string
	Kind     string // agg | task | call
	Critical bool   // leaves only
	Children []*Node
}

type Update struct {
	Leaf  int    // index into the leaves in tree order
	What  string // state | status
	Value string
}

type Case struct {
	Tree       *Node
	Updates    []Update
	Concurrent bool  // one goroutine per leaf, each leaf's own updates stay ordered
	Perm       []int // permutation seed for the metamorphic variant (children order / arrival order)
	Yields     []int // concurrent mode: what the k-th request for the environment id does (0 = yield the processor, n = sleep n x 20 us)
}

func (n *Node) yaml(b *strings.Builder, indent string, root bool) {
	if root {
		fmt.Fprintf(b, "name: %s\n", n.Name)
		b.WriteString("roles:\n")
		for _, c := range n.Children {
			c.yaml(b, "  ", false)
		}
		return
	}
	fmt.Fprintf(b, "%s- name: %s\n", indent, n.Name)
	switch n.Kind {
	case "agg":
		fmt.Fprintf(b, "%s  roles:\n", indent)
		for _, c := range n.Children {
			c.yaml(b, indent+"    ", false)
		}
	case "task":
		fmt.Fprintf(b, "%s  task:\n%s    load: dummy\n%s    critical: %v\n", indent, indent, indent, n.Critical)
	case "call":
		fmt.Fprintf(b, "%s  call:\n%s    func: noop()\n%s    trigger: before_START_ACTIVITY\n%s    critical: %v\n", indent, indent, indent, indent, n.Critical)
	}
}

type leafRef struct {
	path     string
	critical bool
}

func (n *Node) walk(prefix string, fn func(path string, n *Node)) {
	p := n.Name
	if prefix != "" {
		p = prefix + "." + n.Name
	}
	fn(p, n)
	for _, c := range n.Children {
		c.walk(p, fn)
	}
}

func (n *Node) leaves() []leafRef {
	var out []leafRef
	n.walk("", func(p string, x *Node) {
		if x.Kind != "agg" {
			out = append(out, leafRef{p, x.Critical})
		}
	})
	return out
}

type built struct {
	root    workflow.Role
	byPath  map[string]workflow.Role
	adapter chan sm.State
}

func build(tree *Node) (*built, error) { return buildYielding(tree, nil) }

// buildYielding: the environment-side callbacks of the role tree are the harness's. Every update asks for the environment id in its
// prologue (between reading the child's value and merging it into the parent); with a yield pattern that callback gives the
// processor away or sleeps a few tens of microseconds, which widens exactly the window in which concurrent updates overtake
// each other. The pattern is part of the case (drawn by rapid), not a random source of its own.
func buildYielding(tree *Node, yields []int) (*built, error) {
	var sb strings.Builder
	tree.yaml(&sb, "", true)
	envId := uid.New()
	empty := func() gera.Map[string, string] { return gera.MakeMap[string, string]() }
	var calls int64
	getId := func() uid.ID {
		if len(yields) > 0 {
			k := atomic.AddInt64(&calls, 1)
			if y := yields[int(k)%len(yields)]; y > 0 {
				time.Sleep(time.Duration(y) * 20 * time.Microsecond)
			} else {
				runtime.Gosched()
			}
		}
		return envId
	}
	pa := workflow.NewParentAdapter(getId, func() uint32 { return 0 }, empty, empty, empty, func(event.Event) {})
	ch := make(chan sm.State, 100000)
	pa.SubscribeToStateChange("verif", ch)
	root, err := workflow.VerifUnmarshalWorkflow([]byte(sb.String()), pa)
	if err != nil {
		return nil, fmt.Errorf("%v\n%s", err, sb.String())
	}
	b := &built{root: root, byPath: map[string]workflow.Role{}, adapter: ch}
	workflow.Walk(root, func(r workflow.Role) { b.byPath[r.GetPath()] = r })
	return b, nil
}

// ---- reference fold, written from the property statement ----

type leafVal struct {
	state, status string
	critical      bool
}

// foldState over the critical leaf descendants: none -> "" (no opinion), any ERROR -> ERROR, all equal -> that, else MIXED
func foldState(vals []leafVal) string {
	var seen []string
	for _, v := range vals {
		if v.critical && v.state != "INVARIANT" { // a call whose hooks were collected has no opinion (TestHooksCollected)
			seen = append(seen, v.state)
		}
	}
	if len(seen) == 0 {
		return ""
	}
	all := true
	for _, s := range seen {
		if s == "ERROR" {
			return "ERROR"
		}
		if s != seen[0] {
			all = false
		}
	}
	if all {
		return seen[0]
	}
	return "MIXED"
}

// foldStatus over all leaf descendants
func foldStatus(vals []leafVal) string {
	if len(vals) == 0 {
		return ""
	}
	allA, allI := true, true
	for _, v := range vals {
		if v.status == "UNDEPLOYABLE" {
			return "UNDEPLOYABLE"
		}
		if v.status != "ACTIVE" {
			allA = false
		}
		if v.status != "INACTIVE" {
			allI = false
		}
	}
	switch {
	case allA:
		return "ACTIVE"
	case allI:
		return "INACTIVE"
	}
	return "PARTIAL"
}

// compare every node of the built tree with the fold of the model values
func compare(tree *Node, b *built, model map[string]*leafVal, when string) (violation, sig string) {
	tree.walk("", func(p string, n *Node) {
		if violation != "" {
			return
		}
		var vals []leafVal
		n.walk(strings.TrimSuffix(strings.TrimSuffix(p, n.Name), "."), func(lp string, x *Node) {
			if x.Kind != "agg" {
				vals = append(vals, *model[lp])
			}
		})
		r := b.byPath[p]
		if r == nil {
			violation = "role " + p + " missing from the built tree"
			sig = "missing-role"
			return
		}
		gotState, gotStatus := r.GetState().String(), r.GetStatus().String()
		if n.Kind != "agg" {
			// a leaf reports what it was told
			if model[p].state == "INVARIANT" && r.GetState() == sm.INVARIANT {
				gotState = "INVARIANT"
			}
			if gotState != model[p].state || gotStatus != model[p].status {
				violation = fmt.Sprintf("%s: leaf %s reports state=%s status=%s, was told state=%s status=%s", when, p, gotState, gotStatus, model[p].state, model[p].status)
				sig = "leaf-value"
			}
			return
		}
		if want := foldState(vals); want != "" && gotState != want {
			crit := []string{}
			for _, v := range vals {
				if v.critical {
					crit = append(crit, v.state)
				}
			}
			violation = fmt.Sprintf("%s: role %s reports state %s, the fold of its critical descendants %v is %s", when, p, gotState, crit, want)
			sig = "state:" + gotState + "-want-" + want
			return
		}
		if want := foldStatus(vals); want != "" && gotStatus != want {
			st := []string{}
			for _, v := range vals {
				st = append(st, v.status)
			}
			violation = fmt.Sprintf("%s: role %s reports status %s, the fold of its descendants %v is %s", when, p, gotStatus, st, want)
			sig = "status:" + gotStatus + "-want-" + want
		}
	})
	return
}

func apply(r workflow.Role, u Update) {
	pu := r.(workflow.PublicUpdatable)
	if u.What == "state" {
		pu.UpdateState(sm.StateFromString(u.Value))
	} else {
		pu.UpdateStatus(statusFromString(u.Value))
	}
}

func statusFromString(s string) task.Status {
	switch s {
	case "INACTIVE":
		return task.INACTIVE
	case "ACTIVE":
		return task.ACTIVE
	case "UNDEPLOYABLE":
		return task.UNDEPLOYABLE
	case "PARTIAL":
		return task.PARTIAL
	}
	return task.UNDEFINED
}

func permuteTree(n *Node, perm []int, k *int) *Node {
	c := &Node{Name: n.Name, Kind: n.Kind, Critical: n.Critical}
	kids := append([]*Node(nil), n.Children...)
	// deterministic shuffle driven by perm
	for i := len(kids) - 1; i > 0; i-- {
		j := 0
		if len(perm) > 0 {
			j = perm[*k%len(perm)] % (i + 1)
			*k++
		}
		kids[i], kids[j] = kids[j], kids[i]
	}
	for _, ch := range kids {
		c.Children = append(c.Children, permuteTree(ch, perm, k))
	}
	return c
}

func run(c Case) (res vh.Result) {
	var yields []int
	if c.Concurrent {
		yields = c.Yields
	}
	b, err := buildYielding(c.Tree, yields)
	if err != nil {
		res.Inconclusive = "build: " + err.Error()
		return
	}
	leaves := c.Tree.leaves()
	if len(leaves) == 0 {
		res.Inconclusive = "no leaves"
		return
	}
	model := map[string]*leafVal{}
	for _, l := range leaves {
		model[l.path] = &leafVal{state: "STANDBY", status: "INACTIVE", critical: l.critical}
	}
	// classes
	depth := 0
	var dep func(n *Node, d int)
	dep = func(n *Node, d int) {
		if d > depth {
			depth = d
		}
		for _, ch := range n.Children {
			dep(ch, d+1)
		}
	}
	dep(c.Tree, 0)
	hasCrit, hasNon, hasErr, hasStatusChange := false, false, false, false
	for _, l := range leaves {
		if l.critical {
			hasCrit = true
		} else {
			hasNon = true
		}
	}
	everCritError := false
	for _, u := range c.Updates {
		l := leaves[u.Leaf%len(leaves)]
		if u.What == "state" && u.Value == "ERROR" {
			hasErr = true
			if l.critical {
				everCritError = true
			}
		}
		if u.What == "status" {
			hasStatusChange = true
		}
	}
	res.NonTrivial = depth >= 2 && hasCrit && hasNon && (hasErr || hasStatusChange)
	res.Classes = []string{fmt.Sprintf("depth:%d", depth)}
	if c.Concurrent {
		res.Classes = append(res.Classes, "concurrent")
	}
	if hasErr {
		res.Classes = append(res.Classes, "has-ERROR")
	}
	if hasCrit && hasNon {
		res.Classes = append(res.Classes, "mixed-criticality")
	}
	excl := ""
	hist := []string{}
	res.History = &hist

	if !c.Concurrent {
		for i, u := range c.Updates {
			l := leaves[u.Leaf%len(leaves)]
			apply(b.byPath[l.path], u)
			if u.What == "state" {
				model[l.path].state = u.Value
			} else {
				model[l.path].status = u.Value
			}
			hist = append(hist, fmt.Sprintf("%d: %s %s=%s", i, l.path, u.What, u.Value))
			if v, sig := compare(c.Tree, b, model, fmt.Sprintf("after update %d (%s %s=%s)", i, l.path, u.What, u.Value)); v != "" {
				res.Violation, res.Signature = v, sig
				return
			}
		}
	} else {
		per := map[int][]Update{}
		for _, u := range c.Updates {
			per[u.Leaf%len(leaves)] = append(per[u.Leaf%len(leaves)], u)
		}
		var wg sync.WaitGroup
		start := make(chan struct{})
		for li, us := range per {
			wg.Add(1)
			go func(li int, us []Update) {
				defer wg.Done()
				<-start
				for _, u := range us {
					apply(b.byPath[leaves[li].path], u)
				}
			}(li, us)
		}
		close(start)
		wg.Wait()
		for _, u := range c.Updates {
			l := leaves[u.Leaf%len(leaves)]
			if u.What == "state" {
				model[l.path].state = u.Value
			} else {
				model[l.path].status = u.Value
			}
		}
		if v, sig := compare(c.Tree, b, model, "at quiescence of the concurrent batch"); v != "" {
			res.Violation, res.Signature = v, "concurrent:"+sig
			return
		}
	}
	// what the parent of the root (the environment) was told
	sawError := false
	var lastSeen string
	for {
		select {
		case s := <-b.adapter:
			if s == sm.ERROR {
				sawError = true
			}
			lastSeen = s.String()
			continue
		default:
		}
		break
	}
	if everCritError && !sawError {
		res.Violation = "a critical task went to ERROR but the environment (parent of the root role) was never told ERROR"
		res.Signature = "error-lost-at-root"
		return
	}
	if !everCritError && sawError {
		res.Violation = "no critical task ever was in ERROR but the environment (parent of the root role) was told ERROR"
		res.Signature = "error-invented-at-root"
		return
	}
	if want := foldState(vals(model)); want != "" && lastSeen != "" && !c.Concurrent && lastSeen != want {
		res.Violation = fmt.Sprintf("the last state the environment was told is %s, the root fold is %s", lastSeen, want)
		res.Signature = "last-told"
		return
	}

	// metamorphic variant: children permuted in the YAML and arrival order of updates to different leaves permuted
	k := 0
	pt := permuteTree(c.Tree, c.Perm, &k)
	pb, err := build(pt)
	if err != nil {
		res.Inconclusive = "build permuted: " + err.Error()
		return
	}
	order := make([]int, len(c.Updates))
	for i := range order {
		order[i] = i
	}
	// stable re-ordering: move whole per-leaf subsequences around (keeps each leaf's own order)
	if len(c.Perm) > 0 {
		sort.SliceStable(order, func(a, b2 int) bool {
			la, lb := c.Updates[order[a]].Leaf%len(leaves), c.Updates[order[b2]].Leaf%len(leaves)
			return c.Perm[la%len(c.Perm)] < c.Perm[lb%len(c.Perm)]
		})
	}
	for _, i := range order {
		u := c.Updates[i]
		apply(pb.byPath[leaves[u.Leaf%len(leaves)].path], u)
	}
	for p, r := range b.byPath {
		pr := pb.byPath[p]
		if pr == nil {
			continue
		}
		// roles without critical descendants have no opinion; their own value is not compared
		if r.GetState() != pr.GetState() && hasCriticalBelow(c.Tree, p) {
			res.Violation = fmt.Sprintf("role %s: state %s with children/arrival order as given, %s with both permuted", p, r.GetState(), pr.GetState())
			res.Signature = "order-dependence:state"
			return
		}
		if r.GetStatus() != pr.GetStatus() {
			res.Violation = fmt.Sprintf("role %s: status %s with children/arrival order as given, %s with both permuted", p, r.GetStatus(), pr.GetStatus())
			res.Signature = "order-dependence:status"
			return
		}
	}
	res.ExcludedBy = excl
	return
}

func vals(m map[string]*leafVal) []leafVal {
	keys := make([]string, 0, len(m))
	for k := range m {
		keys = append(keys, k)
	}
	sort.Strings(keys)
	out := []leafVal{}
	for _, k := range keys {
		out = append(out, *m[k])
	}
	return out
}

func hasCriticalBelow(tree *Node, path string) bool {
	found := false
	tree.walk("", func(p string, n *Node) {
		if (p == path || strings.HasPrefix(p, path+".")) && n.Kind != "agg" && n.Critical {
			found = true
		}
	})
	return found
}

// ---- generators ----

var leafStates = []string{"STANDBY", "CONFIGURED", "RUNNING", "ERROR", "DONE"}
var leafStati = []string{"INACTIVE", "ACTIVE", "UNDEPLOYABLE"}

func genTree(t *rapid.T, depth int, counter *int, needCritical bool) *Node {
	*counter++
	name := fmt.Sprintf("n%d", *counter)
	if depth <= 0 || (depth < 4 && rapid.IntRange(0, 2).Draw(t, "leaf") == 0) {
		return &Node{Name: name, Kind: rapid.SampledFrom([]string{"task", "task", "task", "call"}).Draw(t, "kind"), Critical: rapid.IntRange(0, 2).Draw(t, "critical") > 0}
	}
	n := &Node{Name: name, Kind: "agg"}
	nc := rapid.IntRange(1, 4).Draw(t, "children")
	for i := 0; i < nc; i++ {
		n.Children = append(n.Children, genTree(t, depth-1, counter, needCritical))
	}
	return n
}

// ensureCriticalEverywhere: while finding KF-C11-no-critical-descendant is open, every aggregator gets a critical leaf descendant
func ensureCritical(n *Node) bool {
	if n.Kind != "agg" {
		return n.Critical
	}
	any := false
	for _, c := range n.Children {
		if ensureCritical(c) {
			any = true
		}
	}
	if !any {
		// make the first leaf below critical
		x := n
		for x.Kind == "agg" {
			x = x.Children[0]
		}
		x.Critical = true
	}
	return true
}

func gen(t *rapid.T) Case {
	cnt := 0
	root := &Node{Name: "root", Kind: "agg"}
	nc := rapid.IntRange(1, 4).Draw(t, "rootChildren")
	d := rapid.IntRange(0, 4).Draw(t, "depth")
	for i := 0; i < nc; i++ {
		root.Children = append(root.Children, genTree(t, d, &cnt, false))
	}
	c := Case{Tree: root, Concurrent: rapid.IntRange(0, 3).Draw(t, "concurrent") == 0}
	nl := len(root.leaves())
	nu := rapid.IntRange(1, 40).Draw(t, "updates")
	for i := 0; i < nu; i++ {
		u := Update{Leaf: rapid.IntRange(0, nl-1).Draw(t, "leaf")}
		if rapid.IntRange(0, 2).Draw(t, "what") < 2 {
			u.What = "state"
			u.Value = rapid.SampledFrom(leafStates).Draw(t, "state")
		} else {
			u.What = "status"
			u.Value = rapid.SampledFrom(leafStati).Draw(t, "status")
		}
		c.Updates = append(c.Updates, u)
	}
	c.Perm = rapid.SliceOfN(rapid.IntRange(0, 97), 1, 8).Draw(t, "perm")
	if c.Concurrent && rapid.Bool().Draw(t, "yielding") {
		c.Yields = rapid.SliceOfN(rapid.IntRange(0, 4), 1, 7).Draw(t, "yields")
	}
	return c
}

func TestFold(t *testing.T) {
	open := vh.Open("KF-C11-no-critical-descendant")
	vh.Check(t, prop, func(rt *rapid.T) Case {
		c := gen(rt)
		if open {
			ensureCritical(c.Tree)
		}
		return c
	}, func(c Case) vh.Result {
		r := run(c)
		if open {
			r.ExcludedBy = "KF-C11-no-critical-descendant"
		}
		return r
	})
}

func leaf(name string, critical bool) *Node { return &Node{Name: name, Kind: "task", Critical: critical} }
func agg(name string, ch ...*Node) *Node    { return &Node{Name: name, Kind: "agg", Children: ch} }

// canary for DESIGN section 9 observation j
func canaryCase() Case {
	return Case{Tree: agg("root", leaf("crit", true), agg("grp", leaf("nc", false))),
		Updates: []Update{{0, "status", "ACTIVE"}, {1, "status", "ACTIVE"}, {0, "state", "CONFIGURED"}, {1, "state", "CONFIGURED"}}, Perm: []int{1}}
}

func TestCanaryNoCriticalDescendant(t *testing.T) {
	vh.Canary(t, prop, "KF-C11-no-critical-descendant", canaryCase(), run)
}

func TestFoldFixed(t *testing.T) {
	if !vh.Open("KF-C11-no-critical-descendant") {
		vh.Fixed(t, prop, "aggregator-without-critical-descendant", canaryCase(), run)
	}
	// an ERROR listed after two disagreeing healthy siblings, then a sibling update forces a recompute
	vh.Fixed(t, prop, "error-after-mixed-siblings", Case{Tree: agg("root", agg("g", leaf("fast", true), leaf("slow", true), leaf("failing", true))),
		Updates: []Update{{0, "state", "CONFIGURED"}, {2, "state", "ERROR"}, {0, "state", "RUNNING"}, {1, "state", "CONFIGURED"}}, Perm: []int{2, 0, 1}}, run)
	vh.Fixed(t, prop, "error-recovers", Case{Tree: agg("root", agg("g", leaf("a", true), leaf("b", true)), leaf("c", true)),
		Updates: []Update{{0, "state", "ERROR"}, {1, "state", "CONFIGURED"}, {0, "state", "CONFIGURED"}, {2, "state", "CONFIGURED"}}, Perm: []int{3, 1}}, run)
	vh.Fixed(t, prop, "undeployable-deep", Case{Tree: agg("root", agg("g", agg("h", leaf("a", false), leaf("b", true))), leaf("c", true)),
		Updates: []Update{{0, "status", "ACTIVE"}, {1, "status", "UNDEPLOYABLE"}, {2, "status", "ACTIVE"}, {1, "status", "ACTIVE"}}, Perm: []int{5}}, run)
}

// ---- exhaustive algebra of State.X and Status.X ----

func TestAlgebraExhaustive(t *testing.T) {
	states := []sm.State{sm.UNKNOWN, sm.STANDBY, sm.CONFIGURED, sm.RUNNING, sm.ERROR, sm.DONE, sm.MIXED, sm.INVARIANT}
	n, nt := 0, 0
	fail := func(sig, msg string) {
		if m := vh.LogCase(prop, t.Name(), msg, vh.Result{Violation: msg, Signature: sig}); m != "" {
			t.Errorf("%s", m)
		}
	}
	for _, a := range states {
		for _, b := range states {
			n++
			if a.X(b) != b.X(a) {
				fail("algebra:state-commutativity", fmt.Sprintf("State.X not commutative: %s x %s = %s, %s x %s = %s", a, b, a.X(b), b, a, b.X(a)))
			}
			for _, c := range states {
				n++
				nt++
				if a.X(b).X(c) != a.X(b.X(c)) {
					fail("algebra:state-associativity", fmt.Sprintf("State.X not associative on %s,%s,%s", a, b, c))
				}
			}
		}
	}
	// agreement with the fold on every multiset of up to 4 leaf states
	ls := []sm.State{sm.STANDBY, sm.CONFIGURED, sm.RUNNING, sm.ERROR, sm.DONE}
	var rec func(cur []sm.State)
	rec = func(cur []sm.State) {
		if len(cur) > 0 {
			n++
			nt++
			acc := sm.INVARIANT
			vs := []leafVal{}
			for _, s := range cur {
				acc = acc.X(s)
				vs = append(vs, leafVal{state: s.String(), critical: true})
			}
			if acc.String() != foldState(vs) {
				fail("algebra:state-fold", fmt.Sprintf("product of %v is %s, fold is %s", cur, acc, foldState(vs)))
			}
		}
		if len(cur) == 4 {
			return
		}
		for _, s := range ls {
			rec(append(append([]sm.State(nil), cur...), s))
		}
	}
	rec(nil)
	// Status.X against the union semantics
	rep := map[task.Status][]string{task.INACTIVE: {"INACTIVE"}, task.ACTIVE: {"ACTIVE"}, task.PARTIAL: {"ACTIVE", "INACTIVE"}, task.UNDEPLOYABLE: {"UNDEPLOYABLE"}}
	stati := []task.Status{task.INACTIVE, task.ACTIVE, task.PARTIAL, task.UNDEPLOYABLE}
	for _, a := range stati {
		for _, b := range stati {
			n++
			nt++
			vs := []leafVal{}
			for _, s := range append(append([]string{}, rep[a]...), rep[b]...) {
				vs = append(vs, leafVal{status: s})
			}
			if a.X(b).String() != foldStatus(vs) {
				fail("algebra:status-fold", fmt.Sprintf("Status %s x %s = %s, fold of the union is %s", a, b, a.X(b), foldStatus(vs)))
			}
			if a.X(b) != b.X(a) {
				fail("algebra:status-commutativity", fmt.Sprintf("Status.X not commutative on %s,%s", a, b))
			}
			for _, c := range stati {
				n++
				if a.X(b).X(c) != a.X(b.X(c)) {
					fail("algebra:status-associativity", fmt.Sprintf("Status.X not associative on %s,%s,%s", a, b, c))
				}
			}
		}
	}
	vh.Summary(t.Name(), n, nt, map[string]int{"algebra": n}, []interface{}{"all pairs/triples of the 8 states and 4 statuses; all multisets of <=4 leaf states against the fold"}, true)
}

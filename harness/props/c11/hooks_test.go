package c11

// Call roles in the life of an environment: they hold STANDBY after the load; every collection of hooks (GetAllHooks,
// GetHooksMapForTrigger - done at every transition moment) turns every call role INVARIANT, i.e. "no opinion", and from
// then on only task roles report states. TestHooksCollected interleaves hook collections (at the root or at a drawn
// aggregator) with state/status updates of task leaves and compares every role with the reference fold after each step:
// a critical call that has no opinion must not keep its ancestors on the state it held before.

import (
	"fmt"
	"testing"

	"github.com/AliceO2Group/Control/core/workflow"
	"pgregory.net/rapid"

	"verifharness/vh"
)

type HOp struct {
	Kind  string // hooks-all | hooks-trigger | state | status
	At    int    // hooks: which aggregator (index into the aggregators in walk order; 0 = root)
	Leaf  int    // state/status: which task leaf
	Value string
}

type HCase struct {
	Tree *Node
	Ops  []HOp
}

func runHooks(c HCase) (res vh.Result) {
	b, err := build(c.Tree)
	if err != nil {
		res.Inconclusive = "build: " + err.Error()
		return
	}
	model := map[string]*leafVal{}
	var taskLeaves, callLeaves, aggs []string
	kind := map[string]string{}
	c.Tree.walk("", func(p string, n *Node) {
		kind[p] = n.Kind
		switch n.Kind {
		case "agg":
			aggs = append(aggs, p)
		case "task":
			taskLeaves = append(taskLeaves, p)
			model[p] = &leafVal{state: "STANDBY", status: "INACTIVE", critical: n.Critical}
		case "call":
			callLeaves = append(callLeaves, p)
			model[p] = &leafVal{state: "STANDBY", status: "INACTIVE", critical: n.Critical}
		}
	})
	if len(taskLeaves) == 0 || len(callLeaves) == 0 {
		res.Inconclusive = "needs both task and call leaves"
		return
	}
	// an aggregator whose critical descendants are calls only, next to critical tasks elsewhere
	callsOnly := false
	for _, a := range aggs {
		critCall, critTask := false, false
		for p, v := range model {
			if len(p) > len(a) && p[:len(a)+1] == a+"." && v.critical {
				if kind[p] == "call" {
					critCall = true
				} else {
					critTask = true
				}
			}
		}
		if critCall && !critTask {
			callsOnly = true
		}
	}
	res.NonTrivial = true
	res.Classes = []string{fmt.Sprintf("calls:%d", min(len(callLeaves), 4))}
	if callsOnly {
		res.Classes = append(res.Classes, "aggregator-with-critical-calls-only")
	}
	hist := []string{}
	res.History = &hist
	for i, op := range c.Ops {
		what := ""
		switch op.Kind {
		case "hooks-all", "hooks-trigger":
			at := aggs[op.At%len(aggs)]
			r := b.byPath[at]
			if op.Kind == "hooks-all" {
				r.GetAllHooks()
			} else {
				r.GetHooksMapForTrigger("before_START_ACTIVITY")
			}
			for _, p := range callLeaves {
				if p == at || (len(p) > len(at) && p[:len(at)+1] == at+".") {
					model[p].state = "INVARIANT"
				}
			}
			what = fmt.Sprintf("%s at %s", op.Kind, at)
		case "state", "status":
			p := taskLeaves[op.Leaf%len(taskLeaves)]
			apply(b.byPath[p], Update{What: op.Kind, Value: op.Value})
			if op.Kind == "state" {
				model[p].state = op.Value
			} else {
				model[p].status = op.Value
			}
			what = fmt.Sprintf("%s %s=%s", p, op.Kind, op.Value)
		}
		hist = append(hist, fmt.Sprintf("%d: %s", i, what))
		if v, sig := compare(c.Tree, b, model, fmt.Sprintf("after step %d (%s)", i, what)); v != "" {
			res.Violation, res.Signature = v, "hooks:"+sig
			return
		}
	}
	_ = workflow.Walk
	return
}

func genHooks(t *rapid.T) HCase {
	cnt := 0
	root := &Node{Name: "root", Kind: "agg"}
	nc := rapid.IntRange(2, 4).Draw(t, "rootChildren")
	d := rapid.IntRange(0, 3).Draw(t, "depth")
	for i := 0; i < nc; i++ {
		root.Children = append(root.Children, genTree(t, d, &cnt, false))
	}
	// make sure both kinds are present, and often a group that holds nothing but calls
	cnt++
	root.Children = append(root.Children, &Node{Name: fmt.Sprintf("n%d", cnt), Kind: "task", Critical: true})
	if rapid.Bool().Draw(t, "callGroup") {
		g := &Node{Name: "hooksgroup", Kind: "agg"}
		for i := 0; i < rapid.IntRange(1, 3).Draw(t, "groupCalls"); i++ {
			cnt++
			g.Children = append(g.Children, &Node{Name: fmt.Sprintf("n%d", cnt), Kind: "call", Critical: rapid.IntRange(0, 3).Draw(t, "critical") > 0})
		}
		if rapid.IntRange(0, 2).Draw(t, "nonCriticalTaskBeside") == 0 {
			cnt++
			g.Children = append(g.Children, &Node{Name: fmt.Sprintf("n%d", cnt), Kind: "task", Critical: false})
		}
		root.Children = append(root.Children, g)
	} else {
		cnt++
		root.Children = append(root.Children, &Node{Name: fmt.Sprintf("n%d", cnt), Kind: "call", Critical: true})
	}
	c := HCase{Tree: root}
	n := rapid.IntRange(2, 25).Draw(t, "ops")
	for i := 0; i < n; i++ {
		var op HOp
		switch rapid.IntRange(0, 5).Draw(t, "kind") {
		case 0:
			op = HOp{Kind: "hooks-all", At: rapid.IntRange(0, 6).Draw(t, "at")}
		case 1:
			op = HOp{Kind: "hooks-trigger", At: rapid.SampledFrom([]int{0, 0, 0, 1, 2, 3}).Draw(t, "at")}
		case 2:
			op = HOp{Kind: "status", Leaf: rapid.IntRange(0, 30).Draw(t, "leaf"), Value: rapid.SampledFrom(leafStati).Draw(t, "status")}
		default:
			op = HOp{Kind: "state", Leaf: rapid.IntRange(0, 30).Draw(t, "leaf"), Value: rapid.SampledFrom(leafStates).Draw(t, "state")}
		}
		c.Ops = append(c.Ops, op)
	}
	return c
}

func TestHooksCollected(t *testing.T) {
	vh.Check(t, prop, genHooks, runHooks)
}

func TestHooksCollectedFixed(t *testing.T) {
	// the calls grouped under a role of their own, next to two critical tasks: load, collect hooks, tasks report CONFIGURED
	tree := &Node{Name: "root", Kind: "agg", Children: []*Node{
		{Name: "t1", Kind: "task", Critical: true},
		{Name: "t2", Kind: "task", Critical: true},
		{Name: "hooks", Kind: "agg", Children: []*Node{{Name: "c1", Kind: "call", Critical: true}, {Name: "c2", Kind: "call", Critical: false}}},
	}}
	vh.Fixed(t, prop, "hooks/call-group-then-tasks-configured", HCase{Tree: tree, Ops: []HOp{{Kind: "hooks-all"}, {Kind: "state", Leaf: 0, Value: "CONFIGURED"}, {Kind: "state", Leaf: 1, Value: "CONFIGURED"},
		{Kind: "hooks-trigger"}, {Kind: "state", Leaf: 0, Value: "RUNNING"}, {Kind: "state", Leaf: 1, Value: "RUNNING"}}}, runHooks)
	vh.Fixed(t, prop, "hooks/collected-below-the-group-only", HCase{Tree: tree, Ops: []HOp{{Kind: "hooks-trigger", At: 1}, {Kind: "state", Leaf: 0, Value: "CONFIGURED"}, {Kind: "state", Leaf: 1, Value: "CONFIGURED"}}}, runHooks)
}

package c06

import (
	"fmt"
	"os"
	"sort"
	"strings"
	"sync"
	"sync/atomic"
	"testing"
	"time"

	pb "github.com/AliceO2Group/Control/core/protos"
	mesos "github.com/mesos/mesos-go/api/v1/lib"
	"pgregory.net/rapid"

	"verifharness/simworld"
	"verifharness/vh"
)

const prop = "C06"

type DestroyHook struct {
	Trigger string // DESTROY | after_DESTROY
	Weight  int
}

type Case struct {
	NTasks      int
	Hooks       []DestroyHook // probe calls at teardown
	PendingCall bool          // a call started during creation whose await point (after_RESET) is normally never reached
	// either a destroy scenario ...
	Target       string // DEPLOYED | CONFIGURED | RUNNING | ERROR
	Force        bool
	AllowRunning bool
	KeepTasks    bool
	KillRefused  bool   // the master refuses the KILL calls (HTTP 503): the destroy cannot be honoured
	PreFault     string // "" | executor | task-failed : a task of the environment fails before the destroy is requested
	KillRefusedFirst bool // only the first KILL call is refused: the destroy still cannot be honoured
	HookTask     string // "" | ok | trigger-error : a hook task triggered at DESTROY; with trigger-error its executor answers the trigger with an error
	LeaveFail    bool   // Target DEPLOYED only: a critical call at leave_DEPLOYED fails during the teardown (logged, not a reason to keep anything)
	PreCleanup   bool   // before the destroy, CleanupTasks is requested with the ids of the environment's own (owned) tasks: a no-op
	// ... or a failing creation
	FailStage string // "" | template | detector | deploy-fail | deploy-noagent | configure | hook (a critical hook fails at before_CONFIGURE)
	// a critical call fails at weight FailW of before_CONFIGURE (FailStage hook) resp. before_START_ACTIVITY (Target ERROR) while
	// another call, started at weight LateW <= FailW of the same moment, waits to be collected at weight AwaitW > FailW
	HookFault            bool
	LateW, FailW, AwaitW int
}

var hostNames = []string{"hosta", "hostb", "hostc"}
var caseSeq int64

func world() (*simworld.World, error) {
	return simworld.Shared("default", 15, func() simworld.Options {
		ag, det := simworld.DefaultAgents()
		return simworld.Options{Agents: ag, Detectors: det}
	})
}

func countCallGoroutines(w *simworld.World) int {
	return strings.Count(w.Goroutines(), "callable.(*Call).Start.func1")
}

func run(c Case) (res vh.Result) {
	w, err := world()
	if err != nil {
		res.Inconclusive = "world: " + err.Error()
		return
	}
	if c.KillRefused || c.KillRefusedFirst {
		defer simworld.Discard() // an HTTP-level refusal disconnects the framework; do not reuse this world
	}
	n := atomic.AddInt64(&caseSeq, 1)
	wf := fmt.Sprintf("wf%dx%d", os.Getpid(), n)
	var sb strings.Builder
	hl := []string{}
	for i := 0; i < c.NTasks; i++ {
		hl = append(hl, `"`+hostNames[i%3]+`"`)
	}
	dt := "2s"
	if c.FailStage == "deploy-noresources" {
		dt = "8s" // the three deployment attempts, one second apart, are to end before the creation gives up
	}
	fmt.Fprintf(&sb, "name: %s\ndefaults:\n  deploy_timeout: %s\n  hosts: '[%s]'\nroles:\n", wf, dt, strings.Join(hl, ","))
	idx := map[string]int{}
	for i := 0; i < c.NTasks; i++ {
		cls := fmt.Sprintf("d%dx%dt%d", os.Getpid(), n, i)
		idx[cls] = i
		host := hostNames[i%3]
		if c.FailStage == "deploy-noagent" && i == 0 {
			host = "nosuchhost"
		}
		name := fmt.Sprintf("t%d", i)
		if c.FailStage == "template" && i == c.NTasks-1 {
			name = "t{{ no_such_function(1) }}"
		}
		classYAML := simworld.TaskClassYAML(cls, "direct", "")
		if c.FailStage == "deploy-noresources" {
			// every task on one machine, each wanting 10 of its 16 cpus: the first fits, the others never will
			host = "hosta"
			classYAML = strings.Replace(classYAML, "cpu: 0.1", "cpu: 10", 1)
		}
		fmt.Fprintf(&sb, "  - name: \"%s\"\n    constraints:\n      - attribute: machine_id\n        value: %s\n    task:\n      load: %s\n", name, host, cls)
		w.WriteTask(cls, classYAML)
	}
	for i, h := range c.Hooks {
		fmt.Fprintf(&sb, "  - name: dh%d\n    call:\n      func: verifprobe.P(\"destroyhook:%d\")\n      trigger: %s%+d\n      timeout: 5s\n      critical: false\n", i, i, h.Trigger, h.Weight)
	}
	hookCls := ""
	if c.HookTask != "" {
		hookCls = fmt.Sprintf("dk%dx%d", os.Getpid(), n)
		idx[hookCls] = 1000
		fmt.Fprintf(&sb, "  - name: dhook\n    constraints:\n      - attribute: machine_id\n        value: hostc\n    task:\n      load: %s\n      trigger: DESTROY\n      timeout: 3s\n      critical: false\n", hookCls)
		w.WriteTask(hookCls, simworld.TaskClassYAML(hookCls, "hook", ""))
	}
	if c.HookFault {
		ev := "START_ACTIVITY"
		if c.FailStage == "hook" {
			ev = "CONFIGURE"
		}
		fmt.Fprintf(&sb, "  - name: late\n    call:\n      func: verifprobe.P(\"late\")\n      trigger: before_%s%+d\n      await: before_%s%+d\n      timeout: 5s\n      critical: false\n", ev, c.LateW, ev, c.AwaitW)
		fmt.Fprintf(&sb, "  - name: bad\n    call:\n      func: verifprobe.P(\"bad\")\n      trigger: before_%s%+d\n      timeout: 5s\n      critical: true\n", ev, c.FailW)
	}
	if c.LeaveFail && c.Target == "DEPLOYED" {
		fmt.Fprintf(&sb, "  - name: leavebad\n    call:\n      func: verifprobe.P(\"leavebad\")\n      trigger: leave_DEPLOYED\n      timeout: 5s\n      critical: true\n")
	}
	if c.PendingCall {
		fmt.Fprintf(&sb, "  - name: pending\n    call:\n      func: verifprobe.P(\"pending\")\n      trigger: after_CONFIGURE\n      await: after_RESET\n      timeout: 5s\n      critical: false\n")
	}
	w.WriteWorkflow(wf, sb.String())

	steps := []string{}
	defer func() {
		res.History = map[string]interface{}{"workflow": sb.String(), "steps": steps, "world_log_tail": w.LogLines(120)}
	}()
	fail := func(sig, f string, a ...interface{}) vh.Result {
		res.Violation = fmt.Sprintf(f, a...)
		res.Signature = sig
		simworld.Discard()
		return res
	}
	mine := func(t *simworld.SimTask) bool { _, ok := idx[simworld.ClassOf(t)]; return ok }

	// a holder for the detector conflict stage
	holder := ""
	if c.FailStage == "detector" {
		hw := fmt.Sprintf("wfh%dx%d", os.Getpid(), n)
		hc := fmt.Sprintf("dh%dx%d", os.Getpid(), n)
		w.WriteTask(hc, simworld.TaskClassYAML(hc, "direct", ""))
		w.WriteWorkflow(hw, fmt.Sprintf("name: %s\ndefaults:\n  deploy_timeout: 2s\n  hosts: '[\"hosta\"]'\nroles:\n  - name: h\n    constraints:\n      - attribute: machine_id\n        value: hosta\n    task:\n      load: %s\n", hw, hc))
		he, err := w.NewEnv(hw, nil, 30*time.Second)
		if err != nil {
			res.Inconclusive = "holder creation failed: " + err.Error()
			simworld.Discard()
			return
		}
		holder = he.Id
	}

	var mu sync.Mutex
	refusedOne := false
	leaveArmed, leaveFailed := false, 0 // the leave_DEPLOYED hook fails only once the destroy was requested
	destroyProbeViolation := ""
	envId := ""
	w.OnProbe = func(p simworld.ProbeRec) simworld.ProbeReply {
		if p.Arg == "bad" {
			return simworld.ProbeReply{Fail: "injected failure of a critical hook"}
		}
		if p.Arg == "leavebad" {
			mu.Lock()
			armed := leaveArmed
			if armed {
				leaveFailed++
			}
			mu.Unlock()
			if armed {
				return simworld.ProbeReply{Fail: "injected failure of a critical hook at leave_DEPLOYED"}
			}
			return simworld.ProbeReply{}
		}
		if !strings.HasPrefix(p.Arg, "destroyhook:") {
			return simworld.ProbeReply{}
		}
		// DESTROY hooks run only after the other tasks were released: at this very moment no task may still be owned by the environment
		ts, err := w.TasksAPI()
		if err == nil {
			for _, t := range ts {
				if st := w.Master.Task(t.TaskId); st != nil && hookCls != "" && simworld.ClassOf(st) == hookCls {
					continue // the DESTROY hook task itself is released after the hooks ran
				}
				if t.Locked {
					ctx, cancel := simworld.Ctx(5 * time.Second)
					gt, err := w.Cli.GetTask(ctx, &pb.GetTaskRequest{TaskId: t.TaskId})
					cancel()
					mu.Lock()
					if err == nil && gt.GetTask().GetEnvId() == p.Env && destroyProbeViolation == "" {
						destroyProbeViolation = fmt.Sprintf("DESTROY hook %s (%s) started while task %s was still owned by the environment", p.Role, p.Trigger, t.TaskId)
					}
					mu.Unlock()
				}
			}
		}
		return simworld.ProbeReply{}
	}
	w.Master.OnLaunch = func(t *simworld.SimTask) simworld.LaunchPlan {
		if mine(t) && c.FailStage == "deploy-fail" && idx[simworld.ClassOf(t)] == 0 {
			return simworld.LaunchPlan{States: []mesos.TaskState{mesos.TASK_FAILED}}
		}
		return simworld.LaunchPlan{}
	}
	failStart := false
	w.Master.OnCommand = func(t *simworld.SimTask, cmd *simworld.Command) simworld.Reply {
		mu.Lock()
		fs := failStart
		mu.Unlock()
		if mine(t) && idx[simworld.ClassOf(t)] == 0 {
			if c.FailStage == "configure" && cmd.Event == "CONFIGURE" {
				return simworld.Reply{Error: "simulated configure failure", State: "STANDBY"}
			}
			if fs && cmd.Event == "START" {
				return simworld.Reply{Error: "simulated start failure", State: "CONFIGURED"}
			}
		}
		return simworld.Reply{}
	}
	w.Master.OnKill = func(t *simworld.SimTask) simworld.KillPlan {
		if mine(t) && c.KillRefused {
			return simworld.KillPlan{RefuseHTTP: 503}
		}
		if mine(t) && c.KillRefusedFirst {
			mu.Lock()
			first := !refusedOne
			refusedOne = true
			mu.Unlock()
			if first {
				return simworld.KillPlan{RefuseHTTP: 400}
			}
		}
		return simworld.KillPlan{}
	}

	w.Master.OnTrigger = func(t *simworld.SimTask, cmd *simworld.Command) simworld.Reply {
		if simworld.ClassOf(t) != hookCls || hookCls == "" {
			return simworld.Reply{}
		}
		if c.HookTask == "trigger-error" {
			return simworld.Reply{Error: "simulated: the hook could not be started"}
		}
		id := t.ID
		return simworld.Reply{Then: func() {
			go func() {
				time.Sleep(50 * time.Millisecond)
				simworld.AnnounceBasicTaskTerminated(w.Master, id, 0, true)
			}()
		}}
	}
	goBefore := countCallGoroutines(w)
	taskMark := len(w.Master.Tasks())
	env, cerr := w.NewEnv(wf, nil, 40*time.Second)
	envId = env.GetId()
	myTasks := func() []*simworld.SimTask {
		var out []*simworld.SimTask
		for _, t := range w.Master.Tasks()[taskMark:] {
			if mine(t) {
				out = append(out, t)
			}
		}
		return out
	}
	res.NonTrivial = true

	leftovers := func(what string) (string, string) {
		// (a) not listed
		envs, err := w.Envs()
		if err != nil {
			return "api-error", "GetEnvironments: " + err.Error()
		}
		for _, e := range envs {
			if e.GetRootRole() == wf && e.GetState() != "DONE" {
				return "still-listed", fmt.Sprintf("%s: environment %s of workflow %s is still listed in state %s", what, e.GetId(), wf, e.GetState())
			}
		}
		// (b) none of its tasks is still owned
		ts, _ := w.TasksAPI()
		locked := map[string]bool{}
		for _, t := range ts {
			if t.Locked {
				locked[t.TaskId] = true
			}
		}
		listed := map[string]bool{}
		for _, t := range ts {
			listed[t.TaskId] = true
		}
		for _, t := range myTasks() {
			if locked[t.ID] {
				return "task-still-owned", fmt.Sprintf("%s: task %s launched for the environment is still locked", what, t.ID)
			}
			if listed[t.ID] && envId != "" {
				ctx, cancel := simworld.Ctx(5 * time.Second)
				gt, err := w.Cli.GetTask(ctx, &pb.GetTaskRequest{TaskId: t.ID})
				cancel()
				if err == nil && gt.GetTask().GetEnvId() == envId {
					return "task-still-owned", fmt.Sprintf("%s: task %s is still attributed to the environment (GetTask.envId) after it is gone", what, t.ID)
				}
			}
		}
		// (e) detectors free
		ctx, cancel := simworld.Ctx(10 * time.Second)
		ad, err := w.Cli.GetActiveDetectors(ctx, &pb.Empty{})
		cancel()
		if err == nil {
			want := map[string]bool{}
			if holder != "" {
				want["ITS"] = true
			}
			for _, d := range ad.Detectors {
				if !want[d] {
					return "detector-not-freed", fmt.Sprintf("%s: detector %s is still reported active", what, d)
				}
			}
		}
		return "", ""
	}

	if c.FailStage != "" {
		res.Classes = []string{"failed-creation:" + c.FailStage}
		steps = append(steps, fmt.Sprintf("create (fail stage %s) -> state=%s err=%v", c.FailStage, env.GetState(), cerr))
		if cerr == nil {
			res.Inconclusive = "creation was expected to fail at stage " + c.FailStage + " but succeeded"
			simworld.Discard()
			return
		}
		if sig, v := leftovers("after failed creation (" + c.FailStage + ")"); v != "" {
			return fail(sig+":"+c.FailStage, "%s", v)
		}
		// tasks that never became owned fall to the next cleanup
		ctx, cancel := simworld.Ctx(30 * time.Second)
		_, err := w.Cli.CleanupTasks(ctx, &pb.CleanupTasksRequest{})
		cancel()
		if err != nil {
			return fail("cleanup-error", "CleanupTasks after failed creation: %v", err)
		}
		for _, t := range myTasks() {
			cur := w.Master.Task(t.ID)
			if cur != nil && !cur.Terminal && len(w.Master.KillsFor(t.ID)) == 0 {
				return fail("orphan-survives-cleanup:"+c.FailStage, "task %s launched for the failed environment is still alive and was never asked to terminate, even after CleanupTasks", t.ID)
			}
		}
		if holder != "" {
			ge, err := w.GetEnv(holder, false)
			if err != nil || ge.GetEnvironment().GetState() != "CONFIGURED" {
				return fail("holder-disturbed", "the environment holding the detector was disturbed by the refused creation: %v %s", err, ge.GetEnvironment().GetState())
			}
		}
		if d := countCallGoroutines(w) - goBefore; d > 0 {
			return fail("call-goroutine-leak:"+c.FailStage, "%d hook-call goroutines remain after the failed creation", d)
		}
		return
	}

	if cerr != nil || env.GetState() != "CONFIGURED" {
		res.Inconclusive = fmt.Sprintf("creation failed: %v", cerr)
		simworld.Discard()
		return
	}
	owned := []string{}
	for _, t := range env.Tasks {
		owned = append(owned, t.TaskId)
	}
	sort.Strings(owned)
	// drive to the target state
	switch c.Target {
	case "DEPLOYED":
		if _, err := w.Control(envId, pb.ControlEnvironmentRequest_RESET, 30*time.Second); err != nil {
			res.Inconclusive = "RESET failed"
			simworld.Discard()
			return
		}
	case "RUNNING":
		if rep, err := w.Control(envId, pb.ControlEnvironmentRequest_START_ACTIVITY, 30*time.Second); err != nil || rep.GetState() != "RUNNING" {
			res.Inconclusive = "START failed"
			simworld.Discard()
			return
		}
	case "ERROR":
		mu.Lock()
		failStart = !c.HookFault // either a task refuses START or the critical hook at before_START_ACTIVITY fails
		mu.Unlock()
		w.Control(envId, pb.ControlEnvironmentRequest_START_ACTIVITY, 30*time.Second)
		if st, ok := w.WaitState(envId, 5*time.Second, "ERROR"); !ok {
			res.Inconclusive = "could not reach ERROR: " + st
			simworld.Discard()
			return
		}
	}
	if c.PreFault != "" {
		victim := myTasks()[0]
		if c.PreFault == "hooktask-failed" {
			for _, t := range myTasks() {
				if simworld.ClassOf(t) == hookCls {
					victim = t
				}
			}
		}
		switch c.PreFault {
		case "executor":
			w.Master.FailExecutor(victim.AgentID, victim.ExecID)
		case "task-failed", "hooktask-failed":
			r := mesos.REASON_EXECUTOR_TERMINATED
			w.Master.SendUpdate(victim.ID, mesos.TASK_FAILED, &r, mesos.SOURCE_EXECUTOR)
		}
		time.Sleep(150 * time.Millisecond)
		// the dead task cannot be asked to terminate any more
		filtered := owned[:0]
		for _, id := range owned {
			if t := w.Master.Task(id); t != nil && !t.Terminal {
				filtered = append(filtered, id)
			}
		}
		owned = filtered
	}
	res.Classes = []string{"destroy-from:" + c.Target}
	if c.PreFault != "" {
		res.Classes = append(res.Classes, "pre-fault:"+c.PreFault)
	}
	if len(c.Hooks) > 0 {
		res.Classes = append(res.Classes, "destroy-hooks")
	}
	if c.KillRefused {
		res.Classes = append(res.Classes, "kill-refused")
	}
	if c.KeepTasks {
		res.Classes = append(res.Classes, "keep-tasks")
	}
	if c.HookFault {
		res.Classes = append(res.Classes, "critical-hook-failed-with-call-pending")
	}
	if c.PendingCall {
		res.Classes = append(res.Classes, "pending-call")
	}
	if c.HookTask != "" {
		res.Classes = append(res.Classes, "destroy-hook-task:"+c.HookTask)
	}
	if c.PreCleanup {
		res.Classes = append(res.Classes, "cleanup-named-owned-tasks-before")
		ctx, cancel := simworld.Ctx(30 * time.Second)
		rep, err := w.Cli.CleanupTasks(ctx, &pb.CleanupTasksRequest{TaskIds: owned})
		cancel()
		steps = append(steps, fmt.Sprintf("CleanupTasks(%v) while the environment lives -> killed=%d err=%v", owned, len(rep.GetKilledTasks()), err))
		for _, id := range owned {
			if len(w.Master.KillsFor(id)) > 0 {
				return fail("owned-task-killed-by-cleanup", "CleanupTasks naming task %s, owned by the live environment, sent it a KILL", id)
			}
		}
	}
	killMark := len(w.Master.Calls())
	mu.Lock()
	leaveArmed = true
	mu.Unlock()
	_, derr := w.Destroy(envId, c.Force, c.AllowRunning, c.KeepTasks, 60*time.Second)
	steps = append(steps, fmt.Sprintf("destroy from %s force=%v allowRunning=%v keep=%v killRefused=%v -> err=%v", c.Target, c.Force, c.AllowRunning, c.KeepTasks, c.KillRefused, derr))
	if crash := w.CoreCrash(); crash != "" {
		return fail("core-crash", "the core died: %s", crash)
	}
	killCalls, refusedCalls := 0, 0
	for _, cl := range w.Master.Calls()[killMark:] {
		if cl.Type == "KILL" {
			killCalls++
			if cl.HTTP != 0 {
				refusedCalls++
			}
		}
	}
	if (c.KillRefused || c.KillRefusedFirst) && killCalls == 0 {
		// nothing had to be killed (every task was already gone, or the tasks were kept): success is the right answer
		res.Classes = append(res.Classes, "kill-refused-but-nothing-to-kill")
	}
	if refusedCalls > 0 {
		// (also with keepTasks: the server drops that flag on its forced paths, the kills it then attempts count)
		res.Classes = append(res.Classes, "kill-refused")
		if derr == nil {
			return fail("destroy-success-although-kills-refused", "%d of %d KILL calls were refused by the master, yet DestroyEnvironment reported success", refusedCalls, killCalls)
		}
		return
	}
	mu.Lock()
	lf := leaveFailed
	mu.Unlock()
	if lf > 0 {
		res.Classes = append(res.Classes, "leave-hook-failed-during-teardown")
	}
	if derr != nil && (c.HookTask == "trigger-error" || lf > 0) {
		// the hook could not be triggered: that the request reports this as an error although the environment is gone is not
		// claimed either way; what is left behind is judged below
		res.Classes = append(res.Classes, "destroy-reported-hook-error")
		derr = nil
	}
	if derr != nil {
		// a non-forced destroy of a RUNNING environment without allowInRunningState is forced by the server; an error here means it could not be honoured
		return fail("destroy-failed", "DestroyEnvironment(force=%v allowRunning=%v keep=%v) from %s failed: %v", c.Force, c.AllowRunning, c.KeepTasks, c.Target, derr)
	}
	if sig, v := leftovers("after destroy from " + c.Target); v != "" {
		return fail(sig, "%s", v)
	}
	mu.Lock()
	dpv := destroyProbeViolation
	mu.Unlock()
	if dpv != "" {
		return fail("destroy-hook-before-release", "%s", dpv)
	}
	// every DESTROY hook ran exactly once
	ran := map[string]int{}
	for _, p := range w.Probes() {
		if p.Env == envId && p.Phase == "start" && strings.HasPrefix(p.Arg, "destroyhook:") {
			ran[p.Arg]++
		}
	}
	for i := range c.Hooks {
		// (that every DESTROY hook runs is not part of this property; a hook that is skipped is only counted)
		if n := ran[fmt.Sprintf("destroyhook:%d", i)]; n > 1 {
			return fail("destroy-hook-count", "DESTROY hook %d (%s%+d) ran %d times", i, c.Hooks[i].Trigger, c.Hooks[i].Weight, n)
		} else if n == 0 {
			res.Classes = append(res.Classes, "destroy-hook-skipped")
		}
	}
	// (c) every task it ever owned has been asked to terminate, unless the caller asked to keep tasks
	killed := map[string]bool{}
	for _, cl := range w.Master.Calls()[killMark:] {
		if cl.Type == "KILL" {
			killed[cl.TaskID] = true
		}
	}
	for _, id := range owned {
		if !c.KeepTasks && !killed[id] {
			return fail("owned-task-not-killed", "task %s was owned by the destroyed environment and never received a KILL", id)
		}
		// (whether tasks are killed although keepTasks was requested - the server drops the flag on its forced paths - is not claimed)
	}
	// (f) pending calls were cancelled
	if d := countCallGoroutines(w) - goBefore; d > 0 {
		time.Sleep(300 * time.Millisecond)
		if d = countCallGoroutines(w) - goBefore; d > 0 {
			return fail("call-goroutine-leak", "%d hook-call goroutines remain after the environment was destroyed (pending call: %v)", d, c.PendingCall)
		}
	}
	// a new environment on the same hosts can be created
	w.Master.OnKill = nil
	mu.Lock()
	leaveArmed = false
	mu.Unlock()
	env2, err := w.NewEnv(wf, nil, 40*time.Second)
	if err != nil {
		return fail("cannot-recreate", "after the destroy a new environment of the same workflow cannot be created: %v", err)
	}
	w.Destroy(env2.Id, true, true, false, 60*time.Second)
	return
}

func gen(t *rapid.T) Case {
	c := Case{NTasks: rapid.IntRange(1, 3).Draw(t, "ntasks"), PendingCall: rapid.IntRange(0, 2).Draw(t, "pending") == 0}
	nh := rapid.IntRange(0, 3).Draw(t, "nhooks")
	for i := 0; i < nh; i++ {
		c.Hooks = append(c.Hooks, DestroyHook{Trigger: rapid.SampledFrom([]string{"DESTROY", "after_DESTROY"}).Draw(t, "trigger"), Weight: rapid.IntRange(-2, 2).Draw(t, "weight")})
	}
	if rapid.IntRange(0, 3).Draw(t, "failing") == 0 {
		c.FailStage = rapid.SampledFrom([]string{"template", "detector", "deploy-fail", "deploy-noagent", "deploy-noresources", "configure", "hook"}).Draw(t, "stage")
		if c.FailStage == "hook" {
			c.HookFault = true
			c.LateW = rapid.IntRange(-2, 1).Draw(t, "lateW")
			c.FailW = rapid.IntRange(c.LateW, 2).Draw(t, "failW")
			c.AwaitW = rapid.IntRange(c.FailW+1, 4).Draw(t, "awaitW")
		}
		if c.FailStage == "deploy-fail" || c.FailStage == "configure" || c.FailStage == "deploy-noagent" || c.FailStage == "deploy-noresources" {
			if c.NTasks < 2 {
				c.NTasks = 2 // so that other tasks were launched for the environment
			}
		}
		return c
	}
	c.Target = rapid.SampledFrom([]string{"DEPLOYED", "CONFIGURED", "RUNNING", "RUNNING", "ERROR"}).Draw(t, "target")
	c.Force = rapid.Bool().Draw(t, "force")
	c.AllowRunning = rapid.Bool().Draw(t, "allowRunning")
	c.KeepTasks = rapid.IntRange(0, 3).Draw(t, "keep") == 0
	c.KillRefused = rapid.IntRange(0, 9).Draw(t, "killRefused") == 0
	c.PreFault = rapid.SampledFrom([]string{"", "", "", "executor", "task-failed"}).Draw(t, "preFault")
	c.PreCleanup = rapid.IntRange(0, 3).Draw(t, "preCleanup") == 0
	if !c.KillRefused && rapid.IntRange(0, 9).Draw(t, "killRefusedFirst") == 0 {
		c.KillRefusedFirst = true
	}
	c.HookTask = rapid.SampledFrom([]string{"", "", "", "ok", "trigger-error"}).Draw(t, "hookTask")
	c.LeaveFail = c.Target == "DEPLOYED" && rapid.Bool().Draw(t, "leaveFail")
	if c.HookTask != "" && c.PreFault == "task-failed" && rapid.Bool().Draw(t, "hookTaskIsTheVictim") {
		c.PreFault = "hooktask-failed"
	}
	if c.Target == "ERROR" && rapid.Bool().Draw(t, "hookFault") {
		c.HookFault = true
		c.LateW = rapid.IntRange(-2, 1).Draw(t, "lateW")
		c.FailW = rapid.IntRange(c.LateW, 2).Draw(t, "failW")
		c.AwaitW = rapid.IntRange(c.FailW+1, 4).Draw(t, "awaitW")
	}
	return c
}

func TestTeardown(t *testing.T) {
	defer simworld.Discard()
	vh.Check(t, prop, gen, vh.Confirmed(run))
}

func TestFixed(t *testing.T) {
	defer simworld.Discard()
	for _, st := range []string{"template", "detector", "deploy-fail", "deploy-noagent", "deploy-noresources", "configure"} {
		vh.Fixed(t, prop, "failed-creation-"+st, Case{NTasks: 2, FailStage: st, PendingCall: true}, vh.Confirmed(run))
	}
	for _, tg := range []string{"DEPLOYED", "CONFIGURED", "RUNNING", "ERROR"} {
		vh.Fixed(t, prop, "destroy-from-"+tg, Case{NTasks: 2, Target: tg, AllowRunning: true, PendingCall: true,
			Hooks: []DestroyHook{{"DESTROY", -1}, {"DESTROY", 0}, {"after_DESTROY", 1}}}, vh.Confirmed(run))
		vh.Fixed(t, prop, "force-destroy-from-"+tg, Case{NTasks: 2, Target: tg, Force: true, Hooks: []DestroyHook{{"after_DESTROY", 0}}}, vh.Confirmed(run))
	}
	vh.Fixed(t, prop, "failed-creation-critical-hook-with-call-awaited-later", Case{NTasks: 2, FailStage: "hook", HookFault: true, LateW: 0, FailW: 0, AwaitW: 3}, vh.Confirmed(run))
	vh.Fixed(t, prop, "destroy-after-critical-hook-failed-with-call-awaited-later", Case{NTasks: 2, Target: "ERROR", HookFault: true, LateW: -1, FailW: 1, AwaitW: 2, PendingCall: true}, vh.Confirmed(run))
	vh.Fixed(t, prop, "cleanup-naming-owned-tasks-then-destroy", Case{NTasks: 2, Target: "CONFIGURED", PreCleanup: true}, vh.Confirmed(run))
	vh.Fixed(t, prop, "first-kill-refused-the-others-accepted", Case{NTasks: 3, Target: "CONFIGURED", KillRefusedFirst: true}, vh.Confirmed(run))
	vh.Fixed(t, prop, "destroy-hook-task", Case{NTasks: 2, Target: "CONFIGURED", HookTask: "ok"}, vh.Confirmed(run))
	vh.Fixed(t, prop, "destroy-hook-task-whose-trigger-fails", Case{NTasks: 2, Target: "RUNNING", AllowRunning: true, HookTask: "trigger-error"}, vh.Confirmed(run))
	vh.Fixed(t, prop, "leave-hook-fails-during-teardown", Case{NTasks: 2, Target: "DEPLOYED", LeaveFail: true}, vh.Confirmed(run))
	vh.Fixed(t, prop, "destroy-hook-task-with-a-probe-hook-at-a-later-weight", Case{NTasks: 1, Target: "CONFIGURED", Force: true, AllowRunning: true, HookTask: "ok",
		Hooks: []DestroyHook{{"DESTROY", 2}, {"DESTROY", 0}}}, vh.Confirmed(run))
	vh.Fixed(t, prop, "destroy-hook-task-died-before-the-destroy", Case{NTasks: 2, Target: "DEPLOYED", Force: true, PendingCall: true, HookTask: "ok", PreFault: "hooktask-failed"}, vh.Confirmed(run))
	vh.Fixed(t, prop, "keep-tasks", Case{NTasks: 2, Target: "CONFIGURED", KeepTasks: true}, vh.Confirmed(run))
	vh.Fixed(t, prop, "executor-lost-then-forced-destroy-keeping-tasks", Case{NTasks: 3, Target: "RUNNING", Force: true, KeepTasks: true, PreFault: "executor"}, vh.Confirmed(run))
	vh.Fixed(t, prop, "task-failed-then-destroy", Case{NTasks: 2, Target: "CONFIGURED", PreFault: "task-failed"}, vh.Confirmed(run))
	vh.Fixed(t, prop, "kills-refused", Case{NTasks: 2, Target: "CONFIGURED", KillRefused: true}, vh.Confirmed(run))
}

// Destroy requested while the environment is still being deployed: the creation is slowed down by tasks that take a while
// to report TASK_RUNNING, the environment's id is read from the listing and a forced destroy is requested meanwhile.
// Afterwards nothing of it is left: not listed, none of the tasks launched for it still owned, and every launched task
// that is still alive has been asked to terminate at the latest after the next clean-up.
type MidCase struct {
	NTasks      int
	OfferMs     int // how long the master takes to answer the request for offers
	LaunchMs    int // how long a launched task takes to report TASK_RUNNING
	DestroyAtMs int // when the destroy is requested, counted from the moment the environment shows up in the listing
}

func runMid(c MidCase) (res vh.Result) {
	w, err := world()
	if err != nil {
		res.Inconclusive = "world: " + err.Error()
		return
	}
	n := atomic.AddInt64(&caseSeq, 1)
	wf := fmt.Sprintf("wm%dx%d", os.Getpid(), n)
	var sb strings.Builder
	fmt.Fprintf(&sb, "name: %s\ndefaults:\n  deploy_timeout: 8s\nroles:\n", wf)
	cls := map[string]bool{}
	for i := 0; i < c.NTasks; i++ {
		cl := fmt.Sprintf("m%dx%dt%d", os.Getpid(), n, i)
		cls[cl] = true
		fmt.Fprintf(&sb, "  - name: t%d\n    constraints:\n      - attribute: machine_id\n        value: %s\n    task:\n      load: %s\n", i, hostNames[i%3], cl)
		w.WriteTask(cl, simworld.TaskClassYAML(cl, "direct", ""))
	}
	w.WriteWorkflow(wf, sb.String())
	steps := []string{}
	defer func() {
		res.History = map[string]interface{}{"workflow": sb.String(), "steps": steps, "world_log_tail": w.LogLines(120)}
	}()
	fail := func(sig, f string, a ...interface{}) vh.Result {
		res.Violation = fmt.Sprintf(f, a...)
		res.Signature = sig
		simworld.Discard()
		return res
	}
	mine := func(t *simworld.SimTask) bool { return cls[simworld.ClassOf(t)] }
	w.Master.OnLaunch = func(t *simworld.SimTask) simworld.LaunchPlan {
		if mine(t) {
			return simworld.LaunchPlan{Delay: time.Duration(c.LaunchMs) * time.Millisecond}
		}
		return simworld.LaunchPlan{}
	}
	w.Master.OfferDelay = time.Duration(c.OfferMs) * time.Millisecond
	defer func() { w.Master.OnLaunch = nil; w.Master.OfferDelay = 0 }()
	taskMark := len(w.Master.Tasks())
	created := make(chan error, 1)
	go func() {
		_, err := w.NewEnv(wf, nil, 60*time.Second)
		created <- err
	}()
	// the environment shows up in the listing while it is being deployed
	id := ""
	deadline := time.Now().Add(10 * time.Second)
	for id == "" && time.Now().Before(deadline) {
		envs, _ := w.Envs()
		for _, e := range envs {
			if e.GetRootRole() == wf {
				id = e.GetId()
			}
		}
		if id == "" {
			time.Sleep(5 * time.Millisecond)
		}
	}
	if id == "" {
		<-created
		res.Inconclusive = "the environment never showed up in the listing while it was created"
		simworld.Discard()
		return
	}
	time.Sleep(time.Duration(c.DestroyAtMs) * time.Millisecond)
	_, derr := w.Destroy(id, true, true, false, 90*time.Second)
	cerr := <-created
	steps = append(steps, fmt.Sprintf("environment %s listed while being created; forced destroy after %d ms -> err=%v; the creation returned err=%v", id, c.DestroyAtMs, derr, cerr))
	res.NonTrivial = true
	res.Classes = []string{"destroy-during-deployment"}
	if crash := w.CoreCrash(); crash != "" {
		return fail("core-crash", "the core died: %s", crash)
	}
	// whatever the two requests answered: nothing of the environment may be left once both have returned and a clean-up ran
	time.Sleep(time.Duration(c.LaunchMs+300) * time.Millisecond)
	envs, _ := w.Envs()
	for _, e := range envs {
		if e.GetRootRole() == wf && e.GetState() != "DONE" {
			if derr != nil {
				// the destroy was refused and the creation went through: a live environment is a legitimate outcome
				w.Destroy(e.GetId(), true, true, false, 60*time.Second)
				res.Classes = append(res.Classes, "destroy-refused")
				return
			}
			return fail("still-listed", "the destroy request succeeded, yet environment %s is listed in state %s", e.GetId(), e.GetState())
		}
	}
	ctx, cancel := simworld.Ctx(30 * time.Second)
	_, err = w.Cli.CleanupTasks(ctx, &pb.CleanupTasksRequest{})
	cancel()
	ts, _ := w.TasksAPI()
	locked := map[string]bool{}
	for _, t := range ts {
		if t.Locked {
			locked[t.TaskId] = true
		}
	}
	for _, t := range w.Master.Tasks()[taskMark:] {
		if !mine(t) {
			continue
		}
		if locked[t.ID] {
			return fail("task-still-owned:destroy-during-deployment", "task %s launched for environment %s is still locked although the environment is gone", t.ID, id)
		}
		cur := w.Master.Task(t.ID)
		if cur != nil && !cur.Terminal && len(w.Master.KillsFor(t.ID)) == 0 {
			return fail("orphan-survives-cleanup:destroy-during-deployment", "task %s launched for environment %s is alive and was never asked to terminate, even after CleanupTasks (err=%v)", t.ID, id, err)
		}
	}
	return
}

func TestDestroyDuringDeployment(t *testing.T) {
	defer simworld.Discard()
	vh.Check(t, prop, func(t *rapid.T) MidCase {
		return MidCase{NTasks: rapid.IntRange(1, 3).Draw(t, "ntasks"), OfferMs: rapid.SampledFrom([]int{0, 300, 700}).Draw(t, "offerMs"), LaunchMs: rapid.SampledFrom([]int{300, 800, 1500}).Draw(t, "launchMs"),
			DestroyAtMs: rapid.SampledFrom([]int{0, 20, 100, 400, 900}).Draw(t, "destroyAtMs")}
	}, vh.Confirmed(runMid))
}

func TestDestroyDuringDeploymentFixed(t *testing.T) {
	defer simworld.Discard()
	vh.Fixed(t, prop, "destroy-while-waiting-for-offers", MidCase{NTasks: 2, OfferMs: 700, LaunchMs: 300, DestroyAtMs: 100}, vh.Confirmed(runMid))
	vh.Fixed(t, prop, "destroy-while-tasks-start-up", MidCase{NTasks: 2, LaunchMs: 1000, DestroyAtMs: 100}, vh.Confirmed(runMid))
	vh.Fixed(t, prop, "destroy-just-before-tasks-run", MidCase{NTasks: 3, LaunchMs: 600, DestroyAtMs: 400}, vh.Confirmed(runMid))
}

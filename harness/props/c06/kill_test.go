package c06

// In-process part of C06: "every combination of release and kill outcomes". The whole-core engine cannot produce a refused
// KILL followed by an accepted one (the mesos-go client drops the subscription after any refused call, so the remaining
// KILLs of the same request fail locally); here the real task.Manager (overlay hook H5) talks to a caller played by the
// harness, and which KILL calls of a request are refused is drawn by rapid.
//
// History: an environment acquires 2-6 tasks, they report TASK_RUNNING, the environment releases them (the teardown) and
// KillTasks is asked to terminate them (what DestroyEnvironment, CleanupTasks and the tail of a failed creation do).
// Oracle: if any KILL call was refused the request reports an error (a destroy that cannot be honoured returns an error
// rather than success); a task is reported as killed exactly if its KILL call was accepted; a task whose KILL was refused
// is still known to the task manager (it is not silently forgotten while alive).

import (
	"context"
	"errors"
	"fmt"
	"sync"
	"testing"
	"time"

	"github.com/AliceO2Group/Control/common/event"
	"github.com/AliceO2Group/Control/common/gera"
	"github.com/AliceO2Group/Control/common/utils/uid"
	"github.com/AliceO2Group/Control/core/task"
	"github.com/AliceO2Group/Control/core/task/channel"
	"github.com/AliceO2Group/Control/core/task/constraint"
	"github.com/AliceO2Group/Control/core/task/sm"
	mesos "github.com/mesos/mesos-go/api/v1/lib"
	"github.com/mesos/mesos-go/api/v1/lib/scheduler"
	"github.com/mesos/mesos-go/api/v1/lib/scheduler/calls"
	"github.com/sirupsen/logrus"
	"pgregory.net/rapid"

	"verifharness/vh"
)

type krole struct {
	env  uid.ID
	name string
	mu   sync.Mutex
	task *task.Task
}

func (r *krole) UpdateStatus(task.Status)   {}
func (r *krole) UpdateState(sm.State)       {}
func (r *krole) GetPath() string            { return r.name }
func (r *krole) GetTaskClass() string       { return "cls" }
func (r *krole) GetTaskTraits() task.Traits { return task.Traits{Critical: true} }
func (r *krole) GetEnvironmentId() uid.ID   { return r.env }
func (r *krole) SetTask(t *task.Task) {
	r.mu.Lock()
	r.task = t
	r.mu.Unlock()
}
func (r *krole) get() *task.Task {
	r.mu.Lock()
	defer r.mu.Unlock()
	return r.task
}
func (r *krole) CollectOutboundChannels() []channel.Outbound { return nil }
func (r *krole) CollectInboundChannels() []channel.Inbound   { return nil }
func (r *krole) GetDefaults() gera.Map[string, string]       { return gera.MakeMap[string, string]() }
func (r *krole) GetVars() gera.Map[string, string]           { return gera.MakeMap[string, string]() }
func (r *krole) GetUserVars() gera.Map[string, string]       { return gera.MakeMap[string, string]() }
func (r *krole) ConsolidatedVarStack() (map[string]string, error) {
	return map[string]string{}, nil
}
func (r *krole) SendEvent(event.Event) {}
func (r *krole) GetName() string       { return r.name }

type KCase struct {
	N          int  // tasks of the environment
	RefuseMask int  // bit i set: the i-th KILL call of the request (in call order) is refused by the master
	Dead       int  // bit i set: task i reported TASK_FAILED before the release (nothing left to kill)
	Cleanup    bool // the request is Cleanup() (every unlocked task) instead of KillTasks(ids)
}

var kmu sync.Mutex

func runKill(c KCase) (res vh.Result) {
	kmu.Lock()
	defer kmu.Unlock()
	logrus.SetLevel(logrus.PanicLevel)
	var mu sync.Mutex
	steps := []string{}
	logf := func(f string, a ...interface{}) {
		mu.Lock()
		steps = append(steps, fmt.Sprintf(f, a...))
		mu.Unlock()
	}
	defer func() { res.History = map[string]interface{}{"steps": steps} }()
	fail := func(sig, f string, a ...interface{}) vh.Result {
		res.Violation, res.Signature = fmt.Sprintf(f, a...), sig
		return res
	}

	var m *task.Manager
	killOrd := 0
	refused, accepted := map[string]bool{}, map[string]bool{}
	cli := calls.CallerFunc(func(_ context.Context, call *scheduler.Call) (mesos.Response, error) {
		if call.GetType() != scheduler.Call_KILL {
			return nil, nil
		}
		id := call.GetKill().GetTaskID().Value
		mu.Lock()
		ord := killOrd
		killOrd++
		no := c.RefuseMask&(1<<uint(ord)) != 0
		if no {
			refused[id] = true
		} else {
			accepted[id] = true
		}
		mu.Unlock()
		logf("   mesos: KILL #%d %s refused=%v", ord, id, no)
		if no {
			return nil, errors.New("simulated: the master refused the KILL call")
		}
		go func() {
			st := mesos.TASK_KILLED
			m.VerifUpdateStatus(&mesos.TaskStatus{TaskID: mesos.TaskID{Value: id}, State: &st})
		}()
		return nil, nil
	})
	evCh := make(chan event.Event, 4096)
	hosts := []string{"hosta", "hostb", "hostc"}
	decide := func(envId uid.ID, d *task.Descriptor) task.VerifDeployDecision {
		r := d.TaskRole.(*krole)
		return task.VerifDeployDecision{Host: r.name[len(r.name)-5:], Outcome: 0}
	}
	m = task.VerifNewManager(cli, evCh, decide)
	m.VerifAddClass("cls")
	for _, h := range hosts {
		m.VerifAddAgent(h, constraint.Attributes{{Name: "machine_id", Type: mesos.TEXT, Text: &mesos.Value_Text{Value: h}}})
	}
	envId := uid.New()
	roles := []*krole{}
	ds := task.Descriptors{}
	for i := 0; i < c.N; i++ {
		h := hosts[i%3]
		r := &krole{env: envId, name: fmt.Sprintf("env.t%d@%s", i, h)}
		roles = append(roles, r)
		ds = append(ds, &task.Descriptor{TaskRole: r, TaskClassName: "cls", RoleConstraints: constraint.Constraints{{Attribute: "machine_id", Value: h}}})
	}
	acq := make(chan error, 1)
	go func() { acq <- m.VerifAcquire(envId, ds) }()
	select {
	case err := <-acq:
		if err != nil {
			res.Inconclusive = "acquisition failed: " + err.Error()
			return
		}
	case <-time.After(20 * time.Second):
		res.Inconclusive = "acquisition did not return"
		return
	}
	ts := task.Tasks{}
	ids := []string{}
	alive := map[string]bool{}
	for i, r := range roles {
		t := r.get()
		if t == nil {
			res.Inconclusive = "a role has no task after the acquisition"
			return
		}
		st := mesos.TASK_RUNNING
		m.VerifUpdateStatus(&mesos.TaskStatus{TaskID: mesos.TaskID{Value: t.GetTaskId()}, State: &st})
		if c.Dead&(1<<uint(i)) != 0 {
			st = mesos.TASK_FAILED
			m.VerifUpdateStatus(&mesos.TaskStatus{TaskID: mesos.TaskID{Value: t.GetTaskId()}, State: &st})
		} else {
			alive[t.GetTaskId()] = true
		}
		ts = append(ts, t)
		ids = append(ids, t.GetTaskId())
	}
	logf("acquired %v alive=%v", ids, alive)
	_ = m.VerifRelease(envId, ts)
	for _, t := range ts {
		if t.IsLocked() {
			return fail("released-task-still-locked", "task %s is still locked after the environment released it", t.GetTaskId())
		}
	}
	type out struct {
		killed task.Tasks
		err    error
	}
	ch := make(chan out, 1)
	go func() {
		var o out
		if c.Cleanup {
			o.killed, _, o.err = m.Cleanup()
		} else {
			o.killed, _, o.err = m.KillTasks(ids)
		}
		ch <- o
	}()
	var o out
	select {
	case o = <-ch:
	case <-time.After(20 * time.Second):
		return fail("kill-request-hangs", "the kill request for %v did not return within 20 s", ids)
	}
	logf("kill request (cleanup=%v) -> killed=%v err=%v", c.Cleanup, o.killed.GetTaskIds(), o.err)
	mu.Lock()
	nref, nacc := len(refused), len(accepted)
	mu.Unlock()
	res.NonTrivial = true
	res.Classes = []string{fmt.Sprintf("refused:%d", min(nref, 3)), fmt.Sprintf("accepted:%d", min(nacc, 3))}
	if nref > 0 && nacc > 0 {
		res.Classes = append(res.Classes, "mixed-kill-outcomes")
	}
	if c.Dead != 0 {
		res.Classes = append(res.Classes, "some-tasks-already-dead")
	}
	for id := range alive {
		mu.Lock()
		asked := refused[id] || accepted[id]
		mu.Unlock()
		if !asked {
			return fail("owned-task-not-killed", "task %s was released by the environment and is alive, yet the kill request sent no KILL for it", id)
		}
	}
	if nref > 0 && o.err == nil {
		return fail("kill-success-although-a-kill-was-refused", "%d of %d KILL calls were refused by the master, yet the kill request reported success", nref, nref+nacc)
	}
	reported := map[string]bool{}
	for _, t := range o.killed {
		reported[t.GetTaskId()] = true
	}
	known := map[string]bool{}
	for _, t := range m.GetTasks() {
		known[t.GetTaskId()] = true
	}
	for id := range refused {
		if reported[id] {
			return fail("refused-kill-reported-killed", "the KILL call for task %s was refused, yet the request reports it as killed", id)
		}
		if !known[id] {
			return fail("surviving-task-forgotten", "the KILL call for task %s was refused and the task is alive, but the task manager no longer knows it", id)
		}
	}
	for id := range accepted {
		if !reported[id] {
			return fail("accepted-kill-not-reported", "the KILL call for task %s was accepted, yet the request does not report it as killed", id)
		}
	}
	// observation only (not claimed by the property): does a second request reach the survivors?
	if nref > 0 {
		mu.Lock()
		c.RefuseMask = 0
		before := killOrd
		mu.Unlock()
		go func() {
			var o out
			o.killed, _, o.err = m.KillTasks(ids)
			ch <- o
		}()
		select {
		case o = <-ch:
			mu.Lock()
			sent := killOrd - before
			mu.Unlock()
			logf("second request -> killed=%v err=%v KILL calls sent=%d of %d survivors", o.killed.GetTaskIds(), o.err, sent, nref)
			if sent < nref {
				res.Classes = append(res.Classes, "observation:second-request-skips-survivors")
			} else {
				res.Classes = append(res.Classes, "observation:second-request-reaches-survivors")
			}
		case <-time.After(20 * time.Second):
			res.Classes = append(res.Classes, "observation:second-request-hangs")
		}
		// the next clean-up of unowned tasks (CleanupTasks without ids, and the start of every environment creation) is what
		// leftovers fall to: it must ask every survivor to terminate
		mu.Lock()
		mu.Unlock()
		go func() {
			var o out
			o.killed, _, o.err = m.Cleanup()
			ch <- o
		}()
		select {
		case o = <-ch:
		case <-time.After(20 * time.Second):
			return fail("kill-request-hangs", "the clean-up after a refused KILL did not return within 20 s")
		}
		logf("clean-up -> killed=%v err=%v", o.killed.GetTaskIds(), o.err)
		mu.Lock()
		defer mu.Unlock()
		for id := range refused {
			if !accepted[id] {
				return fail("survivor-not-reached-by-cleanup", "the KILL call for task %s was refused earlier; the following clean-up of unowned tasks did not send it a KILL (the task is alive and owned by nobody)", id)
			}
		}
		res.Classes = append(res.Classes, "cleanup-after-refused-kill")
	}
	return
}

func genKill(t *rapid.T) KCase {
	c := KCase{N: rapid.IntRange(2, 6).Draw(t, "n")}
	c.RefuseMask = rapid.IntRange(0, 1<<uint(c.N)-1).Draw(t, "refuseMask")
	if rapid.IntRange(0, 3).Draw(t, "someDead") == 0 {
		c.Dead = rapid.IntRange(0, 1<<uint(c.N)-1).Draw(t, "dead")
	}
	c.Cleanup = rapid.Bool().Draw(t, "cleanup")
	return c
}

func TestKillOutcomes(t *testing.T) {
	vh.Check(t, prop, genKill, runKill)
}

func TestKillOutcomesFixed(t *testing.T) {
	vh.Fixed(t, prop, "kills/all-accepted", KCase{N: 3}, runKill)
	vh.Fixed(t, prop, "kills/all-refused", KCase{N: 3, RefuseMask: 7}, runKill)
	vh.Fixed(t, prop, "kills/first-refused-the-rest-accepted", KCase{N: 3, RefuseMask: 1}, runKill)
	vh.Fixed(t, prop, "kills/middle-refused", KCase{N: 4, RefuseMask: 2, Cleanup: true}, runKill)
	vh.Fixed(t, prop, "kills/last-refused", KCase{N: 2, RefuseMask: 2}, runKill)
	vh.Fixed(t, prop, "kills/one-task-already-dead-one-refused", KCase{N: 3, RefuseMask: 1, Dead: 1}, runKill)
}

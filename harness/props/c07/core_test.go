package c07

import (
	"fmt"
	"os"
	"strconv"
	"strings"
	"sync"
	"sync/atomic"
	"testing"
	"time"

	pb "github.com/AliceO2Group/Control/core/protos"
	"pgregory.net/rapid"

	"verifharness/simworld"
	"verifharness/vh"
)

// Whole-core part of C07: environments of the real core start runs against the simulated Consul; the drawn script
// decides what happens to every write on the run counter. A START that cannot obtain a number must fail without
// having done anything; the numbers of the successful ones are unique and increasing, also across core restarts.

type Round struct {
	Envs        int   // 1 or 2 environments started concurrently
	Verdicts    []int // per counter write in arrival order: 0..4 serve, 5 refuse the CAS, 6 answer 500, 7 drop before applying, 8 apply then cut the reply
	ForeignBump int   // >0: a foreign writer advances the counter by this much before the first write of the round is served
	RestartCore bool  // the core is restarted before this round
}

type CoreCase struct {
	Initial int // initial counter value; -1 = key absent
	Rounds  []Round
}

var coreSeq int64

func coreWorld() (*simworld.World, error) {
	return simworld.Shared("c07-core", 12, func() simworld.Options {
		ag, det := simworld.DefaultAgents()
		return simworld.Options{Agents: ag, Detectors: det}
	})
}

func runCore(c CoreCase) (res vh.Result) {
	w, err := coreWorld()
	if err != nil {
		res.Inconclusive = "world: " + err.Error()
		return
	}
	if !w.Recycle() {
		simworld.Discard()
		res.Inconclusive = "world could not be recycled"
		return
	}
	n := atomic.AddInt64(&coreSeq, 1)
	wf := fmt.Sprintf("rw%dx%d", os.Getpid(), n)
	cls := fmt.Sprintf("rc%dx%d", os.Getpid(), n)
	w.WriteTask(cls, simworld.TaskClassYAML(cls, "direct", ""))
	w.WriteWorkflow(wf, fmt.Sprintf("name: %s\ndefaults:\n  deploy_timeout: 6s\nroles:\n  - name: t\n    task:\n      load: %s\n", wf, cls))
	if c.Initial >= 0 {
		w.Consul.Put(counterKey, strconv.Itoa(c.Initial))
	} else {
		w.Consul.Delete(counterKey)
	}
	defer func() {
		w.Consul.Gate = nil
	}()
	var hist []string
	defer func() { res.History = map[string]interface{}{"steps": hist, "world_log_tail": w.LogLines(50)} }()
	fail := func(sig, f string, a ...interface{}) vh.Result {
		res.Violation = fmt.Sprintf(f, a...)
		res.Signature = sig
		simworld.Discard()
		return res
	}
	counter := func() int {
		v, ok := w.Consul.Get(counterKey)
		if !ok {
			return 0
		}
		x, _ := strconv.Atoi(v)
		return x
	}
	highest := 0 // highest number handed out to a START that has completed
	if c.Initial > 0 {
		highest = c.Initial
	}
	given := map[uint32]string{}
	faults, conflicts, restarts, okStarts, failedStarts := 0, 0, 0, 0, 0
	for ri, r := range c.Rounds {
		if r.RestartCore {
			restarts++
			w.KillCore()
			if err := w.StartCore(); err != nil {
				res.Inconclusive = "core restart: " + err.Error()
				simworld.Discard()
				return
			}
			hist = append(hist, fmt.Sprintf("round %d: core restarted", ri))
		}
		// fresh environments for the round
		var envs []string
		for e := 0; e < r.Envs; e++ {
			env, cerr := w.NewEnv(wf, nil, 40*time.Second)
			if cerr != nil {
				res.Inconclusive = "creation failed: " + cerr.Error()
				simworld.Discard()
				return
			}
			envs = append(envs, env.Id)
		}
		// the script of this round
		var mu sync.Mutex
		writes := 0
		bumped := false
		before := counter()
		w.Consul.GatePrefix = counterKey
		w.Consul.Gate = func(op simworld.KVOp) simworld.Verdict {
			if op.Method != "PUT" {
				return simworld.Serve
			}
			mu.Lock()
			defer mu.Unlock()
			if r.ForeignBump > 0 && !bumped {
				bumped = true
				w.Consul.Put(counterKey, strconv.Itoa(counter()+r.ForeignBump))
			}
			v := 0
			if writes < len(r.Verdicts) {
				v = r.Verdicts[writes]
			}
			writes++
			switch v {
			case 5:
				return simworld.RefuseCAS
			case 6:
				return simworld.Refuse500
			case 7:
				return simworld.DropBefore
			case 8:
				return simworld.ApplyThenCut
			}
			return simworld.Serve
		}
		cmdMark := len(w.Master.Calls())
		type out struct {
			rep *pb.ControlEnvironmentReply
			err error
		}
		outs := make([]out, len(envs))
		var wg sync.WaitGroup
		for i, id := range envs {
			wg.Add(1)
			go func(i int, id string) {
				defer wg.Done()
				rep, err := w.Control(id, pb.ControlEnvironmentRequest_START_ACTIVITY, 60*time.Second)
				outs[i] = out{rep, err}
			}(i, id)
		}
		wg.Wait()
		w.Consul.Gate = nil
		if crash := w.CoreCrash(); crash != "" {
			return fail("core-crash", "the core died while starting a run: %s", crash)
		}
		after := counter()
		if after < before {
			return fail("counter-went-back", "round %d: the shared counter went from %d to %d", ri, before, after)
		}
		// which environments got START commands for their tasks
		started := map[string]bool{}
		for _, cl := range w.Master.Calls()[cmdMark:] {
			if cl.Type == "MESSAGE" && cl.Command != nil && cl.Command.Event == "START" {
				started[cl.Command.EnvId] = true
			}
		}
		for i, id := range envs {
			o := outs[i]
			state := o.rep.GetState()
			rn := o.rep.GetCurrentRunNumber()
			hist = append(hist, fmt.Sprintf("round %d env %s: state=%s run=%d err=%v (counter %d -> %d, %d writes seen)", ri, id, state, rn, o.err, before, after, writes))
			if o.err == nil && state == "RUNNING" {
				okStarts++
				if rn == 0 {
					return fail("running-without-number", "round %d: environment %s is RUNNING with run number 0", ri, id)
				}
				if prev, dup := given[rn]; dup {
					return fail("run-number-reused", "round %d: run number %d was given to %s and again to %s", ri, rn, prev, id)
				}
				if int(rn) <= highest {
					return fail("run-number-not-increasing", "round %d: environment %s got run number %d although %d had already been handed out (or was the counter's initial value)", ri, id, rn, highest)
				}
				if int(rn) > after {
					return fail("run-number-ahead-of-counter", "round %d: environment %s got run number %d but the shared counter is at %d", ri, id, rn, after)
				}
				given[rn] = id
			} else {
				failedStarts++
				// a START that could not obtain a number is cancelled before anything happens
				if state == "RUNNING" {
					return fail("failed-start-left-running", "round %d: START of %s returned an error (%v) but the environment is RUNNING", ri, id, o.err)
				}
				if started[id] && strings.Contains(fmt.Sprint(o.err, o.rep), "CAS") {
					return fail("tasks-started-without-number", "round %d: no run number could be obtained for %s, yet its tasks received START", ri, id)
				}
			}
		}
		for rn := range given {
			if int(rn) > highest {
				highest = int(rn)
			}
		}
		for _, v := range r.Verdicts[:min(writes, len(r.Verdicts))] {
			if v >= 5 {
				faults++
			}
		}
		if r.ForeignBump > 0 || (r.Envs == 2 && failedStarts > 0) {
			conflicts++
		}
		for _, id := range envs {
			w.Destroy(id, true, true, false, 30*time.Second)
		}
	}
	res.NonTrivial = faults > 0 || conflicts > 0 || restarts > 0
	for k, b := range map[string]bool{"injected-fault": faults > 0, "cas-conflict": conflicts > 0, "core-restart": restarts > 0, "run-started": okStarts > 0, "start-failed": failedStarts > 0} {
		if b {
			res.Classes = append(res.Classes, k)
		}
	}
	return
}

func genCore(t *rapid.T) CoreCase {
	c := CoreCase{Initial: rapid.SampledFrom([]int{-1, 0, 7, 500000}).Draw(t, "initial")}
	nr := rapid.IntRange(1, 4).Draw(t, "rounds")
	for i := 0; i < nr; i++ {
		r := Round{Envs: rapid.SampledFrom([]int{1, 1, 2}).Draw(t, "envs")}
		r.Verdicts = rapid.SliceOfN(rapid.SampledFrom([]int{0, 0, 0, 0, 0, 5, 6, 7, 8}), 0, 3).Draw(t, "verdicts")
		if rapid.IntRange(0, 3).Draw(t, "foreign") == 0 {
			r.ForeignBump = rapid.IntRange(1, 5).Draw(t, "bump")
		}
		r.RestartCore = i > 0 && rapid.IntRange(0, 4).Draw(t, "restart") == 0
		c.Rounds = append(c.Rounds, r)
	}
	return c
}

func TestRunNumbersCore(t *testing.T) {
	defer simworld.Discard()
	vh.Check(t, prop, genCore, vh.Confirmed(runCore))
}

func TestRunNumbersCoreFixed(t *testing.T) {
	defer simworld.Discard()
	vh.Fixed(t, prop, "core-plain-runs", CoreCase{Initial: -1, Rounds: []Round{{Envs: 1}, {Envs: 2}, {Envs: 1}}}, vh.Confirmed(runCore))
	vh.Fixed(t, prop, "core-cas-refused-then-ok", CoreCase{Initial: 7, Rounds: []Round{{Envs: 1, Verdicts: []int{5}}, {Envs: 1}}}, vh.Confirmed(runCore))
	vh.Fixed(t, prop, "core-applied-but-reply-cut", CoreCase{Initial: 7, Rounds: []Round{{Envs: 1, Verdicts: []int{8}}, {Envs: 1}}}, vh.Confirmed(runCore))
	vh.Fixed(t, prop, "core-foreign-writer-and-restart", CoreCase{Initial: 0, Rounds: []Round{{Envs: 1}, {Envs: 2, ForeignBump: 3}, {Envs: 1, RestartCore: true}}}, vh.Confirmed(runCore))
}

package c07

import (
	"fmt"
	"net"
	"sort"
	"strconv"
	"sync"
	"testing"
	"time"

	"github.com/AliceO2Group/Control/apricot/local"
	"github.com/AliceO2Group/Control/apricot/remote"
	"pgregory.net/rapid"

	"verifharness/simworld"
	"verifharness/vh"
)

const prop = "C07"
const counterKey = "o2/runtime/run_number"

type Call struct {
	FreshService bool // "restart": obtain the number through a new Service instance
}

type Decision struct {
	Pick    int // which of the currently held requests is served next
	Verdict int // 0..5 serve, 6 drop before applying, 7 apply then cut the reply, 8 refuse with 500, 9 refuse the CAS
	Foreign int // >0: before serving, a foreign writer sets the counter to current+Foreign
}

type Case struct {
	Initial   int      // initial counter value; -1 = key absent
	Callers   [][]Call // per caller: its sequence of NewRunNumber calls
	Remote    []bool   // per caller (missing = false): the caller asks an apricot server over gRPC (apricot:// mode) which holds the Service
	Decisions []Decision
}

type callRec struct {
	Caller, Idx       int
	Invoked, Returned int // logical clock
	Value             uint32
	Err               string
}

type held struct {
	op      simworld.KVOp
	caller  int
	release chan simworld.Verdict
}

func run(c Case) (res vh.Result) {
	fc := simworld.NewFakeConsul()
	defer fc.Close()
	if c.Initial >= 0 {
		fc.Put(counterKey, strconv.Itoa(c.Initial))
	}
	n := len(c.Callers)
	addrs := make([]string, n)
	byAddr := map[string]int{}
	for i := range addrs {
		addrs[i] = fc.AddListener()
		byAddr[addrs[i]] = i
	}
	var mu sync.Mutex
	clock := 0
	tick := func() int { clock++; return clock }
	arrivals := make(chan *held, 64)
	fc.GatePrefix = counterKey
	fc.Gate = func(op simworld.KVOp) simworld.Verdict {
		ci, ok := byAddr[op.Local]
		if !ok {
			return simworld.Serve // harness' own access
		}
		h := &held{op: op, caller: ci, release: make(chan simworld.Verdict, 1)}
		arrivals <- h
		return <-h.release
	}
	type doneMsg struct{ caller int }
	finished := make(chan doneMsg, n)
	records := []callRec{}
	hist := []string{}
	// PUT bodies applied per caller
	for ci, calls := range c.Callers {
		go func(ci int, calls []Call) {
			var svc interface{ NewRunNumber() (uint32, error) }
			viaRemote := ci < len(c.Remote) && c.Remote[ci]
			var stop []func()
			defer func() {
				for _, f := range stop {
					f()
				}
			}()
			for idx, call := range calls {
				if svc == nil || call.FreshService {
					s, err := local.NewService("consul://" + addrs[ci])
					if err != nil {
						mu.Lock()
						records = append(records, callRec{Caller: ci, Idx: idx, Err: "NewService: " + err.Error()})
						mu.Unlock()
						continue
					}
					svc = s
					if viaRemote {
						// an apricot server in front of the Service, and the client the core would use in apricot:// mode
						lis, lerr := net.Listen("tcp", "127.0.0.1:0")
						if lerr != nil {
							mu.Lock()
							records = append(records, callRec{Caller: ci, Idx: idx, Err: "listen: " + lerr.Error()})
							mu.Unlock()
							svc = nil
							continue
						}
						srv := remote.NewServer(s)
						go srv.Serve(lis)
						stop = append(stop, srv.Stop)
						rs, rerr := remote.NewService("apricot://" + lis.Addr().String())
						if rerr != nil {
							mu.Lock()
							records = append(records, callRec{Caller: ci, Idx: idx, Err: "remote.NewService: " + rerr.Error()})
							mu.Unlock()
							svc = nil
							continue
						}
						svc = rs
					}
				}
				mu.Lock()
				inv := tick()
				mu.Unlock()
				v, err := svc.NewRunNumber()
				mu.Lock()
				r := callRec{Caller: ci, Idx: idx, Invoked: inv, Returned: tick(), Value: v}
				if err != nil {
					r.Err = err.Error()
				}
				records = append(records, r)
				mu.Unlock()
			}
			finished <- doneMsg{ci}
		}(ci, calls)
	}

	// scheduler: wait until every live caller is parked at the gate (or done), then serve one request chosen by the script
	live := n
	parked := map[int]*held{}
	conflicts, faults, foreign := 0, 0, 0
	applied := map[int][]string{} // caller -> bodies of its PUTs that were applied
	lastFalse := map[int]bool{}
	di := 0
	timeout := time.After(20 * time.Second)
	for live > 0 {
		for len(parked) < live {
			select {
			case h := <-arrivals:
				parked[h.caller] = h
			case d := <-finished:
				_ = d
				live--
			case <-timeout:
				res.Inconclusive = "scheduler timeout"
				for _, h := range parked {
					h.release <- simworld.Serve
				}
				return
			}
		}
		if live == 0 {
			break
		}
		d := Decision{}
		if di < len(c.Decisions) {
			d = c.Decisions[di]
		}
		di++
		keys := make([]int, 0, len(parked))
		for k := range parked {
			keys = append(keys, k)
		}
		sort.Ints(keys)
		h := parked[keys[d.Pick%len(keys)]]
		delete(parked, h.caller)
		if d.Foreign > 0 {
			cur := 0
			if v, ok := fc.Get(counterKey); ok {
				cur, _ = strconv.Atoi(v)
			}
			fc.Put(counterKey, strconv.Itoa(cur+d.Foreign))
			foreign++
			hist = append(hist, fmt.Sprintf("foreign writer sets counter to %d", cur+d.Foreign))
		}
		verdict := simworld.Serve
		switch d.Verdict {
		case 6:
			verdict = simworld.DropBefore
		case 7:
			verdict = simworld.ApplyThenCut
		case 8:
			verdict = simworld.Refuse500
		case 9:
			verdict = simworld.RefuseCAS
		}
		if verdict != simworld.Serve {
			faults++
		}
		h.release <- verdict
		// wait for this request to be answered so that the log is ordered
		var out string
		for i := 0; i < 2000; i++ {
			if out = fc.Outcome(h.op.Seq); out != "" || h.op.Method == "GET" {
				break
			}
			time.Sleep(50 * time.Microsecond)
		}
		if h.op.Method == "PUT" {
			if out == "true" || out == "cut-applied" {
				applied[h.caller] = append(applied[h.caller], h.op.Body)
				lastFalse[h.caller] = false
			}
			if out == "false" {
				conflicts++
			}
		}
		hist = append(hist, fmt.Sprintf("caller %d: %s cas=%v/%d body=%q verdict=%d -> %s", h.caller, h.op.Method, h.op.HasCAS, h.op.CAS, h.op.Body, d.Verdict, out))
	}
	mu.Lock()
	defer mu.Unlock()
	res.History = map[string]interface{}{"schedule": hist, "calls": records}
	res.NonTrivial = conflicts > 0 || faults > 0
	res.Classes = []string{fmt.Sprintf("callers:%d", n)}
	if conflicts > 0 {
		res.Classes = append(res.Classes, "cas-conflict")
	}
	if faults > 0 {
		res.Classes = append(res.Classes, "fault-injected")
	}
	if foreign > 0 {
		res.Classes = append(res.Classes, "foreign-writer")
	}
	// oracle
	seen := map[uint32]callRec{}
	for _, r := range records {
		if r.Err != "" {
			continue
		}
		if o, dup := seen[r.Value]; dup {
			res.Violation = fmt.Sprintf("run number %d handed out twice: to caller %d call %d and to caller %d call %d", r.Value, o.Caller, o.Idx, r.Caller, r.Idx)
			res.Signature = "duplicate"
			return
		}
		seen[r.Value] = r
		ok := false
		for _, b := range applied[r.Caller] {
			if b == strconv.FormatUint(uint64(r.Value), 10) {
				ok = true
			}
		}
		if !ok {
			res.Violation = fmt.Sprintf("caller %d call %d got run number %d although no compare-and-set of its own storing %d was applied (applied: %v)", r.Caller, r.Idx, r.Value, r.Value, applied[r.Caller])
			res.Signature = "number-without-cas"
			return
		}
		if c.Initial >= 0 && int(r.Value) <= c.Initial {
			res.Violation = fmt.Sprintf("run number %d is not larger than the counter's initial value %d", r.Value, c.Initial)
			res.Signature = "not-increasing"
			return
		}
	}
	for _, a := range records {
		for _, b := range records {
			if a.Err == "" && b.Err == "" && a.Returned < b.Invoked && a.Value >= b.Value {
				res.Violation = fmt.Sprintf("caller %d call %d returned %d before caller %d call %d was invoked, which then got %d (not larger)", a.Caller, a.Idx, a.Value, b.Caller, b.Idx, b.Value)
				res.Signature = "not-increasing"
				return
			}
		}
	}
	// the stored counter is never below a number that was handed out
	if v, ok := fc.Get(counterKey); ok {
		cur, _ := strconv.Atoi(v)
		for val := range seen {
			if int(val) > cur {
				res.Violation = fmt.Sprintf("run number %d was handed out but the stored counter is %d", val, cur)
				res.Signature = "counter-behind"
				return
			}
		}
	} else if len(seen) > 0 {
		res.Violation = "numbers were handed out but the counter key does not exist"
		res.Signature = "counter-behind"
	}
	return
}

func gen(t *rapid.T) Case {
	c := Case{Initial: rapid.OneOf(rapid.Just(-1), rapid.IntRange(0, 5), rapid.IntRange(500000, 500100)).Draw(t, "initial")}
	n := rapid.IntRange(1, 5).Draw(t, "callers")
	for i := 0; i < n; i++ {
		k := rapid.IntRange(1, 4).Draw(t, "calls")
		calls := make([]Call, k)
		for j := range calls {
			calls[j].FreshService = rapid.IntRange(0, 3).Draw(t, "fresh") == 0
		}
		c.Callers = append(c.Callers, calls)
		c.Remote = append(c.Remote, rapid.IntRange(0, 3).Draw(t, "remote") == 0)
	}
	nd := rapid.IntRange(0, 40).Draw(t, "decisions")
	for i := 0; i < nd; i++ {
		d := Decision{Pick: rapid.IntRange(0, 4).Draw(t, "pick"), Verdict: rapid.IntRange(0, 9).Draw(t, "verdict")}
		if rapid.IntRange(0, 7).Draw(t, "foreign") == 0 {
			d.Foreign = rapid.IntRange(1, 50).Draw(t, "bump")
		}
		c.Decisions = append(c.Decisions, d)
	}
	return c
}

func TestRunNumbers(t *testing.T) {
	vh.Check(t, prop, gen, run)
}

func TestRunNumbersFixed(t *testing.T) {
	// two callers read the same counter, both try to CAS: exactly one may get the number
	vh.Fixed(t, prop, "read-read-cas-cas", Case{Initial: 41, Callers: [][]Call{{{}}, {{}}}, Decisions: []Decision{{0, 0, 0}, {0, 0, 0}, {0, 0, 0}, {0, 0, 0}}}, run)
	vh.Fixed(t, prop, "create-race", Case{Initial: -1, Callers: [][]Call{{{}}, {{}}}, Decisions: []Decision{{0, 0, 0}, {0, 0, 0}, {1, 0, 0}, {0, 0, 0}}}, run)
	vh.Fixed(t, prop, "foreign-writer-between-read-and-cas", Case{Initial: 7, Callers: [][]Call{{{}, {}}}, Decisions: []Decision{{0, 0, 0}, {0, 0, 10}, {0, 0, 0}, {0, 0, 0}}}, run)
	vh.Fixed(t, prop, "through-an-apricot-server-back-to-back", Case{Initial: 41, Callers: [][]Call{{{}, {}, {}}}, Remote: []bool{true}, Decisions: []Decision{{0, 0, 0}, {0, 0, 0}, {0, 0, 0}, {0, 0, 0}, {0, 0, 0}, {0, 0, 0}}}, run)
	vh.Fixed(t, prop, "refused-cas", Case{Initial: 3, Callers: [][]Call{{{}, {true}}}, Decisions: []Decision{{0, 0, 0}, {0, 9, 0}, {0, 0, 0}, {0, 0, 0}}}, run)
	vh.Fixed(t, prop, "reply-cut-after-apply", Case{Initial: 3, Callers: [][]Call{{{}, {}}, {{}}}, Decisions: []Decision{{0, 0, 0}, {0, 7, 0}, {0, 0, 0}, {0, 0, 0}, {0, 0, 0}, {0, 0, 0}}}, run)
}

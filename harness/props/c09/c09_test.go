package c09

import (
	"fmt"
	"os"
	"sort"
	"strings"
	"sync"
	"testing"
	"time"

	"pgregory.net/rapid"

	"verifharness/hooklib"
	"verifharness/simworld"
	"verifharness/vh"
)

const prop = "C09"

type H struct {
	Kind     string // call | task
	Moment   int    // 0 before_<T>, 1 leave_<src>, 3 enter_<dst>, 4 after_<T>
	Weight   int
	Critical bool
	Fail     string // "" | error | timeout (call reports a timeout error) | exit (task exits non-zero) | involuntary | never (task never terminates, 400 ms hook timeout)
}

type Case struct {
	T      string // transition under test: START_ACTIVITY | STOP_ACTIVITY | RESET | CONFIGURE
	NTasks int
	Hooks  []H
	Slow   []int // indices of call hooks that take 350 ms to return (the others at their await point are long back by then)
}

func (c Case) slow(h int) bool {
	for _, i := range c.Slow {
		if i == h {
			return true
		}
	}
	return false
}

var prep = map[string][]string{"START_ACTIVITY": {}, "STOP_ACTIVITY": {"START_ACTIVITY"}, "RESET": {}, "CONFIGURE": {"RESET"}}
var srcOf = map[string]string{"START_ACTIVITY": "CONFIGURED", "STOP_ACTIVITY": "RUNNING", "RESET": "CONFIGURED", "CONFIGURE": "DEPLOYED"}

// moments of T that do not occur before T in the life of the environment: hook tasks (which run once) may sit there
func taskMomentOK(T string, m int) bool {
	if T == "CONFIGURE" {
		return false // every moment of CONFIGURE was already passed while the environment was created
	}
	switch m {
	case 0, 4:
		return true
	case 3:
		return T == "START_ACTIVITY"
	}
	// leave_<src> is passed again by the GO_ERROR that follows a failed T; a hook task that already ran is gone by then
	// (the executor stays silent for it, which costs the 90 s command timeout), so hook tasks are not placed there
	return false
}

func world() (*simworld.World, error) {
	race := os.Getenv("VERIF_RACE") != ""
	key := "default"
	if race {
		key = "race"
	}
	return simworld.Shared(key, 15, func() simworld.Options {
		ag, det := simworld.DefaultAgents()
		return simworld.Options{Agents: ag, Detectors: det, Race: race}
	})
}

func run(c Case) (res vh.Result) {
	w, err := world()
	if err != nil {
		res.Inconclusive = "world: " + err.Error()
		return
	}
	moments := hooklib.Moments(c.T, srcOf[c.T])
	dst, _ := simworld.LegalFrom(c.T, srcOf[c.T])
	hooks := make([]hooklib.Hook, len(c.Hooks))
	for i, h := range c.Hooks {
		hooks[i] = hooklib.Hook{Kind: h.Kind, Trigger: moments[h.Moment], TWeight: h.Weight, Critical: h.Critical, Timeout: "5s"}
		if h.Kind == "task" {
			hooks[i].Timeout = "400ms"
		}
	}
	var mu sync.Mutex
	inT := false
	cb := hooklib.Callbacks{
		BeforeStep: func(i int, op string) {
			mu.Lock()
			inT = i == len(prep[c.T])
			mu.Unlock()
		},
		OnProbe: func(h int, o int, p simworld.ProbeRec) simworld.ProbeReply {
			mu.Lock()
			active := inT
			mu.Unlock()
			// the failure belongs to T itself: the same moment may be passed again by the GO_ERROR that follows a failed T
			if active && w.OpenTransition(p.Env) != c.T {
				active = false
			}
			if !active {
				return simworld.ProbeReply{}
			}
			if c.slow(h) {
				time.Sleep(350 * time.Millisecond)
			}
			switch c.Hooks[h].Fail {
			case "error":
				return simworld.ProbeReply{Fail: fmt.Sprintf("simulated failure of hook %d", h)}
			case "timeout":
				return simworld.ProbeReply{Fail: fmt.Sprintf("hook %d timed out (simulated)", h)}
			}
			return simworld.ProbeReply{}
		},
		OnTrigger: func(h int, cmd *simworld.Command) hooklib.HookRun {
			switch c.Hooks[h].Fail {
			case "exit":
				return hooklib.HookRun{ExitCode: 3}
			case "involuntary":
				return hooklib.HookRun{Involuntary: true}
			case "never":
				return hooklib.HookRun{Never: true}
			}
			return hooklib.HookRun{}
		},
	}
	walk := append(append([]string{}, prep[c.T]...), c.T)
	tr := hooklib.Run(w, hooklib.Spec{NTasks: c.NTasks, Hooks: hooks, Walk: walk, Destroy: true}, cb)
	defer func() {
		res.History = map[string]interface{}{"brackets": tr.Brackets, "results": tr.Results, "createErr": tr.CreateErr, "world_log_tail": w.LogLines(80)}
	}()
	fail := func(sig, f string, a ...interface{}) vh.Result {
		res.Violation = fmt.Sprintf(f, a...)
		res.Signature = sig
		simworld.Discard()
		return res
	}
	// ---- classes
	nFail, nCritFail := 0, 0
	perPoint := map[string]int{}
	for _, h := range c.Hooks {
		if h.Fail != "" {
			nFail++
			perPoint[fmt.Sprintf("%d/%d", h.Moment, h.Weight)]++
			if h.Critical {
				nCritFail++
			}
		}
	}
	simultaneous := false
	for _, n := range perPoint {
		if n >= 2 {
			simultaneous = true
		}
	}
	res.NonTrivial = nFail > 0
	res.Classes = []string{"T:" + c.T}
	if nFail > 0 {
		res.Classes = append(res.Classes, "failing-hook")
	}
	if nCritFail > 0 {
		res.Classes = append(res.Classes, "critical-failure")
	}
	if simultaneous {
		res.Classes = append(res.Classes, "simultaneous-failures")
	}
	if len(c.Slow) > 0 {
		res.Classes = append(res.Classes, "slow-call")
	}
	for _, h := range c.Hooks {
		if h.Kind == "task" {
			res.Classes = append(res.Classes, "hook-task")
			break
		}
	}

	// ---- "without harming the core"
	if tr.Crash != "" {
		sig := "core-crash"
		if strings.Contains(tr.Crash, "concurrent map") {
			sig = "core-crash:concurrent-map-writes"
		}
		return fail(sig, "the core died while handling failing hooks: %s", firstLines(tr.Crash, 12))
	}
	if rr := w.RaceReports(); rr != "" {
		for _, f := range []string{"callable.Calls.AwaitAll", "Environment).handleHooks", "runTasksAsHooks"} {
			if strings.Contains(rr, f) {
				return fail("data-race:"+f, "data race in the hook machinery: %s", firstLines(rr, 30))
			}
		}
	}
	if !tr.Created {
		res.Inconclusive = "creation failed: " + tr.CreateErr
		simworld.Discard()
		return
	}
	for i := 0; i < len(prep[c.T]); i++ {
		if tr.Results[i].Err != "" {
			res.Inconclusive = "preparation step failed: " + tr.Results[i].Err
			simworld.Discard()
			return
		}
	}
	// ---- locate the bracket of T: creation has 2 brackets, then the preparation steps
	bi := 2 + len(prep[c.T])
	if bi >= len(tr.Brackets) || tr.Brackets[bi].Event != c.T {
		return fail("bracket-missing", "transition %s was requested but not observed", c.T)
	}
	b := tr.Brackets[bi]

	// ---- model
	type group struct {
		moment, weight int
		hooks          []int
	}
	gm := map[string]*group{}
	for i, h := range c.Hooks {
		k := fmt.Sprintf("%d/%d", h.Moment, h.Weight)
		if gm[k] == nil {
			gm[k] = &group{moment: h.Moment, weight: h.Weight}
		}
		gm[k].hooks = append(gm[k].hooks, i)
	}
	var groups []*group
	for _, g := range gm {
		groups = append(groups, g)
	}
	sort.Slice(groups, func(i, j int) bool {
		if groups[i].moment != groups[j].moment {
			return groups[i].moment < groups[j].moment
		}
		return groups[i].weight < groups[j].weight
	})
	expectRun := map[int]string{} // hook -> yes | no | open
	cancelled := false             // a critical failure at before/leave: nothing later runs
	firstFailMoment := -1
	var critFailMoments []int // every moment at which a critical failure is reached (one if the transition is cancelled, possibly enter_ and after_)
	anyCritical := false
	openPass := map[string]bool{} // moment/pass in which a critical failure happened at enter/after: later weights of that pass are not claimed
	for _, g := range groups {
		pass := fmt.Sprintf("%d/%v", g.moment, g.weight < 0)
		for _, h := range g.hooks {
			switch {
			case cancelled:
				expectRun[h] = "no"
			case openPass[pass]:
				expectRun[h] = "open"
			default:
				expectRun[h] = "yes"
			}
		}
		if cancelled || openPass[pass] {
			continue
		}
		crit := false
		for _, h := range g.hooks {
			if c.Hooks[h].Fail != "" && c.Hooks[h].Critical {
				crit = true
			}
		}
		if crit {
			anyCritical = true
			if firstFailMoment < 0 {
				firstFailMoment = g.moment
			}
			critFailMoments = append(critFailMoments, g.moment)
			if g.moment <= 1 {
				cancelled = true
			} else {
				openPass[pass] = true
			}
		}
	}
	// ---- what actually ran inside T
	ran := map[int]int{}
	for _, p := range tr.Probes {
		if p.Phase == "start" && p.Bracket == bi {
			ran[p.Hook]++
		}
	}
	taskHookIDs := map[string]int{}
	for _, t := range w.Master.Tasks() {
		if t.EnvID == tr.EnvID {
			cl := simworld.ClassOf(t)
			if i := strings.LastIndex(cl, "k"); i >= 0 && strings.Contains(cl, "x") {
				var hi int
				if _, err := fmt.Sscanf(cl[i:], "k%d", &hi); err == nil && hi < len(c.Hooks) && c.Hooks[hi].Kind == "task" {
					taskHookIDs[t.ID] = hi
				}
			}
		}
	}
	taskCmds := 0
	for _, cm := range tr.Commands {
		if cm.Bracket != bi {
			continue
		}
		if cm.Name == "MesosCommand_TriggerHook" {
			if hi, ok := taskHookIDs[cm.TaskID]; ok {
				ran[hi]++
			}
		} else if _, isHook := taskHookIDs[cm.TaskID]; !isHook {
			taskCmds++
		}
	}
	// a call started during T has returned before T is over: the state machine does not move past the point where the
	// call is awaited (here always its own trigger point) while it is still out
	started, ended := map[int]bool{}, map[int]int{}
	for _, p := range tr.Probes {
		if p.Phase == "start" && p.Bracket == bi {
			started[p.Hook] = true
		}
	}
	for _, p := range tr.Probes {
		if p.Phase == "end" && started[p.Hook] {
			if _, seen := ended[p.Hook]; !seen || p.Bracket == bi {
				ended[p.Hook] = p.Bracket
			}
		}
	}
	for h := range started {
		if c.Hooks[h].Kind != "call" {
			continue
		}
		if eb, ok := ended[h]; !ok || eb != bi {
			return fail("moved-past-unreturned-call", "call hook %d (%s%+d, slow=%v) was started during %s and had not returned when %s was over (its end was seen %s)", h, moments[c.Hooks[h].Moment], c.Hooks[h].Weight, c.slow(h), c.T, c.T,
				map[bool]string{true: "never", false: "in a later transition"}[!ok])
		}
	}
	for i := range c.Hooks {
		switch expectRun[i] {
		case "yes":
			if ran[i] != 1 {
				return fail("hook-did-not-run", "hook %d (%s%+d) should have run once during %s, it ran %d time(s)", i, moments[c.Hooks[i].Moment], c.Hooks[i].Weight, c.T, ran[i])
			}
		case "no":
			if ran[i] != 0 {
				return fail("hook-ran-after-cancel", "hook %d (%s%+d) ran although a critical hook had failed earlier at a before_/leave_ moment of %s", i, moments[c.Hooks[i].Moment], c.Hooks[i].Weight, c.T)
			}
		}
	}
	// ---- verdict of the transition
	rT := tr.Results[len(prep[c.T])]
	if !anyCritical {
		if b.Result != "ok" || rT.State != dst || rT.Err != "" {
			return fail("noncritical-failure-reported", "only non-critical hooks failed (%d), yet %s reported %s (%s) and the API replied state=%s err=%s", nFail, c.T, b.Result, b.Error, rT.State, rT.Err)
		}
		if c.NTasks > 0 && taskCmds == 0 {
			return fail("tasks-not-commanded", "%s succeeded but no task command was sent", c.T)
		}
		return
	}
	if b.Result != "error" {
		return fail("critical-failure-not-reported", "a critical hook failed at %s but %s reported %s", moments[firstFailMoment], c.T, b.Result)
	}
	named := false
	for _, m := range critFailMoments {
		// when critical hooks fail both at enter_<state> and at after_<event> the statement does not say which of the
		// two failures the caller is told about: either trigger is accepted
		if strings.Contains(b.Error, moments[m]) {
			named = true
		}
	}
	if !named {
		return fail("error-does-not-name-trigger", "the error of %s does not name the failing trigger %s: %q", c.T, moments[firstFailMoment], b.Error)
	}
	if firstFailMoment <= 1 {
		if b.EndState != srcOf[c.T] {
			return fail("cancelled-but-moved", "a critical hook failed at %s, yet %s left the environment in %s instead of the source %s", moments[firstFailMoment], c.T, b.EndState, srcOf[c.T])
		}
		if taskCmds != 0 {
			return fail("commands-after-cancel", "a critical hook failed at %s, yet %d task commands were sent", moments[firstFailMoment], taskCmds)
		}
	} else {
		if b.EndState != dst {
			return fail("late-failure-lost-destination", "a critical hook failed at %s (after the tasks had transitioned), the environment must keep the destination %s but reports %s", moments[firstFailMoment], dst, b.EndState)
		}
		// the remaining moments still ran
		want := moments
		if strings.Join(b.Steps, ",") != strings.Join(want, ",") {
			return fail("remaining-moments-skipped", "after a critical failure at %s the moments of %s were %v, expected all of %v", moments[firstFailMoment], c.T, b.Steps, want)
		}
	}
	// the API then takes the environment to ERROR, starting from the state the failed transition left
	if bi+1 < len(tr.Brackets) && tr.Brackets[bi+1].Event == "GO_ERROR" {
		wantSrc := srcOf[c.T]
		if firstFailMoment > 1 {
			wantSrc = dst
		}
		if tr.Brackets[bi+1].SrcState != wantSrc {
			return fail("goerror-from-wrong-state", "after the failed %s the GO_ERROR transition started from %s, expected %s", c.T, tr.Brackets[bi+1].SrcState, wantSrc)
		}
	} else {
		return fail("no-goerror", "a failed %s was not followed by GO_ERROR", c.T)
	}
	if rT.State != "ERROR" {
		return fail("not-error-after-failure", "after the failed %s the API replied state %s", c.T, rT.State)
	}
	return
}

func firstLines(s string, n int) string {
	l := strings.Split(s, "\n")
	if len(l) > n {
		l = l[:n]
	}
	return strings.Join(l, "\n")
}

func gen(t *rapid.T) Case {
	c := Case{T: rapid.SampledFrom([]string{"START_ACTIVITY", "STOP_ACTIVITY", "RESET", "CONFIGURE"}).Draw(t, "T"), NTasks: rapid.IntRange(0, 2).Draw(t, "ntasks")}
	n := rapid.IntRange(1, 8).Draw(t, "hooks")
	exclMap := vh.Open("KF-C09-awaitall-concurrent-map")
	failingAt := map[string]bool{}
	for i := 0; i < n; i++ {
		h := H{Kind: "call", Moment: rapid.SampledFrom([]int{0, 0, 1, 3, 4}).Draw(t, "moment"), Weight: rapid.IntRange(-2, 2).Draw(t, "weight"), Critical: rapid.Bool().Draw(t, "critical")}
		if taskMomentOK(c.T, h.Moment) && rapid.IntRange(0, 3).Draw(t, "isTask") == 0 {
			h.Kind = "task"
		}
		if rapid.IntRange(0, 2).Draw(t, "fails") > 0 {
			if h.Kind == "call" {
				h.Fail = rapid.SampledFrom([]string{"error", "error", "timeout"}).Draw(t, "failKind")
			} else {
				h.Fail = rapid.SampledFrom([]string{"exit", "involuntary", "never"}).Draw(t, "failKind")
			}
		}
		k := fmt.Sprintf("%d/%d", h.Moment, h.Weight)
		if exclMap && h.Fail != "" && h.Kind == "call" && failingAt[k] {
			h.Fail = "" // at most one failing call per await point while the finding is open
		}
		if h.Fail != "" && h.Kind == "call" {
			failingAt[k] = true
		}
		if h.Kind == "call" && rapid.IntRange(0, 4).Draw(t, "slow") == 0 {
			c.Slow = append(c.Slow, i)
		}
		c.Hooks = append(c.Hooks, h)
	}
	return c
}

func TestHookFailures(t *testing.T) {
	defer simworld.Discard()
	vh.Check(t, prop, gen, vh.Confirmed(run))
}

func simultaneousCase(n int) Case {
	c := Case{T: "START_ACTIVITY", NTasks: 1}
	for i := 0; i < n; i++ {
		c.Hooks = append(c.Hooks, H{Kind: "call", Moment: 0, Weight: 0, Critical: i%2 == 0, Fail: "error"})
	}
	return c
}

func TestFixed(t *testing.T) {
	defer simworld.Discard()
	for _, T := range []string{"START_ACTIVITY", "STOP_ACTIVITY", "RESET", "CONFIGURE"} {
		for _, m := range []int{0, 1, 3, 4} {
			vh.Fixed(t, prop, fmt.Sprintf("%s-critical-call-fails-at-moment-%d", T, m), Case{T: T, NTasks: 1, Hooks: []H{
				{"call", 0, -1, false, ""}, {"call", m, 0, true, "error"}, {"call", m, 1, true, ""}, {"call", 4, 2, false, "error"}}}, vh.Confirmed(run))
		}
	}
	// a critical call fails at once while another call awaited at the same point is still out
	for _, m := range []int{0, 1, 3} {
		vh.Fixed(t, prop, fmt.Sprintf("critical-failure-while-sibling-call-is-out-moment-%d", m), Case{T: "START_ACTIVITY", NTasks: 1, Slow: []int{1, 2}, Hooks: []H{
			{"call", m, 0, true, "error"}, {"call", m, 0, false, ""}, {"call", m, 0, true, "error"}, {"call", 4, 1, false, ""}}}, vh.Confirmed(run))
	}
	// a critical and a non-critical hook fail at the same point (in either order of bookkeeping): later weights do not run
	vh.Fixed(t, prop, "critical-call-and-noncritical-task-fail-together", Case{T: "START_ACTIVITY", NTasks: 1, Hooks: []H{
		{"call", 0, 0, true, "error"}, {"task", 0, 0, false, "exit"}, {"call", 0, 1, false, ""}, {"call", 1, 0, false, ""}}}, vh.Confirmed(run))
	for rep := 0; rep < 4; rep++ {
		vh.Fixed(t, prop, fmt.Sprintf("critical-and-noncritical-calls-fail-together-%d", rep), Case{T: "RESET", NTasks: 1, Hooks: []H{
			{"call", 0, -1, false, "error"}, {"call", 0, -1, true, "error"}, {"call", 0, -1, false, "timeout"}, {"call", 0, 0, false, ""}, {"call", 1, 0, true, ""}}}, vh.Confirmed(run))
	}
	vh.Fixed(t, prop, "noncritical-everything-fails", Case{T: "START_ACTIVITY", NTasks: 2, Hooks: []H{
		{"call", 0, -1, false, "error"}, {"task", 0, 0, false, "exit"}, {"call", 1, 0, false, "timeout"}, {"task", 3, 1, false, "never"}, {"task", 4, 0, false, "involuntary"}}}, vh.Confirmed(run))
	vh.Fixed(t, prop, "critical-hook-task-exit", Case{T: "START_ACTIVITY", NTasks: 1, Hooks: []H{{"task", 0, 0, true, "exit"}, {"call", 1, 0, false, ""}}}, vh.Confirmed(run))
	vh.Fixed(t, prop, "critical-hook-task-timeout-after", Case{T: "STOP_ACTIVITY", NTasks: 1, Hooks: []H{{"task", 4, 0, true, "never"}, {"call", 4, 1, false, ""}}}, vh.Confirmed(run))
	if !vh.Open("KF-C09-awaitall-concurrent-map") {
		for rep := 0; rep < 6; rep++ {
			vh.Fixed(t, prop, fmt.Sprintf("six-simultaneous-failures-%d", rep), simultaneousCase(6), vh.Confirmed(run))
		}
	}
}

func TestCanaryAwaitAll(t *testing.T) {
	defer simworld.Discard()
	if !vh.Open("KF-C09-awaitall-concurrent-map") {
		return
	}
	// the crash is schedule dependent: repeat
	for i := 0; i < 40; i++ {
		r := run(simultaneousCase(8))
		if r.Violation != "" {
			vh.Canary(t, prop, "KF-C09-awaitall-concurrent-map", simultaneousCase(8), func(Case) vh.Result { return r })
			return
		}
	}
	vh.Canary(t, prop, "KF-C09-awaitall-concurrent-map", simultaneousCase(8), func(Case) vh.Result { return vh.Result{} })
}

var _ = time.Second

package c17

import (
	"bufio"
	"bytes"
	"encoding/json"
	"fmt"
	"os"
	"os/exec"
	"path/filepath"
	"strconv"
	"strings"
	"sync/atomic"
	"syscall"
	"testing"
	"time"

	"pgregory.net/rapid"

	"verifharness/vh"
)

const prop = "C17"

// ---- plan types (mirrors cmd/execworker) ----

type ChildSpec struct {
	ExitAfterMs        int
	ExitCode           int
	IgnoreSignals      bool
	Forks              int
	ForksIgnoreSignals bool
	AsUser             bool // the task command names a user (the one the executor itself runs as)
	MissingBinary      bool // no shell, and the named binary does not exist: the child never starts
}

type TransitionSpec struct {
	Outcome string
	DelayMs int
}

type DeviceSpec struct {
	ListenAfterMs int
	ReadyAfterMs  int
	InitialState  string
	ReportPid     bool
	Transitions   map[string]TransitionSpec
	ExitOnDoneMs  int
	FairMQ        bool // the device speaks the FairMQ state machine (control mode fairmq); Transitions are then keyed by device steps
}

type Step struct {
	DelayMs int
	Op      string
	Event   string
	Src     string
	Dst     string
	Async   bool
}

type Plan struct {
	Kind          string
	Dir           string
	Child         ChildSpec
	Device        DeviceSpec
	Steps         []Step
	HookTimeoutMs int
	OpTimeoutMs   int
	SettleMs      int
}

type Obs struct {
	T      int64  `json:"t"`
	Kind   string `json:"kind"`
	Step   int    `json:"step"`
	State  string `json:"state"`
	Detail string `json:"detail"`
	Alive  []int  `json:"alive"`
	Pgid   int    `json:"pgid"`
}

var caseSeq int64

var terminal = map[string]bool{"TASK_FINISHED": true, "TASK_FAILED": true, "TASK_KILLED": true, "TASK_LOST": true, "TASK_ERROR": true, "TASK_DROPPED": true, "TASK_GONE": true}

func scratch() string {
	d := os.Getenv("VERIF_SCRATCH")
	if d == "" {
		d = filepath.Join("/dev/shm", fmt.Sprintf("verif-c17-%d", os.Getpid()))
	}
	os.MkdirAll(d, 0o755)
	return d
}

func workerBin() string {
	return filepath.Join(os.Getenv("VERIF_BUILD"), "execworker")
}

// execute runs one plan in a fresh worker process
func execute(p *Plan) (obs []Obs, stderr string, exitCode int, timedOut bool, err error) {
	n := atomic.AddInt64(&caseSeq, 1)
	p.Dir = filepath.Join(scratch(), fmt.Sprintf("c%d", n))
	os.RemoveAll(p.Dir)
	if err = os.MkdirAll(p.Dir, 0o755); err != nil {
		return
	}
	defer os.RemoveAll(p.Dir)
	b, _ := json.Marshal(p)
	planFile := filepath.Join(p.Dir, "plan.json")
	os.WriteFile(planFile, b, 0o644)
	cmd := exec.Command(workerBin(), planFile)
	var out, errb bytes.Buffer
	cmd.Stdout, cmd.Stderr = &out, &errb
	cmd.SysProcAttr = &syscall.SysProcAttr{Setpgid: true}
	if err = cmd.Start(); err != nil {
		return
	}
	done := make(chan error, 1)
	go func() { done <- cmd.Wait() }()
	budget := 20 * time.Second
	for _, s := range p.Steps {
		budget += time.Duration(s.DelayMs)*time.Millisecond + time.Duration(p.OpTimeoutMs)*time.Millisecond
	}
	select {
	case werr := <-done:
		if ee, ok := werr.(*exec.ExitError); ok {
			exitCode = ee.ExitCode()
		}
	case <-time.After(budget):
		timedOut = true
		syscall.Kill(-cmd.Process.Pid, syscall.SIGKILL)
		<-done
	}
	// whatever the worker left behind (it may have crashed): kill the task's process group
	if pb, e := os.ReadFile(filepath.Join(p.Dir, "pids")); e == nil {
		for _, l := range strings.Split(string(pb), "\n") {
			f := strings.Fields(l)
			if len(f) == 2 {
				if pid, _ := strconv.Atoi(f[1]); pid > 1 {
					if f[0] == "wrapper" {
						syscall.Kill(-pid, syscall.SIGKILL)
					}
					syscall.Kill(pid, syscall.SIGKILL)
				}
			}
		}
	}
	sc := bufio.NewScanner(&out)
	sc.Buffer(make([]byte, 1<<20), 1<<20)
	for sc.Scan() {
		var o Obs
		if json.Unmarshal(sc.Bytes(), &o) == nil {
			obs = append(obs, o)
		}
	}
	stderr = errb.String()
	return
}

func panicSite(stderr string) string {
	lines := strings.Split(stderr, "\n")
	for i, l := range lines {
		if strings.HasPrefix(l, "goroutine ") && strings.Contains(l, "[running]") {
			for _, m := range lines[i+1:] {
				m = strings.TrimSpace(m)
				if strings.Contains(m, "Control/executor/") {
					if j := strings.LastIndex(m, "/"); j >= 0 {
						m = m[j+1:]
					}
					if j := strings.Index(m, "("); j > 0 && strings.HasSuffix(m, ")") {
						// strip the argument list, keep receiver type + method
						if k := strings.LastIndex(m, "("); k > 0 {
							m = m[:k]
						}
					}
					return m
				}
			}
		}
	}
	return "unknown"
}

// killBeforeReady: a kill request was issued to a controllable task that had not yet reported TASK_RUNNING
func killBeforeReady(p *Plan, obs []Obs) bool {
	ready := false
	for _, o := range obs {
		if o.Kind == "status" && o.State == "TASK_RUNNING" {
			ready = true
		}
		if o.Kind == "op-start" && o.Step >= 0 && p.Steps[o.Step].Op == "kill" {
			return !ready
		}
	}
	return false
}

// Verdict of one executed plan: every violated clause with its signature
type finding struct{ sig, msg string }

func judge(p *Plan, obs []Obs, stderr string, exitCode int, timedOut bool) (fs []finding, classes []string) {
	add := func(sig, f string, a ...interface{}) { fs = append(fs, finding{sig, fmt.Sprintf(f, a...)}) }
	if timedOut {
		add("worker-hang", "the executor stand-in did not finish within its budget")
	}
	if exitCode != 0 && !timedOut {
		if strings.Contains(stderr, "panic:") || strings.Contains(stderr, "fatal error:") {
			first := stderr
			if i := strings.Index(first, "\n\n"); i > 0 && i < 600 {
				first = first[:i]
			}
			sig := "executor-crash:" + panicSite(stderr)
			if p.Kind == "direct" && killBeforeReady(p, obs) {
				sig = "crash:kill-before-ready"
			}
			add(sig, "the executor crashed: %s", strings.TrimSpace(first))
		} else {
			add("worker-exit", "worker exited with code %d: %s", exitCode, stderr)
		}
	}
	// ---- timeline
	killStart, killEnd := int64(-1), int64(-1)
	var statuses []Obs
	var btts []Obs
	stopRunningAt := int64(-1) // a STOP was issued to a basic task whose child was started
	started := false
	childStartedAt := int64(-1)
	if p.Kind == "direct" {
		childStartedAt = 0
	}
	// surelyAlive: the child cannot have exited by itself before T (300 ms margin)
	surelyAlive := func(T int64) bool {
		return childStartedAt >= 0 && (p.Child.ExitAfterMs < 0 || T < childStartedAt+int64(p.Child.ExitAfterMs)-300)
	}
	killAlive, stopAlive := false, map[int]bool{}
	for i, o := range obs {
		if o.Kind == "cleanup" {
			obs = obs[:i] // what follows is the harness removing what is left
			break
		}
	}
	stopStart := map[int]int64{}
	for _, o := range obs {
		switch o.Kind {
		case "status":
			statuses = append(statuses, o)
		case "devevent":
			if strings.HasPrefix(o.Detail, "BASIC_TASK_TERMINATED") {
				btts = append(btts, o)
			}
		case "op-start":
			if o.Step >= 0 && p.Steps[o.Step].Op == "kill" {
				killStart = o.T
				killAlive = surelyAlive(o.T)
			}
			if o.Step >= 0 && p.Kind == "basic" && p.Steps[o.Step].Event == "STOP" && started {
				stopRunningAt = o.T
				stopAlive[o.Step] = surelyAlive(o.T)
				stopStart[o.Step] = o.T
			}
		case "op-end":
			if o.Step >= 0 && p.Steps[o.Step].Op == "kill" {
				killEnd = o.T
			}
			if o.Step >= 0 && p.Kind == "basic" && p.Steps[o.Step].Event == "START" && o.State == "RUNNING" {
				started = true
				childStartedAt = o.T
			}
		case "op-hang":
			st := Step{}
			if o.Step >= 0 {
				st = p.Steps[o.Step]
			}
			deviceHang := false
			if p.Kind == "direct" && st.Op == "transition" && p.Device.Transitions[st.Event].Outcome == "hang" {
				deviceHang = true // the device itself never answers: not the executor's doing
			}
			if p.Kind == "direct" && p.Device.FairMQ && st.Op == "transition" {
				for _, ts := range p.Device.Transitions {
					if ts.Outcome == "hang" {
						deviceHang = true // one of the device steps behind this transition never answers
					}
				}
			}
			if !deviceHang {
				add("request-hangs:"+st.Op+" "+st.Event, "request %q had not returned after %d ms", o.Detail, p.OpTimeoutMs)
			}
		}
	}
	// (5) the end of a run is reported: a basic task's (or hook's) command that exits by itself is announced (BASIC_TASK_TERMINATED)
	// within 2 s of its exit, also when it leaves processes behind that still hold its output. Judged when nothing else was asked of
	// the task between the start and 2.5 s after the exit.
	if (p.Kind == "basic" || p.Kind == "hook") && p.Child.ExitAfterMs >= 0 && !p.Child.MissingBinary {
		startAt, startStep := int64(-1), -1
		for _, o := range obs {
			if o.Kind != "op-end" || o.Step < 0 {
				continue
			}
			st := p.Steps[o.Step]
			if (p.Kind == "basic" && st.Event == "START" && o.State == "RUNNING") || (p.Kind == "hook" && st.Op == "trigger" && strings.Contains(o.Detail, "err=<nil>")) {
				startAt, startStep = o.T, o.Step
				break
			}
		}
		if startAt >= 0 {
			exitAt := startAt + int64(p.Child.ExitAfterMs)
			horizon := int64(0)
			for _, o := range obs {
				if o.T > horizon {
					horizon = o.T
				}
			}
			for _, o := range obs {
				if o.Kind == "op-start" && o.Step > startStep && o.T < horizon {
					horizon = o.T
				}
			}
			if horizon >= exitAt+2500 {
				classes = append(classes, "child-exit-to-be-reported")
				reported := false
				for _, b := range btts {
					if b.T >= startAt && b.T <= exitAt+2000 {
						reported = true
					}
				}
				for _, s := range statuses {
					if terminal[s.State] && s.T >= startAt && s.T <= exitAt+2000 {
						reported = true
					}
				}
				if !reported {
					add("child-exit-not-reported", "the %s task's command exited by itself about %d ms after its start (%d forked process(es) left behind); 2 s later neither BASIC_TASK_TERMINATED nor a final status had been reported", p.Kind, p.Child.ExitAfterMs, p.Child.Forks)
				}
			}
		}
	}
	// (1) at most one terminal status, nothing after it
	nTerm, firstTerm := 0, -1
	for i, s := range statuses {
		if terminal[s.State] {
			nTerm++
			if firstTerm < 0 {
				firstTerm = i
			}
		}
	}
	if nTerm > 1 {
		var l []string
		for _, s := range statuses {
			l = append(l, fmt.Sprintf("%s@%dms", s.State, s.T))
		}
		add("two-terminal-statuses", "%d terminal statuses were reported: %s", nTerm, strings.Join(l, ", "))
	} else if firstTerm >= 0 && firstTerm != len(statuses)-1 {
		var l []string
		for _, s := range statuses {
			l = append(l, fmt.Sprintf("%s@%dms", s.State, s.T))
		}
		add("status-after-terminal", "a status was reported after the terminal one: %s", strings.Join(l, ", "))
	}
	// (2) killed on request => not FAILED. Judged only when the task would have lived on: the child never exits by itself
	// and (controllable) the device had become ready before the kill.
	livesOn := p.Child.ExitAfterMs < 0 && !p.Child.MissingBinary
	for _, ts := range p.Device.Transitions {
		if ts.Outcome == "crash" {
			livesOn = false // the device may die while handling a transition
		}
	}
	readyBeforeKill := true
	if p.Kind == "direct" {
		readyBeforeKill = false
		for _, s := range statuses {
			if s.State == "TASK_RUNNING" && killStart >= 0 && s.T < killStart {
				readyBeforeKill = true
			}
		}
	}
	if killStart >= 0 && livesOn && readyBeforeKill && firstTerm >= 0 && statuses[firstTerm].State == "TASK_FAILED" && statuses[firstTerm].T >= killStart {
		add("killed-task-reported-failed", "the task was alive and ready when the kill request arrived at %d ms, yet its terminal status is TASK_FAILED (%s)", killStart, statuses[firstTerm].Detail)
	}
	if p.Kind == "basic" && livesOn {
		// the run ended by a STOP is reported by the first BASIC_TASK_TERMINATED after that STOP
		for st, ts := range stopStart {
			if !stopAlive[st] {
				continue
			}
			for _, b := range btts {
				if b.T >= ts {
					if b.State == "TASK_FAILED" {
						add("stopped-task-reported-failed", "the child was running when STOP arrived at %d ms, yet BASIC_TASK_TERMINATED carries TASK_FAILED", ts)
					}
					break
				}
			}
		}
	}
	// (3) no survivors: after a kill (any controllable/basic task) or a STOP of a started basic task the group is gone
	if p.Kind != "hook" {
		for _, o := range obs {
			if len(o.Alive) == 0 || (o.Kind != "group" && o.Kind != "op-start") {
				continue
			}
			if killEnd >= 0 && killAlive && o.T >= killEnd+500 {
				add("survivors-after-kill", "%d process(es) of the task's process group were still alive %d ms after the kill request had returned", len(o.Alive), o.T-killEnd)
				break
			}
		}
		if p.Kind == "basic" {
			// STOP: find its end
			for _, e := range obs {
				if e.Kind == "op-end" && e.Step >= 0 && p.Steps[e.Step].Event == "STOP" && e.State == "CONFIGURED" && stopAlive[e.Step] {
					for _, o := range obs {
						if len(o.Alive) > 0 && (o.Kind == "group" || o.Kind == "op-start") && o.T >= e.T+500 && !(o.Kind == "op-start" && false) {
							// a later START creates a new group: only judge observations before the next START finished
							restarted := false
							for _, x := range obs {
								if x.Kind == "op-end" && x.Step > e.Step && p.Steps[x.Step].Event == "START" && x.T <= o.T {
									restarted = true
								}
							}
							if !restarted {
								add("survivors-after-stop", "%d process(es) of the basic task's process group were still alive %d ms after STOP had returned", len(o.Alive), o.T-e.T)
							}
							break
						}
					}
				}
			}
		}
	}
	// classes
	classes = append(classes, "kind:"+p.Kind)
	if p.Child.MissingBinary {
		classes = append(classes, "binary-missing")
	}
	if killStart >= 0 {
		classes = append(classes, "kill")
	}
	if p.Child.IgnoreSignals {
		classes = append(classes, "child-ignores-signals")
	}
	if p.Child.Forks > 0 {
		classes = append(classes, "child-forks")
	}
	if p.Child.ExitAfterMs >= 0 {
		classes = append(classes, "child-exits-by-itself")
	}
	if p.Kind == "direct" && killStart >= 0 && !readyBeforeKill {
		classes = append(classes, "kill-before-ready")
	}
	if p.Kind == "basic" && killStart >= 0 && started {
		classes = append(classes, "kill-after-start")
	}
	if stopRunningAt >= 0 {
		classes = append(classes, "stop-after-start")
	}
	return
}

// Known findings are excluded by construction so that the search continues behind them: a plan that would only
// re-discover one of them is not run (counted as excluded), see known_findings.json.
func excludedBy(p *Plan) string {
	if p.Kind == "direct" && vh.Open("KF-C17-kill-during-startup") {
		for _, s := range p.Steps {
			if s.Op == "await" {
				break
			}
			if s.Op == "kill" {
				return "KF-C17-kill-during-startup"
			}
		}
	}
	return ""
}

func run(p Plan) (res vh.Result) {
	if ex := excludedBy(&p); ex != "" {
		res.ExcludedBy = ex
		return
	}
	return runRaw(p)
}

func runRaw(p Plan) (res vh.Result) {
	obs, stderr, code, timedOut, err := execute(&p)
	if err != nil {
		res.Inconclusive = "worker: " + err.Error()
		return
	}
	if code == 4 && strings.Contains(stderr, "no free port") {
		res.Inconclusive = "the worker found no free port for a minute (machine out of ephemeral ports)"
		return
	}
	fs, classes := judge(&p, obs, stderr, code, timedOut)
	res.Classes = classes
	nKill := 0
	for _, s := range p.Steps {
		if s.Op == "kill" || s.Event == "STOP" {
			nKill++
		}
	}
	res.NonTrivial = nKill > 0
	var tl []string
	for _, o := range obs {
		if o.Kind == "message" {
			continue
		}
		tl = append(tl, fmt.Sprintf("%5d %s step=%d %s %s alive=%v", o.T, o.Kind, o.Step, o.State, o.Detail, o.Alive))
	}
	res.History = map[string]interface{}{"timeline": tl, "stderr": firstN(stderr, 2500)}
	if len(fs) > 0 {
		// report the first finding that is not a known one; known ones are reported by the canaries
		for _, f := range fs {
			res.Violation = f.msg
			res.Signature = f.sig
			break
		}
	}
	return
}

func firstN(s string, n int) string {
	if len(s) > n {
		return s[:n]
	}
	return s
}

// ---------------------------------------------------------------------------------------------

var delays = []int{0, 0, 20, 100, 250, 600, 1200}

func genChild(t *rapid.T) ChildSpec {
	c := ChildSpec{ExitAfterMs: -1}
	if rapid.IntRange(0, 9).Draw(t, "exits") < 4 {
		c.ExitAfterMs = rapid.SampledFrom([]int{50, 300, 800, 1500}).Draw(t, "exitAfter")
	}
	c.ExitCode = rapid.SampledFrom([]int{0, 0, 1, 3}).Draw(t, "exitCode")
	c.IgnoreSignals = rapid.IntRange(0, 3).Draw(t, "ignores") == 0
	c.Forks = rapid.SampledFrom([]int{0, 0, 1, 2}).Draw(t, "forks")
	c.ForksIgnoreSignals = c.Forks > 0 && rapid.IntRange(0, 3).Draw(t, "forksIgnore") == 0
	c.AsUser = rapid.IntRange(0, 3).Draw(t, "asUser") == 0
	c.MissingBinary = rapid.IntRange(0, 7).Draw(t, "missingBinary") == 0
	return c
}

var fsmNext = map[string][][2]string{
	"STANDBY":    {{"CONFIGURE", "CONFIGURED"}},
	"CONFIGURED": {{"START", "RUNNING"}, {"START", "RUNNING"}, {"RESET", "STANDBY"}},
	"RUNNING":    {{"STOP", "CONFIGURED"}},
}

func genWalk(t *rapid.T, maxLen int) []Step {
	var steps []Step
	state := "STANDBY"
	n := rapid.IntRange(0, maxLen).Draw(t, "walkLen")
	for i := 0; i < n; i++ {
		nx := rapid.SampledFrom(fsmNext[state]).Draw(t, "event")
		steps = append(steps, Step{DelayMs: rapid.SampledFrom(delays).Draw(t, "delay"), Op: "transition", Event: nx[0], Src: state, Dst: nx[1]})
		state = nx[1]
	}
	return steps
}

func genPlan(t *rapid.T) Plan {
	p := Plan{OpTimeoutMs: 8000, SettleMs: 1000}
	p.Kind = rapid.SampledFrom([]string{"basic", "basic", "hook", "direct", "direct"}).Draw(t, "kind")
	p.Child = genChild(t)
	switch p.Kind {
	case "basic":
		p.Steps = genWalk(t, 6)
		if rapid.IntRange(0, 9).Draw(t, "kill") < 7 {
			p.Steps = append(p.Steps, Step{DelayMs: rapid.SampledFrom(delays).Draw(t, "killDelay"), Op: "kill"})
		}
	case "hook":
		p.HookTimeoutMs = rapid.SampledFrom([]int{500, 1500, 3000}).Draw(t, "hookTimeout")
		n := rapid.IntRange(0, 3).Draw(t, "triggers")
		killAt := rapid.IntRange(0, n+1).Draw(t, "killAt") // n+1: no kill
		for i := 0; i <= n; i++ {
			if i == killAt {
				p.Steps = append(p.Steps, Step{DelayMs: rapid.SampledFrom(delays).Draw(t, "killDelay"), Op: "kill"})
			}
			if i < n {
				p.Steps = append(p.Steps, Step{DelayMs: rapid.SampledFrom(delays).Draw(t, "delay"), Op: "trigger"})
			}
		}
		p.SettleMs = 500
	case "direct":
		p.OpTimeoutMs = 25000
		d := DeviceSpec{ReportPid: rapid.IntRange(0, 9).Draw(t, "reportPid") < 7, Transitions: map[string]TransitionSpec{}}
		d.ListenAfterMs = rapid.SampledFrom([]int{0, 0, 300, 1500}).Draw(t, "listenAfter")
		d.ReadyAfterMs = rapid.SampledFrom([]int{0, 0, 400, 1500}).Draw(t, "readyAfter")
		d.InitialState = rapid.SampledFrom([]string{"STANDBY", "STANDBY", "STANDBY", "STANDBY", "STANDBY", "STANDBY", "ERROR", "DONE"}).Draw(t, "initialState")
		d.ExitOnDoneMs = rapid.SampledFrom([]int{-1, 0, 0, 300, 2500}).Draw(t, "exitOnDone")
		d.FairMQ = rapid.IntRange(0, 2).Draw(t, "fairmq") == 0
		events := []string{"CONFIGURE", "START", "STOP", "RESET", "EXIT"}
		if d.FairMQ {
			events = []string{"INIT DEVICE", "COMPLETE INIT", "BIND", "CONNECT", "INIT TASK", "RUN", "STOP", "RESET TASK", "RESET DEVICE", "END"}
		}
		for _, ev := range events {
			if rapid.IntRange(0, len(events)).Draw(t, "special-"+ev) == 0 {
				d.Transitions[ev] = TransitionSpec{Outcome: rapid.SampledFrom([]string{"refuse", "error", "hang", "ok", "crash"}).Draw(t, "outcome-"+ev), DelayMs: rapid.SampledFrom([]int{0, 200, 1500}).Draw(t, "tdelay-"+ev)}
			}
		}
		p.Device = d
		if rapid.IntRange(0, 3).Draw(t, "early") == 0 {
			// the kill arrives at some instant of the start-up
			p.Steps = []Step{{DelayMs: rapid.SampledFrom([]int{0, 50, 250, 600, 1200, 2500}).Draw(t, "killDelay"), Op: "kill"}}
		} else {
			p.Steps = []Step{{DelayMs: 8000, Op: "await"}}
			walk := genWalk(t, 5)
			// the core does not continue after a failed transition except towards teardown
			p.Steps = append(p.Steps, walk...)
			if rapid.IntRange(0, 9).Draw(t, "kill") < 8 {
				p.Steps = append(p.Steps, Step{DelayMs: rapid.SampledFrom(delays).Draw(t, "killDelay"), Op: "kill"})
			}
		}
	}
	return p
}

func TestTaskLife(t *testing.T) {
	vh.Check(t, prop, genPlan, run)
}

func tr(delay int, ev, src, dst string) Step {
	return Step{DelayMs: delay, Op: "transition", Event: ev, Src: src, Dst: dst}
}

var lives = ChildSpec{ExitAfterMs: -1}

func basicPlan(child ChildSpec, steps ...Step) Plan {
	return Plan{Kind: "basic", Child: child, Steps: steps, OpTimeoutMs: 8000, SettleMs: 1000}
}

func directPlan(child ChildSpec, dev DeviceSpec, steps ...Step) Plan {
	if dev.Transitions == nil {
		dev.Transitions = map[string]TransitionSpec{}
	}
	return Plan{Kind: "direct", Child: child, Device: dev, Steps: steps, OpTimeoutMs: 25000, SettleMs: 1000}
}

var readyDev = DeviceSpec{InitialState: "STANDBY", ReportPid: true, ExitOnDoneMs: 0}

func TestFixed(t *testing.T) {
	conf, start, stop := tr(0, "CONFIGURE", "STANDBY", "CONFIGURED"), tr(50, "START", "CONFIGURED", "RUNNING"), tr(600, "STOP", "RUNNING", "CONFIGURED")
	vh.Fixed(t, prop, "basic-start-stop-while-running", basicPlan(lives, conf, start, stop), run)
	vh.Fixed(t, prop, "basic-start-stop-after-child-exited", basicPlan(ChildSpec{ExitAfterMs: 100}, conf, start, stop), run)
	vh.Fixed(t, prop, "basic-start-stop-after-child-failed", basicPlan(ChildSpec{ExitAfterMs: 100, ExitCode: 3}, conf, start, stop), run)
	vh.Fixed(t, prop, "basic-start-stop-start-stop", basicPlan(ChildSpec{ExitAfterMs: -1, Forks: 1}, conf, start, stop, tr(300, "START", "CONFIGURED", "RUNNING"), stop), run)
	vh.Fixed(t, prop, "basic-with-user-start-stop-start-kill", basicPlan(ChildSpec{ExitAfterMs: -1, Forks: 1, AsUser: true}, conf, start, stop, tr(300, "START", "CONFIGURED", "RUNNING"), Step{DelayMs: 400, Op: "kill"}), run)
	vh.Fixed(t, prop, "basic-kill-immediately-after-start", basicPlan(lives, conf, start, Step{Op: "kill"}), run)
	vh.Fixed(t, prop, "basic-kill-while-running", basicPlan(ChildSpec{ExitAfterMs: -1, Forks: 1}, conf, start, Step{DelayMs: 600, Op: "kill"}), run)
	vh.Fixed(t, prop, "basic-kill-right-after-launch", basicPlan(lives, Step{DelayMs: 20, Op: "kill"}), run)
	vh.Fixed(t, prop, "basic-stop-never-started", basicPlan(lives, conf, tr(0, "RESET", "CONFIGURED", "STANDBY"), Step{DelayMs: 300, Op: "kill"}), run)
	leaves := ChildSpec{ExitAfterMs: 300, Forks: 1}
	vh.Fixed(t, prop, "basic-command-exits-leaving-a-process-behind", basicPlan(leaves, conf, start, Step{DelayMs: 3500, Op: "kill"}), run)
	vh.Fixed(t, prop, "hook-command-exits-leaving-a-process-behind", Plan{Kind: "hook", Child: leaves, HookTimeoutMs: 5000, OpTimeoutMs: 8000, SettleMs: 500,
		Steps: []Step{{DelayMs: 300, Op: "trigger"}, {DelayMs: 3500, Op: "kill"}}}, run)
	nobin := ChildSpec{ExitAfterMs: -1, MissingBinary: true}
	vh.Fixed(t, prop, "basic-binary-missing-start-then-kill", basicPlan(nobin, conf, start, Step{DelayMs: 300, Op: "kill"}), run)
	vh.Fixed(t, prop, "basic-binary-missing-start-stop-start-kill", basicPlan(nobin, conf, start, stop, tr(300, "START", "CONFIGURED", "RUNNING"), Step{DelayMs: 300, Op: "kill"}), run)
	vh.Fixed(t, prop, "hook-binary-missing-trigger-kill", Plan{Kind: "hook", Child: nobin, HookTimeoutMs: 1500, OpTimeoutMs: 8000, SettleMs: 500,
		Steps: []Step{{DelayMs: 300, Op: "trigger"}, {DelayMs: 100, Op: "kill"}}}, run)
	vh.Fixed(t, prop, "hook-trigger-kill-trigger", Plan{Kind: "hook", Child: ChildSpec{ExitAfterMs: 100}, HookTimeoutMs: 1500, OpTimeoutMs: 8000, SettleMs: 500,
		Steps: []Step{{DelayMs: 300, Op: "trigger"}, {Op: "kill"}, {Op: "trigger"}}}, run)
	vh.Fixed(t, prop, "hook-kill-right-after-trigger", Plan{Kind: "hook", Child: ChildSpec{ExitAfterMs: 100}, HookTimeoutMs: 1500, OpTimeoutMs: 8000, SettleMs: 500,
		Steps: []Step{{DelayMs: 300, Op: "trigger"}, {Op: "kill"}}}, run)
	await := Step{DelayMs: 8000, Op: "await"}
	vh.Fixed(t, prop, "direct-binary-missing-launch-then-kill", directPlan(nobin, DeviceSpec{InitialState: "STANDBY", ReportPid: true, ExitOnDoneMs: -1}, await, Step{DelayMs: 300, Op: "kill"}), run)
	vh.Fixed(t, prop, "direct-walk-and-kill", directPlan(lives, readyDev, await, conf, start, Step{DelayMs: 300, Op: "kill"}), run)
	vh.Fixed(t, prop, "direct-kill-child-exits-nonzero-on-done", directPlan(ChildSpec{ExitAfterMs: -1, ExitCode: 3}, DeviceSpec{InitialState: "STANDBY", ReportPid: true, ExitOnDoneMs: 300}, await, conf, Step{DelayMs: 300, Op: "kill"}), run)
	vh.Fixed(t, prop, "direct-kill-child-exits-nonzero-immediately-on-exit", directPlan(ChildSpec{ExitAfterMs: -1, ExitCode: 3}, DeviceSpec{InitialState: "STANDBY", ReportPid: true, ExitOnDoneMs: 0}, await, Step{DelayMs: 300, Op: "kill"}), run)
	vh.Fixed(t, prop, "direct-kill-pid-unknown-child-ignores-signals", directPlan(ChildSpec{ExitAfterMs: -1, IgnoreSignals: true}, DeviceSpec{InitialState: "STANDBY", ReportPid: false, ExitOnDoneMs: -1, Transitions: map[string]TransitionSpec{"EXIT": {Outcome: "refuse"}}}, await, Step{DelayMs: 300, Op: "kill"}), run)
	vh.Fixed(t, prop, "direct-kill-pid-unknown-exits-on-done-forks-remain", directPlan(ChildSpec{ExitAfterMs: -1, Forks: 2}, DeviceSpec{InitialState: "STANDBY", ReportPid: false, ExitOnDoneMs: 0}, await, Step{DelayMs: 300, Op: "kill"}), run)
	vh.Fixed(t, prop, "direct-kill-child-ignores-signals", directPlan(ChildSpec{ExitAfterMs: -1, IgnoreSignals: true}, DeviceSpec{InitialState: "STANDBY", ReportPid: true, ExitOnDoneMs: -1}, await, Step{DelayMs: 300, Op: "kill"}), run)
	vh.Fixed(t, prop, "direct-kill-pid-unknown", directPlan(ChildSpec{ExitAfterMs: -1, Forks: 1}, DeviceSpec{InitialState: "STANDBY", ReportPid: false, ExitOnDoneMs: -1}, await, Step{DelayMs: 300, Op: "kill"}), run)
	vh.Fixed(t, prop, "direct-with-user-kill-pid-unknown", directPlan(ChildSpec{ExitAfterMs: -1, Forks: 1, AsUser: true}, DeviceSpec{InitialState: "STANDBY", ReportPid: false, ExitOnDoneMs: -1}, await, Step{DelayMs: 300, Op: "kill"}), run)
	fmqDev := func(tr map[string]TransitionSpec) DeviceSpec {
		return DeviceSpec{InitialState: "STANDBY", ReportPid: true, ExitOnDoneMs: 0, FairMQ: true, Transitions: tr}
	}
	vh.Fixed(t, prop, "fairmq-walk-and-kill-while-running", directPlan(lives, fmqDev(nil), await, conf, start, Step{DelayMs: 300, Op: "kill"}), run)
	vh.Fixed(t, prop, "fairmq-kill-device-refuses-reset-device", directPlan(lives, fmqDev(map[string]TransitionSpec{"RESET DEVICE": {Outcome: "refuse"}}), await, conf, start, Step{DelayMs: 300, Op: "kill"}), run)
	vh.Fixed(t, prop, "fairmq-kill-configured-device-refuses-reset-task", directPlan(ChildSpec{ExitAfterMs: -1, Forks: 1}, fmqDev(map[string]TransitionSpec{"RESET TASK": {Outcome: "refuse"}}), await, conf, Step{DelayMs: 300, Op: "kill"}), run)
	vh.Fixed(t, prop, "fairmq-configure-stuck-at-bind-rollback-refused-then-kill", directPlan(lives, fmqDev(map[string]TransitionSpec{"BIND": {Outcome: "refuse"}, "RESET DEVICE": {Outcome: "refuse"}}), await, conf, Step{DelayMs: 300, Op: "kill"}), run)
	vh.Fixed(t, prop, "fairmq-configure-stuck-at-connect-rollback-refused-then-kill", directPlan(ChildSpec{ExitAfterMs: -1, Forks: 1}, fmqDev(map[string]TransitionSpec{"CONNECT": {Outcome: "refuse"}, "RESET DEVICE": {Outcome: "refuse"}}), await, conf, Step{DelayMs: 300, Op: "kill"}), run)
	vh.Fixed(t, prop, "fairmq-configure-stuck-at-bind-then-kill", directPlan(lives, fmqDev(map[string]TransitionSpec{"BIND": {Outcome: "refuse"}}), await, conf, Step{DelayMs: 300, Op: "kill"}), run)
	vh.Fixed(t, prop, "direct-kill-with-forks", directPlan(ChildSpec{ExitAfterMs: -1, Forks: 2}, readyDev, await, Step{DelayMs: 300, Op: "kill"}), run)
	vh.Fixed(t, prop, "direct-kill-after-child-died", directPlan(ChildSpec{ExitAfterMs: 300, ExitCode: 1}, readyDev, await, Step{DelayMs: 1000, Op: "kill"}), run)
	vh.Fixed(t, prop, "direct-device-dies-while-handling-start", directPlan(lives, DeviceSpec{InitialState: "STANDBY", ReportPid: true, ExitOnDoneMs: -1, Transitions: map[string]TransitionSpec{"START": {Outcome: "crash"}}}, await, conf, start, Step{DelayMs: 300, Op: "kill"}), run)
	vh.Fixed(t, prop, "direct-device-dies-while-handling-configure", directPlan(ChildSpec{ExitAfterMs: -1, Forks: 1}, DeviceSpec{InitialState: "STANDBY", ReportPid: true, ExitOnDoneMs: -1, Transitions: map[string]TransitionSpec{"CONFIGURE": {Outcome: "crash"}}}, await, conf), run)
	vh.Fixed(t, prop, "direct-second-kill-while-the-first-waits-for-the-device-to-exit", directPlan(lives, DeviceSpec{InitialState: "STANDBY", ReportPid: true, ExitOnDoneMs: 1200}, await, conf, Step{DelayMs: 200, Op: "kill", Async: true}, Step{DelayMs: 150, Op: "kill"}), run)
	vh.Fixed(t, prop, "direct-kill-device-hangs-on-stop", directPlan(lives, DeviceSpec{InitialState: "STANDBY", ReportPid: true, ExitOnDoneMs: 0, Transitions: map[string]TransitionSpec{"STOP": {Outcome: "hang"}}}, await, conf, start, Step{DelayMs: 300, Op: "kill"}), run)
}

// Open finding: a kill request that reaches a controllable task before it reported TASK_RUNNING crashes the executor
// (ControllableTask.Kill dereferences the nil control client; once the client exists, Kill closes and resets it
// under the feet of the start-up polling loop).
func TestCanaryKillDuringStartup(t *testing.T) {
	vh.Canary(t, prop, "KF-C17-kill-during-startup", directPlan(lives, DeviceSpec{InitialState: "STANDBY", ReportPid: true, ListenAfterMs: 1500, ExitOnDoneMs: 0}, Step{DelayMs: 300, Op: "kill"}), runRaw)
	vh.Canary(t, prop, "KF-C17-kill-during-startup", directPlan(lives, DeviceSpec{InitialState: "STANDBY", ReportPid: true, ListenAfterMs: 0, ReadyAfterMs: 2500, ExitOnDoneMs: 0}, Step{DelayMs: 700, Op: "kill"}), runRaw)
}

// TestKillExitRace repeats the schedule-dependent shape "the task exits with a non-zero code the moment it receives
// EXIT during a requested kill": the final status must never be TASK_FAILED.
func TestKillExitRace(t *testing.T) {
	n := vh.Scale(6, 60)
	for i := 0; i < n; i++ {
		delay := []int{0, 20, 100, 250, 600}[i%5]
		vh.Fixed(t, prop, fmt.Sprintf("exit-nonzero-on-EXIT-%d", i), directPlan(ChildSpec{ExitAfterMs: -1, ExitCode: 1 + i%3}, DeviceSpec{InitialState: "STANDBY", ReportPid: i%2 == 0, ExitOnDoneMs: 0}, Step{DelayMs: 8000, Op: "await"}, Step{DelayMs: delay, Op: "kill"}), run)
	}
}

package c20

// The REST face of the same semantics (apricot/local/servicehttp.go): GET /components/{component}/{RUNTYPE}/{role}/{entry}/resolve
// answers with the resolved raw path, GET /components/{component}/{RUNTYPE}/{role}/{entry} with the payload. One HTTP service is
// started per test process on a free port in front of a switchable configuration.Service; every resolve case is asked again
// over HTTP and must agree with the reference (first existing candidate / failure) and with the payload of that entry.

import (
	"fmt"
	"io"
	"net"
	"net/http"
	"strings"
	"sync"
	"time"

	"github.com/AliceO2Group/Control/apricot/local"
	"github.com/AliceO2Group/Control/configuration"
	"github.com/spf13/viper"
)

type switchable struct{ configuration.Service }

var (
	restOnce sync.Once
	restSvc  = &switchable{}
	restAddr string
	restErr  error
)

func restStart() {
	for attempt := 0; attempt < 5; attempt++ {
		l, err := net.Listen("tcp", "127.0.0.1:0")
		if err != nil {
			restErr = err
			continue
		}
		port := l.Addr().(*net.TCPAddr).Port
		l.Close()
		viper.Set("httpListenPort", port)
		local.NewHttpService(restSvc)
		addr := fmt.Sprintf("127.0.0.1:%d", port)
		for i := 0; i < 100; i++ {
			c, err := net.DialTimeout("tcp", addr, 100*time.Millisecond)
			if err == nil {
				c.Close()
				restAddr, restErr = addr, nil
				return
			}
			time.Sleep(10 * time.Millisecond)
		}
		restErr = fmt.Errorf("REST service did not come up on %s", addr)
	}
}

// restGet returns status and body (trailing newline removed); err only for transport failures
func restGet(path string) (int, string, error) {
	restOnce.Do(restStart)
	if restErr != nil {
		return 0, "", restErr
	}
	resp, err := http.Get("http://" + restAddr + path)
	if err != nil {
		return 0, "", err
	}
	defer resp.Body.Close()
	b, _ := io.ReadAll(resp.Body)
	return resp.StatusCode, strings.TrimSuffix(string(b), "\n"), nil
}

// restRound: the REST answers for the case's query against the reference
func restRound(c ResolveCase, be *backend, kv kvset, want int, cand [4]string) (violation, sig, inconclusive string) {
	restSvc.Service = be.svc
	base := "/components/" + c.Component + "/" + c.RunType + "/" + c.Role + "/" + c.Entry
	code, body, err := restGet(base + "/resolve")
	if err != nil {
		return "", "", "REST: " + err.Error()
	}
	if want == -1 {
		if code == http.StatusOK {
			return fmt.Sprintf("no candidate exists but GET %s/resolve answered 200 %q", base, body), "rest:success-on-nothing", ""
		}
	} else {
		if code != http.StatusOK {
			return fmt.Sprintf("candidate %d (%s) exists but GET %s/resolve answered %d %q", want, cand[want], base, code, body), "rest:error-though-exists", ""
		}
		if body != cand[want] {
			return fmt.Sprintf("GET %s/resolve answered %q, want the first existing candidate %q", base, body, cand[want]), "rest:wrong-candidate", ""
		}
		// the payload of the resolved (raw) path
		code, body, err = restGet("/components/" + cand[want])
		if err != nil {
			return "", "", "REST: " + err.Error()
		}
		if code != http.StatusOK || body != kv[cand[want]] {
			return fmt.Sprintf("GET /components/%s answered %d %q, want the entry's content %q", cand[want], code, body, kv[cand[want]]), "rest:wrong-payload", ""
		}
	}
	return "", "", ""
}

package c20

import (
	"fmt"
	"os"
	"path/filepath"
	"sort"
	"strconv"
	"strings"
	"testing"
	"time"

	"github.com/AliceO2Group/Control/apricot/local"
	apricotpb "github.com/AliceO2Group/Control/apricot/protos"
	"github.com/AliceO2Group/Control/configuration/componentcfg"
	"gopkg.in/yaml.v3"
	"pgregory.net/rapid"

	"verifharness/simworld"
	"verifharness/vh"
)

const prop = "C20"

// ---------------------------------------------------------------------------------------------
// name generators: the documented character classes of query.go's comment
//   component [a-zA-Z0-9-_]+   RUNTYPE [A-Z0-9-_]+ (enum)   role [a-zA-Z0-9-_]+   entry [a-zA-Z0-9-_/]+

var runTypes = func() []string {
	out := []string{}
	for name := range apricotpb.RunType_value {
		out = append(out, name)
	}
	sort.Strings(out)
	return out
}()

func genName() *rapid.Generator[string] {
	return rapid.OneOf(
		rapid.StringMatching(`[a-z][a-zA-Z0-9_-]{0,6}`),
		rapid.StringMatching(`[a-zA-Z0-9_-]{1,10}`),
		rapid.SampledFrom([]string{"any", "ANY", "qc", "readout", "a", "A-1", "x_y", "flp-001", "-", "_"}),
	)
}

func genEntry() *rapid.Generator[string] {
	return rapid.Custom(func(t *rapid.T) string {
		n := rapid.IntRange(1, 3).Draw(t, "segs")
		segs := make([]string, n)
		for i := range segs {
			segs[i] = genName().Draw(t, "seg")
		}
		return strings.Join(segs, "/")
	})
}

// ---------------------------------------------------------------------------------------------
// TestResolve: four-step fallback with existence test, on both backends

type ResolveCase struct {
	Backend   string   // file | consul
	Component string   // queried
	RunType   string   //
	Role      string   //
	Entry     string   //
	Pattern   int      // bit0 exact, bit1 ANY/role, bit2 rt/any, bit3 ANY/any
	Noise     []string // other entry paths (component/RT/role/entry) that exist and must not matter
	// the store is changed behind the running service (a second existence pattern) and the same query is resolved again
	Pattern2 int // -1: no second round
	Mtime    int // file backend: the rewritten file's modification time is 0 = whatever the write gives, 1 = exactly the old one, 2 = older
	Empty    int // bit i: candidate i, where it exists, has empty content (it exists all the same)
}

type kvset map[string]string // path below o2/components/ -> payload

func candidates(c ResolveCase) [4]string {
	return [4]string{
		c.Component + "/" + c.RunType + "/" + c.Role + "/" + c.Entry,
		c.Component + "/ANY/" + c.Role + "/" + c.Entry,
		c.Component + "/" + c.RunType + "/any/" + c.Entry,
		c.Component + "/ANY/any/" + c.Entry,
	}
}

// conflicts reports whether path a is a strict directory prefix of b or vice versa (cannot coexist as leaf entries in a tree backend)
func conflicts(a, b string) bool {
	return a == b || strings.HasPrefix(a, b+"/") || strings.HasPrefix(b, a+"/")
}

func buildStore(c ResolveCase) kvset {
	kv := kvset{}
	cand := candidates(c)
	for i, p := range cand {
		if c.Pattern&(1<<i) != 0 {
			if _, dup := kv[p]; !dup {
				kv[p] = "payload-of:" + p
				if c.Empty&(1<<i) != 0 {
					kv[p] = ""
				}
			}
		}
	}
	for _, n := range c.Noise {
		bad := false
		for _, p := range cand {
			if conflicts(n, p) {
				bad = true
			}
		}
		for p := range kv {
			if conflicts(n, p) {
				bad = true
			}
		}
		if !bad {
			kv[n] = "noise:" + n
		}
	}
	return kv
}

type backend struct {
	svc     *local.Service
	close   func()
	consul  *simworld.FakeConsul
	rewrite func(kv kvset, mtime int) error // replace the whole content behind the running service
}

func nested(kv kvset) map[string]interface{} {
	root := map[string]interface{}{}
	keys := make([]string, 0, len(kv))
	for k := range kv {
		keys = append(keys, k)
	}
	sort.Strings(keys)
	for _, k := range keys {
		parts := strings.Split("o2/components/"+k, "/")
		cur := root
		for i, p := range parts {
			if i == len(parts)-1 {
				cur[p] = kv[k]
			} else {
				nx, ok := cur[p].(map[string]interface{})
				if !ok {
					nx = map[string]interface{}{}
					cur[p] = nx
				}
				cur = nx
			}
		}
	}
	return root
}

var scratchSeq int

func scratchDir() string {
	d := os.Getenv("VERIF_SCRATCH")
	if d == "" {
		d = filepath.Join(os.TempDir(), "verif-c20")
	}
	os.MkdirAll(d, 0o755)
	return d
}

func openBackend(kind string, kv kvset) (*backend, error) {
	switch kind {
	case "file":
		scratchSeq++
		p := filepath.Join(scratchDir(), fmt.Sprintf("cfg-%d-%d.yaml", os.Getpid(), scratchSeq))
		root := nested(kv)
		if len(kv) == 0 {
			root = map[string]interface{}{"o2": map[string]interface{}{"components": map[string]interface{}{}}}
		}
		b, err := yaml.Marshal(root)
		if err != nil {
			return nil, err
		}
		if err := os.WriteFile(p, b, 0o644); err != nil {
			return nil, err
		}
		svc, err := local.NewService("file://" + p)
		if err != nil {
			return nil, err
		}
		rewrite := func(kv kvset, mtime int) error {
			st, err := os.Stat(p)
			if err != nil {
				return err
			}
			root := nested(kv)
			if len(kv) == 0 {
				root = map[string]interface{}{"o2": map[string]interface{}{"components": map[string]interface{}{}}}
			}
			b, err := yaml.Marshal(root)
			if err != nil {
				return err
			}
			if err := os.WriteFile(p, b, 0o644); err != nil {
				return err
			}
			switch mtime {
			case 1:
				return os.Chtimes(p, st.ModTime(), st.ModTime())
			case 2:
				return os.Chtimes(p, st.ModTime().Add(-time.Hour), st.ModTime().Add(-time.Hour))
			}
			return nil
		}
		return &backend{svc: svc, close: func() { os.Remove(p) }, rewrite: rewrite}, nil
	default:
		fc := simworld.NewFakeConsul()
		for k, v := range kv {
			fc.Put("o2/components/"+k, v)
		}
		svc, err := local.NewService("consul://" + fc.Addr)
		if err != nil {
			fc.Close()
			return nil, err
		}
		prev := kv
		rewrite := func(kv kvset, _ int) error {
			for k := range prev {
				fc.Delete("o2/components/" + k)
			}
			for k, v := range kv {
				fc.Put("o2/components/"+k, v)
			}
			prev = kv
			return nil
		}
		return &backend{svc: svc, close: fc.Close, consul: fc, rewrite: rewrite}, nil
	}
}

func runResolve(c ResolveCase) (res vh.Result) {
	kv := buildStore(c)
	be, err := openBackend(c.Backend, kv)
	if err != nil {
		res.Inconclusive = "backend: " + err.Error()
		return
	}
	defer be.close()
	res = resolveRound(c, be, kv)
	if res.Violation != "" || res.Inconclusive != "" || c.Pattern2 < 0 {
		return
	}
	// second round: the content changes behind the running service
	c2 := c
	c2.Pattern = c.Pattern2 % 16
	kv2 := buildStore(c2)
	for k, v := range kv2 {
		kv2[k] = v + "-second"
	}
	if err := be.rewrite(kv2, c.Mtime); err != nil {
		res.Inconclusive = "rewrite: " + err.Error()
		return
	}
	r2 := resolveRound(c2, be, kv2)
	r2.Classes = append(res.Classes, "store-changed-behind-the-service", fmt.Sprintf("rewritten-mtime:%d", c.Mtime))
	r2.NonTrivial = true
	if r2.Violation != "" {
		r2.Violation = fmt.Sprintf("after the store was rewritten behind the running service (pattern %04b -> %04b, mtime mode %d): %s", c.Pattern, c2.Pattern, c.Mtime, r2.Violation)
		r2.Signature = "stale:" + r2.Signature
	}
	return r2
}

func resolveRound(c ResolveCase, be *backend, kv kvset) (res vh.Result) {
	var err error
	cand := candidates(c)
	// oracle: first existing candidate in documented order
	want := -1
	for i, p := range cand {
		if _, ok := kv[p]; ok {
			want = i
			break
		}
	}
	res.Classes = []string{"backend:" + c.Backend, fmt.Sprintf("pattern:%04b", c.Pattern)}
	if want > 0 {
		res.NonTrivial = true
		res.Classes = append(res.Classes, "fallback-used")
	}
	if want == -1 {
		res.Classes = append(res.Classes, "none-exists")
		if len(kv) > 0 {
			res.NonTrivial = true
		}
	}
	rt, ok := apricotpb.RunType_value[c.RunType]
	if !ok {
		res.Inconclusive = "bad runtype in case"
		return
	}
	q := &componentcfg.Query{Component: c.Component, RunType: apricotpb.RunType(rt), RoleName: c.Role, EntryKey: c.Entry}
	got, err := be.svc.ResolveComponentQuery(q)
	res.History = map[string]interface{}{"store": kv, "candidates": cand, "want_index": want, "got": fmt.Sprintf("%+v", got), "err": fmt.Sprint(err)}
	if want == -1 {
		if err == nil {
			res.Violation = fmt.Sprintf("no candidate exists but ResolveComponentQuery succeeded with %q", got.Path())
			res.Signature = "resolve:success-on-nothing"
		} else if v, sig, inc := restRound(c, be, kv, want, cand); v != "" {
			res.Violation, res.Signature = v, sig
		} else if inc != "" {
			res.Inconclusive = inc
		}
		return
	}
	if err != nil {
		res.Violation = fmt.Sprintf("candidate %d (%s) exists but ResolveComponentQuery failed: %v", want, cand[want], err)
		res.Signature = fmt.Sprintf("resolve:error-though-exists:%d", want)
		return
	}
	if got.Path() != cand[want] {
		res.Violation = fmt.Sprintf("resolved to %q, want the first existing candidate %q (index %d, pattern %04b)", got.Path(), cand[want], want, c.Pattern)
		res.Signature = fmt.Sprintf("resolve:wrong-candidate:%d", want)
		return
	}
	// a resolved path always exists and can be read, returning that entry's content
	payload, err := be.svc.GetComponentConfiguration(got)
	if err != nil {
		res.Violation = fmt.Sprintf("resolved path %q cannot be read: %v", got.Path(), err)
		res.Signature = "resolve:unreadable"
		return
	}
	if payload != kv[cand[want]] {
		res.Violation = fmt.Sprintf("payload of %q is %q, want %q", got.Path(), payload, kv[cand[want]])
		res.Signature = "resolve:wrong-payload"
	}
	// the query passed in must not have been modified
	if q.Component != c.Component || q.RoleName != c.Role || q.EntryKey != c.Entry || q.RunType != apricotpb.RunType(rt) {
		res.Violation = "ResolveComponentQuery modified its argument"
		res.Signature = "resolve:argument-modified"
	}
	if res.Violation == "" {
		if v, sig, inc := restRound(c, be, kv, want, cand); v != "" {
			res.Violation, res.Signature = v, sig
		} else if inc != "" {
			res.Inconclusive = inc
		}
	}
	return
}

func genResolve(t *rapid.T) ResolveCase {
	c := ResolveCase{
		Backend:   rapid.SampledFrom([]string{"file", "file", "file", "consul"}).Draw(t, "backend"),
		Component: genName().Draw(t, "component"),
		RunType:   rapid.SampledFrom(runTypes).Draw(t, "runtype"),
		Role:      genName().Draw(t, "role"),
		Entry:     genEntry().Draw(t, "entry"),
		Pattern:   rapid.IntRange(0, 15).Draw(t, "pattern"),
		Pattern2:  -1,
	}
	if rapid.IntRange(0, 3).Draw(t, "someEmpty") == 0 {
		c.Empty = rapid.IntRange(1, 15).Draw(t, "empty")
	}
	if rapid.Bool().Draw(t, "secondRound") {
		c.Pattern2 = rapid.IntRange(0, 15).Draw(t, "pattern2")
		c.Mtime = rapid.IntRange(0, 2).Draw(t, "mtime")
	}
	n := rapid.IntRange(0, 4).Draw(t, "noise")
	for i := 0; i < n; i++ {
		comp := rapid.OneOf(rapid.Just(c.Component), genName()).Draw(t, "ncomp")
		rtn := rapid.OneOf(rapid.Just(c.RunType), rapid.Just("ANY"), rapid.SampledFrom(runTypes)).Draw(t, "nrt")
		role := rapid.OneOf(rapid.Just(c.Role), rapid.Just("any"), genName()).Draw(t, "nrole")
		entry := rapid.OneOf(rapid.Just(c.Entry+"x"), rapid.Just(c.Entry+"/sub"), genEntry()).Draw(t, "nentry")
		c.Noise = append(c.Noise, comp+"/"+rtn+"/"+role+"/"+entry)
	}
	return c
}

func TestResolve(t *testing.T) {
	vh.Check(t, prop, genResolve, runResolve)
}

// all 16 existence patterns x 2 backends x a few name tuples, completely
func TestResolveExhaustive(t *testing.T) {
	tuples := [][4]string{
		{"qc", "PHYSICS", "flp-001", "tpc"},
		{"readout", "ANY", "role1", "a/b/c"},
		{"A_b", "COSMICS", "any", "e"},
		{"c", "ANY", "any", "x/y"},
		{"comp", "CALIBRATION_ITHR_TUNING", "Role", "entry-1"},
	}
	n := 0
	for _, be := range []string{"file", "consul"} {
		for _, tp := range tuples {
			for pat := 0; pat < 16; pat++ {
				c := ResolveCase{Backend: be, Component: tp[0], RunType: tp[1], Role: tp[2], Entry: tp[3], Pattern: pat, Pattern2: 15 - pat, Mtime: pat % 3,
					Noise: []string{tp[0] + "/TECHNICAL/other/" + tp[3], "zz/" + tp[1] + "/" + tp[2] + "/" + tp[3]}}
				vh.Fixed(t, prop, fmt.Sprintf("%s-%s-%s-%04b", be, tp[0], tp[1], pat), c, runResolve)
				n++
			}
		}
	}
	vh.Note(t.Name(), fmt.Sprintf("enumerated all 16 existence patterns for %d (backend, name tuple) pairs = %d cases", n/16, n))
}

// ---------------------------------------------------------------------------------------------
// TestQueryParse: NewQuery / NewEntriesQuery against an independent parser

type ParseCase struct {
	Input string
	Kind  string // how the input was built (for class statistics)
}

func okSeg(s string, upper bool, slash bool) bool {
	if s == "" {
		return false
	}
	for _, r := range s {
		switch {
		case r >= 'A' && r <= 'Z', r >= '0' && r <= '9', r == '-', r == '_':
		case r >= 'a' && r <= 'z':
			if upper {
				return false
			}
		case r == '/':
			if !slash {
				return false
			}
		default:
			return false
		}
	}
	return true
}

type parsed struct {
	comp, rt, role, entry string
}

// refParse: verdict "ok" (must parse to p), "bad" (must be rejected), "open" (no claim)
func refParse(input string, full bool) (p parsed, verdict string) {
	s := strings.TrimSpace(input)
	nseg := 3
	if full {
		nseg = 4
	}
	parts := strings.SplitN(s, "/", nseg)
	if len(parts) < nseg {
		return p, "bad"
	}
	p.comp, p.rt, p.role = parts[0], parts[1], parts[2]
	if !okSeg(p.comp, false, false) || !okSeg(p.rt, true, false) || !okSeg(p.role, false, false) {
		return p, "bad"
	}
	if _, ok := apricotpb.RunType_value[p.rt]; !ok {
		return p, "bad"
	}
	if full {
		p.entry = parts[3]
		if !okSeg(p.entry, false, true) {
			return p, "bad"
		}
		// empty inner/leading/trailing entry segments: neither accepted nor rejected by the oracle (DESIGN C20 NC)
		for _, seg := range strings.Split(p.entry, "/") {
			if seg == "" {
				return p, "open"
			}
		}
	}
	return p, "ok"
}

func runParse(c ParseCase) (res vh.Result) {
	res.Classes = []string{"kind:" + c.Kind}
	// full query
	p, verdict := refParse(c.Input, true)
	res.Classes = append(res.Classes, "full:"+verdict)
	q, err := componentcfg.NewQuery(c.Input)
	switch verdict {
	case "ok":
		if err != nil {
			res.Violation = fmt.Sprintf("NewQuery(%q) rejected a well-formed query: %v", c.Input, err)
			res.Signature = "parse:reject-wellformed"
			return
		}
		if q.Component != p.comp || apricotpb.RunType_name[int32(q.RunType)] != p.rt || q.RoleName != p.role || q.EntryKey != p.entry {
			res.Violation = fmt.Sprintf("NewQuery(%q) = {%s %s %s %s}, want {%s %s %s %s}", c.Input, q.Component, q.RunType, q.RoleName, q.EntryKey, p.comp, p.rt, p.role, p.entry)
			res.Signature = "parse:wrong-fields"
			return
		}
		if q.Path() != strings.TrimSpace(c.Input) {
			res.Violation = fmt.Sprintf("NewQuery(%q).Path() = %q, does not print back unchanged", c.Input, q.Path())
			res.Signature = "parse:roundtrip"
			return
		}
		if q.AbsoluteRaw() != "o2/components/"+strings.TrimSpace(c.Input) {
			res.Violation = fmt.Sprintf("AbsoluteRaw() = %q", q.AbsoluteRaw())
			res.Signature = "parse:absraw"
			return
		}
	case "bad":
		if err == nil {
			res.Violation = fmt.Sprintf("NewQuery(%q) accepted a malformed query as {%s %s %s %s}", c.Input, q.Component, q.RunType, q.RoleName, q.EntryKey)
			res.Signature = "parse:accept-malformed"
			return
		}
	case "open":
		// entries with empty path segments: whether they are accepted is not claimed, but an accepted query spells what it
		// was given - same fields, and it prints back unchanged
		if err == nil {
			if q.Component != p.comp || apricotpb.RunType_name[int32(q.RunType)] != p.rt || q.RoleName != p.role || q.EntryKey != p.entry {
				res.Violation = fmt.Sprintf("NewQuery(%q) = {%s %s %s %s}, the string spells {%s %s %s %s}", c.Input, q.Component, q.RunType, q.RoleName, q.EntryKey, p.comp, p.rt, p.role, p.entry)
				res.Signature = "parse:wrong-fields"
				return
			}
			if q.Path() != strings.TrimSpace(c.Input) {
				res.Violation = fmt.Sprintf("NewQuery(%q) is accepted and Path() = %q: it does not print back unchanged", c.Input, q.Path())
				res.Signature = "parse:roundtrip"
				return
			}
			if q.AbsoluteRaw() != "o2/components/"+strings.TrimSpace(c.Input) {
				res.Violation = fmt.Sprintf("NewQuery(%q) is accepted and AbsoluteRaw() = %q", c.Input, q.AbsoluteRaw())
				res.Signature = "parse:absraw"
				return
			}
		}
	}
	// entries query (component/RUNTYPE/role)
	pe, ve := refParse(c.Input, false)
	res.Classes = append(res.Classes, "entries:"+ve)
	eq, err := componentcfg.NewEntriesQuery(c.Input)
	switch ve {
	case "ok":
		if err != nil {
			res.Violation = fmt.Sprintf("NewEntriesQuery(%q) rejected a well-formed query: %v", c.Input, err)
			res.Signature = "parse:entries-reject-wellformed"
			return
		}
		if eq.Component != pe.comp || apricotpb.RunType_name[int32(eq.RunType)] != pe.rt || eq.RoleName != pe.role {
			res.Violation = fmt.Sprintf("NewEntriesQuery(%q) = {%s %s %s}", c.Input, eq.Component, eq.RunType, eq.RoleName)
			res.Signature = "parse:entries-wrong-fields"
			return
		}
	case "bad":
		if err == nil {
			res.Violation = fmt.Sprintf("NewEntriesQuery(%q) accepted a malformed query", c.Input)
			res.Signature = "parse:entries-accept-malformed"
			return
		}
	}
	res.NonTrivial = c.Kind != "wellformed" || verdict != "ok"
	return
}

func genWellFormed(t *rapid.T) string {
	return genName().Draw(t, "c") + "/" + rapid.SampledFrom(runTypes).Draw(t, "rt") + "/" + genName().Draw(t, "r") + "/" + genEntry().Draw(t, "e")
}

func genParse(t *rapid.T) ParseCase {
	kind := rapid.SampledFrom([]string{"wellformed", "blanks", "entries3", "mutated", "mutated", "mutated", "random", "emptyseg"}).Draw(t, "kind")
	s := genWellFormed(t)
	switch kind {
	case "blanks":
		pre := rapid.SampledFrom([]string{" ", "\t", "  ", "\n", ""}).Draw(t, "pre")
		post := rapid.SampledFrom([]string{" ", "\t", "\n ", "", "\r\n"}).Draw(t, "post")
		s = pre + s + post
	case "entries3":
		s = genName().Draw(t, "c3") + "/" + rapid.SampledFrom(runTypes).Draw(t, "rt3") + "/" + genName().Draw(t, "r3")
	case "mutated":
		parts := strings.SplitN(s, "/", 4)
		switch rapid.IntRange(0, 9).Draw(t, "mut") {
		case 0: // drop a segment
			i := rapid.IntRange(0, 3).Draw(t, "i")
			parts = append(parts[:i], parts[i+1:]...)
		case 1: // empty a segment
			parts[rapid.IntRange(0, 2).Draw(t, "i")] = ""
		case 2: // lower-case run type
			parts[1] = strings.ToLower(parts[1])
		case 3: // unknown run type
			parts[1] = rapid.SampledFrom([]string{"PHYSIC", "FOO", "ANY_", "A", "PHYSICS1", "9"}).Draw(t, "rt")
		case 4: // illegal character in a segment
			i := rapid.IntRange(0, 3).Draw(t, "i")
			ch := rapid.SampledFrom([]string{" ", ".", "$", "é", ":", "?", "=", "\\", "\n", "*", "{", "\x00"}).Draw(t, "ch")
			pos := rapid.IntRange(0, len(parts[i])).Draw(t, "pos")
			parts[i] = parts[i][:pos] + ch + parts[i][pos:]
		case 5: // run type and role swapped
			parts[1], parts[2] = parts[2], parts[1]
		case 6: // leading slash
			parts[0] = "/" + parts[0]
		case 7: // prefix with something the anchors must refuse
			parts[0] = "x y/" + parts[0]
		case 8: // suffix with something illegal
			parts[len(parts)-1] += rapid.SampledFrom([]string{" z", "\nq", "?a=b", "#"}).Draw(t, "suf")
		case 9: // mixed case run type
			if len(parts[1]) > 1 {
				parts[1] = parts[1][:1] + strings.ToLower(parts[1][1:])
			}
		}
		s = strings.Join(parts, "/")
	case "random":
		s = rapid.StringMatching(`[a-zA-Z0-9_/ -]{0,24}`).Draw(t, "rnd")
	case "emptyseg": // an entry with an empty path segment: doubled, leading or trailing slash
		parts := strings.SplitN(s, "/", 4)
		e := parts[3]
		switch rapid.IntRange(0, 3).Draw(t, "where") {
		case 0:
			e = e + "/"
		case 1:
			e = "/" + e
		case 2:
			e = e + "//" + genName().Draw(t, "tail")
		case 3:
			e = strings.Replace(e, "/", "//", 1) + "/"
		}
		parts[3] = e
		s = strings.Join(parts, "/")
	}
	return ParseCase{Input: s, Kind: kind}
}

func TestQueryParse(t *testing.T) {
	vh.Check(t, prop, genParse, runParse)
}

// ---------------------------------------------------------------------------------------------
// TestParams: NewQueryParameters against an independent parser of k=v(&k=v)*

type ParamCase struct {
	Input string
	Kind  string
}

func okParamKey(s string) bool { return okSeg(s, false, false) }
func okParamVal(s string) bool {
	if s == "" {
		return false
	}
	for _, r := range s {
		switch {
		case r >= 'a' && r <= 'z', r >= 'A' && r <= 'Z', r >= '0' && r <= '9', r == '-', r == '_', r == ',', r == '"', r == '[', r == ']':
		default:
			return false
		}
	}
	return true
}

func runParams(c ParamCase) (res vh.Result) {
	res.Classes = []string{"kind:" + c.Kind}
	s := strings.TrimSpace(c.Input)
	verdict := "ok"
	want := map[string]string{}
	process := true
	if s == "" {
		verdict = "bad"
	}
	for _, kvp := range strings.Split(s, "&") {
		i := strings.Index(kvp, "=")
		if i < 0 {
			verdict = "bad"
			break
		}
		k, v := kvp[:i], kvp[i+1:]
		if !okParamKey(k) || !okParamVal(v) {
			verdict = "bad"
			break
		}
		if _, dup := want[k]; dup || (k == "process" && c.Kind == "dupkey") {
			verdict = "open" // repeated keys: the code refuses them; the statement is silent
		}
		if k == "process" {
			b, err := strconv.ParseBool(v)
			if err != nil {
				verdict = "open"
			}
			process = b
			continue
		}
		want[k] = v
	}
	res.Classes = append(res.Classes, "params:"+verdict)
	p, err := componentcfg.NewQueryParameters(c.Input)
	switch verdict {
	case "ok":
		if err != nil {
			res.Violation = fmt.Sprintf("NewQueryParameters(%q) rejected well-formed parameters: %v", c.Input, err)
			res.Signature = "params:reject-wellformed"
			return
		}
		if p.ProcessTemplates != process {
			res.Violation = fmt.Sprintf("NewQueryParameters(%q).ProcessTemplates = %v", c.Input, p.ProcessTemplates)
			res.Signature = "params:process"
			return
		}
		if len(p.VarStack) != len(want) {
			res.Violation = fmt.Sprintf("NewQueryParameters(%q) = %v, want %v", c.Input, p.VarStack, want)
			res.Signature = "params:wrong-map"
			return
		}
		for k, v := range want {
			if p.VarStack[k] != v {
				res.Violation = fmt.Sprintf("NewQueryParameters(%q)[%q] = %q, want %q", c.Input, k, p.VarStack[k], v)
				res.Signature = "params:wrong-map"
				return
			}
		}
	case "bad":
		if err == nil {
			res.Violation = fmt.Sprintf("NewQueryParameters(%q) accepted malformed parameters as %v", c.Input, p.VarStack)
			res.Signature = "params:accept-malformed"
			return
		}
	}
	res.NonTrivial = verdict != "ok" || len(want) >= 2
	return
}

func genParams(t *rapid.T) ParamCase {
	kind := rapid.SampledFrom([]string{"wellformed", "wellformed", "process", "mutated", "mutated", "dupkey"}).Draw(t, "kind")
	n := rapid.IntRange(1, 4).Draw(t, "n")
	keys := map[string]bool{}
	var kvs []string
	for i := 0; i < n; i++ {
		k := rapid.StringMatching(`[a-zA-Z_][a-zA-Z0-9_-]{0,6}`).Draw(t, "k")
		if keys[k] || k == "process" {
			continue
		}
		keys[k] = true
		v := rapid.StringMatching(`[a-zA-Z0-9_,"\[\]-]{1,8}`).Draw(t, "v")
		kvs = append(kvs, k+"="+v)
	}
	if len(kvs) == 0 {
		kvs = []string{"a=b"}
	}
	switch kind {
	case "process":
		kvs = append(kvs, "process="+rapid.SampledFrom([]string{"true", "false", "1", "0", "T", "F"}).Draw(t, "pv"))
	case "dupkey":
		kvs = append(kvs, kvs[0])
	case "mutated":
		i := rapid.IntRange(0, len(kvs)-1).Draw(t, "i")
		switch rapid.IntRange(0, 5).Draw(t, "mut") {
		case 0:
			kvs[i] = strings.Replace(kvs[i], "=", "", 1)
		case 1:
			kvs[i] = kvs[i][:strings.Index(kvs[i], "=")+1] // empty value
		case 2:
			kvs[i] = kvs[i][strings.Index(kvs[i], "="):] // empty key
		case 3:
			kvs[i] += rapid.SampledFrom([]string{" ", "%41", "+", ";", "{", "=x"}).Draw(t, "ch") + "z"
		case 4:
			kvs = append(kvs, "") // trailing &
		case 5:
			kvs[i] = rapid.SampledFrom([]string{" ", "?", "/", "."}).Draw(t, "ch") + kvs[i]
			if i == 0 {
				kvs[i] = "x" + kvs[i] // keep a leading blank from being trimmed away
			}
		}
	}
	s := strings.Join(kvs, "&")
	if rapid.Bool().Draw(t, "blank") {
		s = " " + s + "\t"
	}
	return ParamCase{Input: s, Kind: kind}
}

func TestParams(t *testing.T) {
	vh.Check(t, prop, genParams, runParams)
}

// ---------------------------------------------------------------------------------------------
// TestProcess: payload = entry content templated with exactly the supplied variables

type Piece struct {
	Kind string // text | var | include | override (Val = "<var>|<prefix>|<util. or empty>": the documented util.PrefixedOverride and its top-level alias)
	Val  string
}

type ProcessCase struct {
	Backend   string
	Component string
	RunType   string
	Role      string
	Entries   map[string][]Piece  // entry name (single segment) -> template pieces
	Other     map[string][]Piece  // same entry names under role "any" (other base path), different content
	Query     string              // entry to fetch
	Vars      []map[string]string // variable sets, applied one after the other on the same service
	ViaAny    bool                // query resolves through the rt/any fallback (entry absent in exact dir)
	SubDir    string              // non-empty: all entries live in this subdirectory of the role directory (entry keys "<SubDir>/<name>"); includes by short name mean the siblings there, decoys of the same names sit one level up
}

func renderSrc(ps []Piece) string {
	var b strings.Builder
	for _, p := range ps {
		switch p.Kind {
		case "text":
			b.WriteString(p.Val)
		case "var":
			b.WriteString("{{ " + p.Val + " }}")
		case "include":
			b.WriteString(`{% include "` + p.Val + `" %}`)
		case "override":
			f := strings.Split(p.Val, "|")
			b.WriteString(`{{ ` + f[2] + `PrefixedOverride("` + f[0] + `", "` + f[1] + `") }}`)
		}
	}
	return b.String()
}

// reference renderer; returns ok=false when an include target does not exist (then an error is expected)
func refRender(entries map[string][]Piece, name string, vars map[string]string, depth int) (string, bool) {
	ps, ok := entries[name]
	if !ok || depth > 6 {
		return "", false
	}
	var b strings.Builder
	for _, p := range ps {
		switch p.Kind {
		case "text":
			b.WriteString(p.Val)
		case "var":
			b.WriteString(vars[p.Val])
		case "override":
			// handbook: the value of <prefix>_<var> if that exists, otherwise the value of <var>, otherwise ""
			// (prefixed values are generated non-empty and never "none", where handbook and code could be read differently)
			f := strings.Split(p.Val, "|")
			if v, ok := vars[f[1]+"_"+f[0]]; ok {
				b.WriteString(v)
			} else if v := vars[f[0]]; strings.TrimSpace(v) != "" && v != "none" {
				b.WriteString(v)
			}
		case "include":
			s, ok := refRender(entries, p.Val, vars, depth+1)
			if !ok {
				return "", false
			}
			b.WriteString(s)
		}
	}
	return b.String(), true
}

func runProcess(c ProcessCase) (res vh.Result) {
	kv := kvset{}
	base := c.Component + "/" + c.RunType + "/" + c.Role + "/"
	anyBase := c.Component + "/" + c.RunType + "/any/"
	prefix := ""
	if c.SubDir != "" {
		prefix = c.SubDir + "/"
	}
	for n, ps := range c.Entries {
		if c.SubDir != "" {
			kv[base+n] = "DECOY-one-level-up-" + n
		}
		if c.ViaAny && n == c.Query {
			continue
		}
		kv[base+prefix+n] = renderSrc(ps)
	}
	for n, ps := range c.Other {
		if c.SubDir != "" {
			kv[anyBase+n] = "DECOY-one-level-up-any-" + n
		}
		kv[anyBase+prefix+n] = renderSrc(ps)
	}
	be, err := openBackend(c.Backend, kv)
	if err != nil {
		res.Inconclusive = "backend: " + err.Error()
		return
	}
	defer be.close()
	rt := apricotpb.RunType(apricotpb.RunType_value[c.RunType])
	q := &componentcfg.Query{Component: c.Component, RunType: rt, RoleName: c.Role, EntryKey: prefix + c.Query}
	resolved, err := be.svc.ResolveComponentQuery(q)
	src := c.Entries
	if c.ViaAny {
		src = c.Other
	}
	_, exists := src[c.Query]
	hist := []string{}
	res.History = &hist
	res.Classes = []string{"backend:" + c.Backend}
	if c.ViaAny {
		res.Classes = append(res.Classes, "via-fallback")
	}
	if !exists {
		if err == nil {
			res.Violation = "query for a missing entry resolved to " + resolved.Path()
			res.Signature = "process:resolve-missing"
		}
		return
	}
	if err != nil {
		res.Violation = "existing entry not resolved: " + err.Error()
		res.Signature = "process:resolve"
		return
	}
	hasInclude, hasVar, hasOverride := false, false, false
	var scan func(name string, depth int)
	scan = func(name string, depth int) {
		if depth > 6 {
			return
		}
		for _, p := range src[name] {
			switch p.Kind {
			case "include":
				if depth == 0 {
					hasInclude = true
				}
				scan(p.Val, depth+1)
			case "var":
				if depth == 0 {
					hasVar = true
				}
			case "override":
				hasVar, hasOverride = true, true
			}
		}
	}
	scan(c.Query, 0)
	if hasOverride {
		res.Classes = append(res.Classes, "var-aware-function")
	}
	if hasInclude {
		res.Classes = append(res.Classes, "include")
	}
	if len(c.Vars) > 1 {
		res.Classes = append(res.Classes, "second-call")
	}
	res.NonTrivial = hasVar && (hasInclude || len(c.Vars) > 1)
	for i, vars := range c.Vars {
		want, ok := refRender(src, c.Query, vars, 0)
		got, err := be.svc.GetAndProcessComponentConfiguration(resolved, vars)
		hist = append(hist, fmt.Sprintf("call %d vars=%v -> %q err=%v (want %q ok=%v)", i, vars, got, err, want, ok))
		if !ok {
			if err == nil {
				res.Violation = fmt.Sprintf("include of a missing entry did not fail; payload %q", got)
				res.Signature = "process:missing-include-ok"
				return
			}
			continue
		}
		if err != nil {
			res.Violation = fmt.Sprintf("processing %s failed: %v", resolved.Path(), err)
			res.Signature = "process:error"
			return
		}
		if got != want {
			res.Violation = fmt.Sprintf("call %d on %s with vars %v returned %q, want %q (template %q)", i, resolved.Path(), vars, got, want, kv[resolved.Path()])
			res.Signature = "process:wrong-payload"
			return
		}
	}
	return
}

func genPieces(t *rapid.T, names []string, varNames []string, self string, allowInclude bool) []Piece {
	n := rapid.IntRange(1, 5).Draw(t, "npieces")
	var ps []Piece
	for i := 0; i < n; i++ {
		switch rapid.SampledFrom([]string{"text", "var", "var", "include", "override"}).Draw(t, "pk") {
		case "override":
			ps = append(ps, Piece{"override", rapid.SampledFrom(varNames).Draw(t, "ovn") + "|" + rapid.SampledFrom([]string{"p", "q"}).Draw(t, "opfx") + "|" + rapid.SampledFrom([]string{"util.", ""}).Draw(t, "ons")})
		case "text":
			ps = append(ps, Piece{"text", rapid.StringMatching(`[a-zA-Z0-9 :,_=\[\]-]{1,10}`).Draw(t, "txt")})
		case "var":
			ps = append(ps, Piece{"var", rapid.SampledFrom(varNames).Draw(t, "vn")})
		case "include":
			if !allowInclude {
				continue
			}
			tgt := rapid.SampledFrom(names).Draw(t, "inc")
			if tgt == self {
				continue
			}
			ps = append(ps, Piece{"include", tgt})
		}
	}
	if len(ps) == 0 {
		ps = []Piece{{"text", "x"}}
	}
	return ps
}

func genProcess(t *rapid.T) ProcessCase {
	c := ProcessCase{
		Backend:   rapid.SampledFrom([]string{"file", "file", "consul"}).Draw(t, "backend"),
		Component: genName().Draw(t, "component"),
		RunType:   rapid.SampledFrom([]string{"PHYSICS", "ANY", "COSMICS", "TECHNICAL"}).Draw(t, "rt"),
		Role:      rapid.StringMatching(`r[a-z0-9]{1,4}`).Draw(t, "role"),
		Entries:   map[string][]Piece{},
		Other:     map[string][]Piece{},
		ViaAny:    rapid.IntRange(0, 3).Draw(t, "viaany") == 0,
		SubDir:    rapid.SampledFrom([]string{"", "", "tpc", "sub/dir"}).Draw(t, "subdir"),
	}
	names := []string{"e0", "e1", "e2", "missing"}
	varNames := []string{"v_a", "v_b", "v_c", "v_d"}
	// leaf entries first (no includes), then entries that may include leaves: no cycles by construction
	c.Entries["e2"] = genPieces(t, names, varNames, "e2", false)
	c.Entries["e1"] = genPieces(t, []string{"e2", "e2", "missing"}, varNames, "e1", true)
	c.Entries["e0"] = genPieces(t, []string{"e1", "e2"}, varNames, "e0", true)
	c.Other["e2"] = genPieces(t, names, varNames, "e2", false)
	c.Other["e1"] = genPieces(t, []string{"e2"}, varNames, "e1", true)
	c.Other["e0"] = genPieces(t, []string{"e1", "e2"}, varNames, "e0", true)
	c.Query = rapid.SampledFrom([]string{"e0", "e0", "e1", "e2"}).Draw(t, "query")
	nsets := rapid.IntRange(1, 3).Draw(t, "nsets")
	for i := 0; i < nsets; i++ {
		vars := map[string]string{}
		for _, vn := range varNames {
			switch rapid.IntRange(0, 3).Draw(t, "present") {
			case 0: // absent
			default:
				vars[vn] = rapid.StringMatching(`[a-zA-Z0-9_,.-]{0,6}`).Draw(t, "val")
			}
			for _, pfx := range []string{"p", "q"} {
				if rapid.IntRange(0, 3).Draw(t, "prefixed") == 0 {
					v := rapid.StringMatching(`[a-z0-9]{1,5}`).Draw(t, "pval")
					if v == "none" {
						v = "nonx"
					}
					vars[pfx+"_"+vn] = v
				}
			}
		}
		c.Vars = append(c.Vars, vars)
	}
	return c
}

func TestProcess(t *testing.T) {
	vh.Check(t, prop, genProcess, runProcess)
}

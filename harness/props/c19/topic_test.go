package c19

// One writer per topic: events of one topic published by concurrent producers go through one queue (otherwise neither
// the per-producer order towards the broker nor the flush at shutdown, which closes the registered writers, can hold).
// The core hands out writers through the.EventWriterWithTopic; here many goroutines ask for the writer of a fresh topic
// at the same moment - as two environments publishing their first event do - and must all get the same one.

import (
	"fmt"
	"sync"
	"sync/atomic"
	"testing"

	"github.com/AliceO2Group/Control/common/event"
	"github.com/AliceO2Group/Control/common/event/topic"
	"github.com/AliceO2Group/Control/core/the"
	"github.com/spf13/viper"
	"pgregory.net/rapid"

	"verifharness/vh"
)

type TopicCase struct {
	Callers int
	Topics  int
	Kafka   bool // enableKafka: real KafkaWriter objects (the broker address is never dialled: nothing is published)
}

var topicSeq int64

func runTopics(c TopicCase) (res vh.Result) {
	viper.Set("enableKafka", c.Kafka)
	viper.Set("kafkaEndpoints", []string{"127.0.0.1:9"})
	defer the.ClearEventWriters()
	n := atomic.AddInt64(&topicSeq, 1)
	res.NonTrivial = c.Callers >= 2
	res.Classes = []string{"writer-per-topic", fmt.Sprintf("kafka:%v", c.Kafka)}
	for ti := 0; ti < c.Topics; ti++ {
		tp := topic.Topic(fmt.Sprintf("verif.%d.%d", n, ti))
		got := make([]event.Writer, c.Callers)
		var wg sync.WaitGroup
		start := make(chan struct{})
		for i := 0; i < c.Callers; i++ {
			wg.Add(1)
			go func(i int) {
				defer wg.Done()
				<-start
				got[i] = the.EventWriterWithTopic(tp)
			}(i)
		}
		close(start)
		wg.Wait()
		distinct := map[event.Writer]bool{}
		for _, w := range got {
			distinct[w] = true
		}
		// dummy writers are empty structs: all pointers to them may compare equal; only real writers are told apart
		if c.Kafka && len(distinct) != 1 {
			res.Violation = fmt.Sprintf("%d concurrent first requests for the writer of topic %s were given %d different writers: events of one topic would reach the broker through separate queues, and only one of them is flushed at shutdown", c.Callers, tp, len(distinct))
			res.Signature = "several-writers-for-one-topic"
			return
		}
		if again := the.EventWriterWithTopic(tp); c.Kafka && !distinct[again] {
			res.Violation = fmt.Sprintf("a later request for the writer of topic %s returned yet another writer", tp)
			res.Signature = "several-writers-for-one-topic"
			return
		}
	}
	return
}

func TestWriterPerTopic(t *testing.T) {
	vh.Check(t, prop, func(t *rapid.T) TopicCase {
		return TopicCase{Callers: rapid.IntRange(2, 24).Draw(t, "callers"), Topics: rapid.IntRange(1, 6).Draw(t, "topics"), Kafka: rapid.IntRange(0, 4).Draw(t, "kafka") > 0}
	}, runTopics)
}

package c19

import (
	"fmt"
	"sort"
	"strconv"
	"strings"
	"sync"
	"testing"
	"time"

	"github.com/AliceO2Group/Control/common/event"
	pb "github.com/AliceO2Group/Control/common/protos"
	"github.com/segmentio/kafka-go"
	"google.golang.org/protobuf/proto"
	"pgregory.net/rapid"

	"verifharness/vh"
)

const prop = "C19"

type Producer struct {
	N       int   // number of events in the burst
	Types   []int // cycle of event types: 0 env, 1 run, 2 role, 3 call, 4 task, 5 integrated-service
	Ids     []int // cycle of environment / task indices
	PauseAt int   // after this many events the producer yields for a moment (0 = never)
}

type Case struct {
	Producers  []Producer
	Broker     []int // cycle of per-batch broker latencies in 100 us units; -1 = hold this batch until released
	ChanCap    int   // capacity of the hand-over channel between WriteEvent and the batching loop (0 = the production value 10000)
	HoldFirst  bool  // broker holds the first batch until all producers are done (never-wait check)
	CloseDelay int   // ms between the last WriteEvent returning and Close
}

func envName(i int) string  { return fmt.Sprintf("env%02d", i) }
func taskName(i int) string { return fmt.Sprintf("task%02d", i) }

func mkEvent(p Producer, pi, seq int) (ev interface{}, wantKey string) {
	tag := fmt.Sprintf("p%d-%d", pi, seq)
	typ := p.Types[seq%len(p.Types)]
	id := p.Ids[seq%len(p.Ids)]
	switch typ {
	case 0:
		return &pb.Ev_EnvironmentEvent{EnvironmentId: envName(id), Message: tag, State: "RUNNING"}, envName(id)
	case 1:
		return &pb.Ev_RunEvent{EnvironmentId: envName(id), Error: tag, RunNumber: uint32(seq)}, envName(id)
	case 2:
		return &pb.Ev_RoleEvent{EnvironmentId: envName(id), Name: tag}, envName(id)
	case 3:
		return &pb.Ev_CallEvent{EnvironmentId: envName(id), Func: tag}, envName(id)
	case 4:
		return &pb.Ev_TaskEvent{Taskid: taskName(id), Name: tag, EnvironmentId: envName(id)}, taskName(id)
	default:
		return &pb.Ev_IntegratedServiceEvent{EnvironmentId: envName(id), Name: tag}, envName(id)
	}
}

func decode(m kafka.Message) (tag string, err error) {
	var e pb.Event
	if err = proto.Unmarshal(m.Value, &e); err != nil {
		return
	}
	switch x := e.Payload.(type) {
	case *pb.Event_EnvironmentEvent:
		tag = x.EnvironmentEvent.Message
	case *pb.Event_RunEvent:
		tag = x.RunEvent.Error
	case *pb.Event_RoleEvent:
		tag = x.RoleEvent.Name
	case *pb.Event_CallEvent:
		tag = x.CallEvent.Func
	case *pb.Event_TaskEvent:
		tag = x.TaskEvent.Name
	case *pb.Event_IntegratedServiceEvent:
		tag = x.IntegratedServiceEvent.Name
	default:
		err = fmt.Errorf("unexpected payload %T", e.Payload)
	}
	return
}

type rec struct {
	tag, key string
	batch    int
}

func run(c Case) (res vh.Result) {
	var mu sync.Mutex
	var got []rec
	batchSizes := []int{}
	release := make(chan struct{})
	var relOnce sync.Once
	doRelease := func() { relOnce.Do(func() { close(release) }) }
	defer doRelease()
	nb := 0
	chanCap := 10000
	if c.ChanCap > 0 {
		chanCap = c.ChanCap
	}
	w := event.VerifNewKafkaWriterCap("verif", func(msgs []kafka.Message) {
		mu.Lock()
		b := nb
		nb++
		mu.Unlock()
		lat := 0
		if len(c.Broker) > 0 {
			lat = c.Broker[b%len(c.Broker)]
		}
		if (c.HoldFirst && b == 0) || lat < 0 {
			<-release
		} else if lat > 0 {
			time.Sleep(time.Duration(lat) * 100 * time.Microsecond)
		}
		mu.Lock()
		batchSizes = append(batchSizes, len(msgs))
		for _, m := range msgs {
			tag, err := decode(m)
			if err != nil {
				tag = "UNDECODABLE:" + err.Error()
			}
			got = append(got, rec{tag, string(m.Key), b})
		}
		mu.Unlock()
	}, chanCap)

	total := 0
	wantKey := map[string]string{}
	for pi, p := range c.Producers {
		total += p.N
		for s := 0; s < p.N; s++ {
			_, k := mkEvent(p, pi, s)
			wantKey[fmt.Sprintf("p%d-%d", pi, s)] = k
		}
	}
	var wg sync.WaitGroup
	t0 := time.Now()
	for pi, p := range c.Producers {
		wg.Add(1)
		go func(pi int, p Producer) {
			defer wg.Done()
			for s := 0; s < p.N; s++ {
				ev, _ := mkEvent(p, pi, s)
				w.WriteEvent(ev)
				if p.PauseAt > 0 && s == p.PauseAt {
					time.Sleep(time.Millisecond)
				}
			}
		}(pi, p)
	}
	done := make(chan struct{})
	go func() { wg.Wait(); close(done) }()
	hasHold := c.HoldFirst
	for _, l := range c.Broker {
		if l < 0 {
			hasHold = true
		}
	}
	select {
	case <-done:
	case <-time.After(5 * time.Second):
		// producers are waiting for the broker
		doRelease()
		<-done
		if hasHold {
			res.Violation = fmt.Sprintf("with the broker held, %d producers publishing %d events did not finish within 5 s (they wait for the broker)", len(c.Producers), total)
			res.Signature = "producers-blocked"
			w.Close()
			return
		}
		res.Inconclusive = "publishing took more than 5 s"
	}
	publishTook := time.Since(t0)
	if c.CloseDelay > 0 {
		time.Sleep(time.Duration(c.CloseDelay) * time.Millisecond)
	}
	mu.Lock()
	deliveredAtClose := len(got)
	mu.Unlock()
	backlog := total - deliveredAtClose
	// shutdown: the broker works again (a held broker is released a moment after Close was requested)
	closed := make(chan struct{})
	go func() { w.Close(); close(closed) }()
	time.AfterFunc(20*time.Millisecond, doRelease)
	select {
	case <-closed:
	case <-time.After(60 * time.Second):
		res.Violation = "Close did not return within 60 s"
		res.Signature = "close-hangs"
		return
	}
	mu.Lock()
	atReturn := append([]rec(nil), got...)
	sizes := append([]int(nil), batchSizes...)
	mu.Unlock()

	res.Classes = []string{fmt.Sprintf("producers:%d", len(c.Producers))}
	if backlog > 100 {
		res.Classes = append(res.Classes, "backlog>100")
	}
	if hasHold {
		res.Classes = append(res.Classes, "broker-held")
	}
	if total > 1000 {
		res.Classes = append(res.Classes, "events>1000")
	}
	res.NonTrivial = len(c.Producers) >= 2 && backlog > 100
	res.History = map[string]interface{}{"total": total, "delivered_when_close_called": deliveredAtClose, "delivered_when_close_returned": len(atReturn),
		"batches": len(sizes), "publish_ms": publishTook.Milliseconds()}

	// batches of bounded size
	for i, n := range sizes {
		if n < 1 || n > 100 {
			res.Violation = fmt.Sprintf("batch %d has %d messages (allowed 1..100)", i, n)
			res.Signature = "batch-size"
			return
		}
	}
	// exactly once, per-producer order, keys
	seen := map[string]int{}
	last := map[int]int{}
	for _, r := range atReturn {
		seen[r.tag]++
		if seen[r.tag] > 1 {
			res.Violation = fmt.Sprintf("event %s was handed to the broker %d times", r.tag, seen[r.tag])
			res.Signature = "duplicate"
			return
		}
		k, ok := wantKey[r.tag]
		if !ok {
			res.Violation = fmt.Sprintf("broker received an event nobody published: %q", r.tag)
			res.Signature = "invented"
			return
		}
		if r.key != k {
			res.Violation = fmt.Sprintf("event %s carries partition key %q, want %q", r.tag, r.key, k)
			res.Signature = "key"
			return
		}
		parts := strings.SplitN(r.tag[1:], "-", 2)
		pi, _ := strconv.Atoi(parts[0])
		sq, _ := strconv.Atoi(parts[1])
		if l, ok := last[pi]; ok && sq < l {
			res.Violation = fmt.Sprintf("producer %d: event #%d reached the broker after #%d (order not preserved)", pi, sq, l)
			res.Signature = "order"
			return
		}
		last[pi] = sq
	}
	if len(atReturn) != total {
		missing := []string{}
		for tag := range wantKey {
			if seen[tag] == 0 {
				missing = append(missing, tag)
			}
		}
		sort.Strings(missing)
		if len(missing) > 5 {
			missing = missing[:5]
		}
		res.Violation = fmt.Sprintf("%d events were accepted before shutdown, only %d had been handed to the broker when Close returned (backlog when Close was called: %d; first missing: %v)", total, len(atReturn), backlog, missing)
		res.Signature = "not-flushed"
		return
	}
	return
}

func gen(t *rapid.T) Case {
	c := Case{}
	np := rapid.IntRange(1, 8).Draw(t, "producers")
	for i := 0; i < np; i++ {
		p := Producer{N: rapid.OneOf(rapid.IntRange(1, 20), rapid.IntRange(20, 400), rapid.IntRange(400, 3000)).Draw(t, "n")}
		p.Types = rapid.SliceOfN(rapid.IntRange(0, 5), 1, 4).Draw(t, "types")
		p.Ids = rapid.SliceOfN(rapid.IntRange(0, 3), 1, 4).Draw(t, "ids")
		if rapid.Bool().Draw(t, "pause") {
			p.PauseAt = rapid.IntRange(1, p.N).Draw(t, "pauseAt")
		}
		c.Producers = append(c.Producers, p)
	}
	c.Broker = rapid.SliceOfN(rapid.OneOf(rapid.Just(0), rapid.IntRange(0, 30), rapid.IntRange(0, 200), rapid.Just(-1)), 1, 5).Draw(t, "broker")
	c.HoldFirst = rapid.IntRange(0, 3).Draw(t, "holdFirst") == 0
	c.ChanCap = rapid.SampledFrom([]int{0, 0, 0, 4, 16, 64}).Draw(t, "chanCap")
	c.CloseDelay = rapid.SampledFrom([]int{0, 0, 0, 1, 5}).Draw(t, "closeDelay")
	return c
}

func TestWriter(t *testing.T) {
	vh.Check(t, prop, gen, run)
}

func TestWriterFixed(t *testing.T) {
	// 1000 events, slow broker, Close right after the last publish (DESIGN section 9 observation f)
	// the hand-over channel is full while the producers keep publishing (small channel: reached with a few events)
	vh.Fixed(t, prop, "hand-over-channel-full", Case{ChanCap: 4, Producers: []Producer{{N: 300, Types: []int{0, 1}, Ids: []int{0}}, {N: 300, Types: []int{5}, Ids: []int{1}}}, Broker: []int{-1, 20}, HoldFirst: true}, run)
	vh.Fixed(t, prop, "backlog-at-close", Case{Producers: []Producer{{N: 1000, Types: []int{0}, Ids: []int{0}}}, Broker: []int{50}}, run)
	vh.Fixed(t, prop, "held-broker-8-producers", Case{Producers: []Producer{
		{N: 1000, Types: []int{0, 4}, Ids: []int{0, 1}}, {N: 1000, Types: []int{1}, Ids: []int{0}}, {N: 1000, Types: []int{2}, Ids: []int{1}}, {N: 1000, Types: []int{3}, Ids: []int{2}},
		{N: 1000, Types: []int{4}, Ids: []int{3}}, {N: 1000, Types: []int{5}, Ids: []int{0}}, {N: 1000, Types: []int{0}, Ids: []int{1}}, {N: 1000, Types: []int{1, 2, 3}, Ids: []int{2, 3}}},
		Broker: []int{0}, HoldFirst: true}, run)
	vh.Fixed(t, prop, "single-event", Case{Producers: []Producer{{N: 1, Types: []int{4}, Ids: []int{2}}}, Broker: []int{0}}, run)
}

package c19

// Shutdown completes: Close returns (having flushed) however the two loops of the writer are scheduled around it.
// Repeated, because the order in which the batching loop finishes and the writing loop goes to wait is up to the scheduler.

import (
	"fmt"
	"testing"
	"time"

	"github.com/AliceO2Group/Control/common/event"
	pb "github.com/AliceO2Group/Control/common/protos"
	"github.com/segmentio/kafka-go"

	"verifharness/vh"
)

type CloseCase struct {
	Rounds int
	Events int // events published right before Close in every round (0-2)
}

func runClose(c CloseCase) (res vh.Result) {
	res.NonTrivial = true
	res.Classes = []string{"close-repeated"}
	for i := 0; i < c.Rounds; i++ {
		n := 0
		w := event.VerifNewKafkaWriter("verif-close", func(msgs []kafka.Message) { n += len(msgs) })
		for k := 0; k < c.Events; k++ {
			w.WriteEvent(&pb.Ev_EnvironmentEvent{EnvironmentId: "e", State: fmt.Sprint(k)})
		}
		done := make(chan struct{})
		go func() { w.Close(); close(done) }()
		select {
		case <-done:
			if n != c.Events {
				res.Violation = fmt.Sprintf("round %d: %d events accepted before Close, %d handed to the broker when Close returned", i, c.Events, n)
				res.Signature = "not-flushed"
				return
			}
		case <-time.After(5 * time.Second):
			res.Violation = fmt.Sprintf("round %d: Close of a writer with %d buffered event(s) did not return within 5 s (the writing loop waits for data that cannot come any more)", i, c.Events)
			res.Signature = "close-hangs"
			return
		}
	}
	return
}

func TestCloseRepeated(t *testing.T) {
	for _, ev := range []int{0, 1, 2} {
		vh.Fixed(t, prop, fmt.Sprintf("close-repeated-%d-events", ev), CloseCase{Rounds: vh.Scale(15000, 120000), Events: ev}, runClose)
	}
}

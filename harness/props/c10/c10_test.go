package c10

import (
	"fmt"
	"os"
	"strconv"
	"strings"
	"sync"
	"sync/atomic"
	"testing"
	"time"

	pb "github.com/AliceO2Group/Control/core/protos"
	mesos "github.com/mesos/mesos-go/api/v1/lib"
	"pgregory.net/rapid"

	"verifharness/simworld"
	"verifharness/vh"
)

const prop = "C10"

// Op of a history over one environment.
type Op struct {
	Kind   string // start | stop | stop-taskfail (a task refuses STOP) | destroy-during-start | start-taskfail | start-hookfail | stop-hookfail | taskdeath | destroy (forced) |
	//               destroy-graceful (allowInRunningState: the server stops the run first) | destroy-stopfail (that STOP fails: critical hook at Moment before/leave, or Moment task: a task refuses STOP)
	Moment string // for *-hookfail: before | leave | enter | after
}

type Case struct {
	NTasks int
	Ops    []Op
}

var caseSeq int64
var tsKeys = []string{"run_start_time_ms", "run_start_completion_time_ms", "run_end_time_ms", "run_end_completion_time_ms"}

func world() (*simworld.World, error) {
	return simworld.Shared("default", 15, func() simworld.Options {
		ag, det := simworld.DefaultAgents()
		return simworld.Options{Agents: ag, Detectors: det}
	})
}

type sighting struct {
	seq     int64
	arg     string // probe tag: "<moment>/<weight>"
	run     string
	ts      [4]string
	bracket int
}

func run(c Case) (res vh.Result) {
	w, err := world()
	if err != nil {
		res.Inconclusive = "world: " + err.Error()
		return
	}
	n := atomic.AddInt64(&caseSeq, 1)
	wf := fmt.Sprintf("wf%dx%d", os.Getpid(), n)
	var sb strings.Builder
	fmt.Fprintf(&sb, "name: %s\ndefaults:\n  deploy_timeout: 6s\nroles:\n", wf)
	hosts := []string{"hosta", "hostb", "hostc"}
	for i := 0; i < c.NTasks; i++ {
		cls := fmt.Sprintf("u%dx%dt%d", os.Getpid(), n, i)
		fmt.Fprintf(&sb, "  - name: t%d\n    constraints:\n      - attribute: machine_id\n        value: %s\n    task:\n      load: %s\n", i, hosts[i%3], cls)
		w.WriteTask(cls, simworld.TaskClassYAML(cls, "direct", ""))
	}
	moments := []string{"before_START_ACTIVITY", "leave_CONFIGURED", "enter_RUNNING", "after_START_ACTIVITY", "before_STOP_ACTIVITY", "leave_RUNNING", "enter_CONFIGURED",
		"after_STOP_ACTIVITY", "before_GO_ERROR", "enter_ERROR", "after_GO_ERROR", "leave_ERROR", "DESTROY"}
	k := 0
	for _, m := range moments {
		for _, wgt := range []int{-1, 1} {
			k++
			fmt.Fprintf(&sb, "  - name: p%d\n    call:\n      func: verifprobe.P(\"%s/%+d\")\n      trigger: %s%+d\n      timeout: 5s\n      critical: false\n", k, m, wgt, m, wgt)
		}
	}
	// calls started before the run number / timestamps are set and collected after: they must not drag the hooks of the
	// weight at which they are collected in front of that work
	for _, m := range []string{"before_START_ACTIVITY", "before_STOP_ACTIVITY"} {
		k++
		fmt.Fprintf(&sb, "  - name: s%d\n    call:\n      func: verifprobe.P(\"straddle:%s\")\n      trigger: %s-2\n      await: %s+1\n      timeout: 5s\n      critical: false\n", k, m, m, m)
	}
	// critical probes that fail on demand
	critAt := map[string]string{"start/before": "before_START_ACTIVITY", "start/leave": "leave_CONFIGURED", "start/enter": "enter_RUNNING", "start/after": "after_START_ACTIVITY",
		"stop/before": "before_STOP_ACTIVITY", "stop/leave": "leave_RUNNING", "stop/enter": "enter_CONFIGURED", "stop/after": "after_STOP_ACTIVITY"}
	for key, m := range critAt {
		k++
		fmt.Fprintf(&sb, "  - name: c%d\n    call:\n      func: verifprobe.P(\"crit:%s\")\n      trigger: %s+0\n      timeout: 5s\n      critical: true\n", k, key, m)
	}
	// ... and one in front of everything a START does (before the negative-weight probes, before the run number is taken)
	k++
	fmt.Fprintf(&sb, "  - name: c%d\n    call:\n      func: verifprobe.P(\"crit:start/early\")\n      trigger: before_START_ACTIVITY-3\n      timeout: 5s\n      critical: true\n", k)
	w.WriteWorkflow(wf, sb.String())

	var mu sync.Mutex
	failKey := ""
	failTasks := false
	failStop := false
	var startGate *simworld.Gate
	w.OnProbe = func(p simworld.ProbeRec) simworld.ProbeReply {
		if strings.HasPrefix(p.Arg, "crit:") {
			mu.Lock()
			fk := failKey
			mu.Unlock()
			if fk != "" && p.Arg == "crit:"+fk {
				want := "START_ACTIVITY"
				if strings.HasPrefix(fk, "stop/") {
					want = "STOP_ACTIVITY"
				}
				if w.OpenTransition(p.Env) == want {
					return simworld.ProbeReply{Fail: "simulated critical hook failure at " + fk}
				}
			}
		}
		return simworld.ProbeReply{}
	}
	w.Master.OnCommand = func(t *simworld.SimTask, cmd *simworld.Command) simworld.Reply {
		mu.Lock()
		ft := failTasks
		failStop := failStop
		startGate := startGate
		mu.Unlock()
		if ft && cmd.Event == "START" && strings.HasSuffix(simworld.ClassOf(t), "t0") {
			return simworld.Reply{Error: "simulated task failure", State: "CONFIGURED"}
		}
		if sg := startGate; sg != nil && cmd.Event == "START" && strings.HasSuffix(simworld.ClassOf(t), "t0") {
			return simworld.Reply{Hold: sg}
		}
		if failStop && cmd.Event == "STOP" && strings.HasSuffix(simworld.ClassOf(t), "t0") {
			return simworld.Reply{Error: "simulated task failure", State: "RUNNING"}
		}
		return simworld.Reply{}
	}
	steps := []string{}
	defer func() { res.History = map[string]interface{}{"steps": steps, "world_log_tail": w.LogLines(60)} }()
	fail := func(sig, f string, a ...interface{}) vh.Result {
		res.Violation = fmt.Sprintf(f, a...)
		res.Signature = sig
		simworld.Discard()
		return res
	}

	env, err := w.NewEnv(wf, nil, 40*time.Second)
	if err != nil {
		res.Inconclusive = "creation failed: " + err.Error()
		simworld.Discard()
		return
	}
	id := env.Id

	// ---- run records built while executing
	type runRec struct {
		number    string
		startSeq  int64 // seq of the START request
		endSeq    int64 // seq after which the run is over (0 = until the end of the history)
		endedBy   string
		stopDone  bool // STOP_ACTIVITY reached after_STOP_ACTIVITY
		startedOK bool
		noRun     bool // a START vetoed before it took a run number: not a run
		finalVars map[string]string
	}
	var runs []*runRec
	state := "CONFIGURED"
	destroyed := false
	userVars := func() map[string]string {
		ge, err := w.GetEnv(id, false)
		if err != nil {
			return nil
		}
		return ge.GetEnvironment().GetUserVars()
	}
	setFail := func(key string, tasks bool) {
		mu.Lock()
		failKey, failTasks = key, tasks
		mu.Unlock()
	}
	nRuns, errEnd, hookInRun := 0, false, false
	for oi, op := range c.Ops {
		if destroyed || state == "ERROR" {
			break
		}
		switch op.Kind {
		case "start", "start-taskfail", "start-hookfail":
			if state != "CONFIGURED" {
				continue
			}
			if op.Kind == "start-taskfail" {
				setFail("", true)
			} else if op.Kind == "start-hookfail" {
				setFail("start/"+op.Moment, false)
				hookInRun = true
			}
			mark := w.Note("op %d %s %s", oi, op.Kind, op.Moment)
			rep, err := w.Control(id, pb.ControlEnvironmentRequest_START_ACTIVITY, 60*time.Second)
			setFail("", false)
			// (a START vetoed in front of everything it does has not begun a run: what the previous run left behind stays as it is)
			r := &runRec{startSeq: mark, noRun: op.Kind == "start-hookfail" && op.Moment == "early"}
			// the number this START obtained, as seen by its own +1 probe
			for _, p := range w.Probes() {
				if p.Seq > mark && p.Env == id && p.Arg == "before_START_ACTIVITY/+1" && p.Phase == "start" {
					r.number = p.Vars["run_number"]
				}
			}
			steps = append(steps, fmt.Sprintf("op %d %s %s -> state=%s run=%d err=%v (number seen by hooks: %q)", oi, op.Kind, op.Moment, rep.GetState(), rep.GetCurrentRunNumber(), err, r.number))
			runs = append(runs, r)
			if err == nil && rep.GetState() == "RUNNING" {
				r.startedOK = true
				state = "RUNNING"
				nRuns++
				if r.number != strconv.Itoa(int(rep.GetCurrentRunNumber())) {
					return fail("run-number-mismatch", "START_ACTIVITY replied run %d but its before_START_ACTIVITY+1 hook saw run_number %q", rep.GetCurrentRunNumber(), r.number)
				}
			} else {
				st, _ := w.WaitState(id, 5*time.Second, "ERROR")
				state = st
				r.endedBy = "failed-start"
				if op.Kind == "start-taskfail" {
					// the run was opened (number taken, start time set, shown to the hooks and pushed to the tasks) and ended by the
					// tasks' failure: it is closed like any other run that ends in error
					r.endedBy = "tasks-failed-to-start"
				}
				errEnd = true
				r.finalVars = userVars()
				if op.Kind == "start-taskfail" {
					// the completion stamp is written at after_GO_ERROR, a moment after the state reads ERROR
					for dl := time.Now().Add(3 * time.Second); time.Now().Before(dl) && (r.finalVars["run_end_time_ms"] == "" || r.finalVars["run_end_completion_time_ms"] == ""); {
						time.Sleep(50 * time.Millisecond)
						r.finalVars = userVars()
					}
				}
			}
		case "stop", "stop-hookfail", "stop-taskfail":
			if state != "RUNNING" {
				continue
			}
			if op.Kind == "stop-hookfail" {
				setFail("stop/"+op.Moment, false)
				hookInRun = true
			}
			if op.Kind == "stop-taskfail" {
				mu.Lock()
				failStop = true
				mu.Unlock()
				hookInRun = true
			}
			w.Note("op %d %s %s", oi, op.Kind, op.Moment)
			rep, err := w.Control(id, pb.ControlEnvironmentRequest_STOP_ACTIVITY, 60*time.Second)
			setFail("", false)
			mu.Lock()
			failStop = false
			mu.Unlock()
			steps = append(steps, fmt.Sprintf("op %d %s %s -> state=%s err=%v", oi, op.Kind, op.Moment, rep.GetState(), err))
			r := runs[len(runs)-1]
			r.endSeq = w.Note("end of op %d", oi)
			// the run is over when the STOP_ACTIVITY transition itself has finished (the API may add a GO_ERROR afterwards)
			for _, e := range w.EnvEvents(id) {
				if e.Transition == "STOP_ACTIVITY" && (e.Message == "transition completed successfully" || e.Message == "transition error") {
					r.endSeq = e.Seq
				}
			}
			if op.Kind == "stop" {
				r.endedBy, r.stopDone = "stop", true
				state = "CONFIGURED"
			} else if op.Kind == "stop-taskfail" {
				r.endedBy = "stop-taskfail"
				st, _ := w.WaitState(id, 5*time.Second, "ERROR")
				state = st
				errEnd = true
				// the run goes on until the GO_ERROR that follows is over: hooks of that GO_ERROR still belong to it
				r.endSeq = w.Note("end of op %d (after GO_ERROR)", oi)
			} else {
				r.endedBy = "stop-hookfail-" + op.Moment
				r.stopDone = op.Moment == "enter" || op.Moment == "after" // the stop itself happened, its after_STOP_ACTIVITY moment was passed
				st, _ := w.WaitState(id, 5*time.Second, "ERROR")
				state = st
				errEnd = true
			}
			r.finalVars = userVars()
		case "taskdeath":
			if state != "RUNNING" || c.NTasks == 0 {
				continue
			}
			var victim *simworld.SimTask
			for _, t := range w.Master.Tasks() {
				if t.EnvID == id && strings.HasSuffix(simworld.ClassOf(t), "t0") && !t.Terminal {
					victim = t
				}
			}
			if victim == nil {
				continue
			}
			w.Note("op %d taskdeath", oi)
			rr := mesos.REASON_EXECUTOR_TERMINATED
			w.Master.SendUpdate(victim.ID, mesos.TASK_FAILED, &rr, mesos.SOURCE_EXECUTOR)
			st, ok := w.WaitState(id, 15*time.Second, "ERROR")
			steps = append(steps, fmt.Sprintf("op %d taskdeath -> %s", oi, st))
			if !ok {
				res.Inconclusive = "environment did not reach ERROR after the death of a critical task (C03's subject)"
				simworld.Discard()
				return
			}
			time.Sleep(300 * time.Millisecond) // let the GO_ERROR transition finish its after_ moment
			state = "ERROR"
			errEnd = true
			r := runs[len(runs)-1]
			r.endedBy = "task-death"
			r.finalVars = userVars()
		case "destroy-during-start":
			// a forced destroy arrives while START_ACTIVITY is in flight (parked on a task's reply) and has to wait for it
			if state != "CONFIGURED" || c.NTasks == 0 {
				continue
			}
			g := simworld.NewGate()
			mu.Lock()
			startGate = g
			mu.Unlock()
			mark := w.Note("op %d destroy-during-start", oi)
			type rr struct {
				st  string
				rn  uint32
				err error
			}
			startDone, destroyDone := make(chan rr, 1), make(chan error, 1)
			go func() {
				rep, err := w.Control(id, pb.ControlEnvironmentRequest_START_ACTIVITY, 90*time.Second)
				startDone <- rr{rep.GetState(), rep.GetCurrentRunNumber(), err}
			}()
			if !g.AwaitArrival(1, 10*time.Second) {
				g.Open()
				<-startDone
				mu.Lock()
				startGate = nil
				mu.Unlock()
				res.Inconclusive = "START did not reach the tasks"
				simworld.Discard()
				return
			}
			go func() {
				_, err := w.Destroy(id, true, true, false, 90*time.Second)
				destroyDone <- err
			}()
			time.Sleep(200 * time.Millisecond) // the teardown is now waiting for the transition
			mu.Lock()
			startGate = nil
			mu.Unlock()
			g.Open()
			sr := <-startDone
			derr := <-destroyDone
			steps = append(steps, fmt.Sprintf("op %d destroy-during-start: START -> state=%s run=%d err=%v; destroy -> err=%v", oi, sr.st, sr.rn, sr.err, derr))
			r := &runRec{startSeq: mark, startedOK: sr.err == nil && sr.rn != 0, endedBy: "teardown-queued-behind-start"}
			for _, p := range w.Probes() {
				if p.Seq > mark && p.Env == id && p.Arg == "before_START_ACTIVITY/+1" && p.Phase == "start" {
					r.number = p.Vars["run_number"]
				}
				if p.Seq > mark && p.Env == id && strings.HasPrefix(p.Arg, "DESTROY/") && p.Phase == "start" {
					r.finalVars = p.Vars
				}
			}
			runs = append(runs, r)
			if r.startedOK {
				nRuns++
			}
			destroyed = true
			errEnd = true
		case "destroy-graceful", "destroy-stopfail":
			if state != "RUNNING" {
				continue
			}
			if op.Kind == "destroy-stopfail" {
				if op.Moment == "task" {
					mu.Lock()
					failStop = true
					mu.Unlock()
				} else {
					setFail("stop/"+op.Moment, false)
				}
				hookInRun = true
			}
			mark := w.Note("op %d %s %s", oi, op.Kind, op.Moment)
			_, err := w.Destroy(id, false, true, false, 90*time.Second)
			setFail("", false)
			mu.Lock()
			failStop = false
			mu.Unlock()
			steps = append(steps, fmt.Sprintf("op %d %s %s from RUNNING -> err=%v", oi, op.Kind, op.Moment, err))
			destroyed = true
			errEnd = true
			r := runs[len(runs)-1]
			for _, e := range w.EnvEvents(id) {
				if e.Seq > mark && e.Transition == "STOP_ACTIVITY" && (e.Message == "transition completed successfully" || e.Message == "transition error") {
					r.endSeq = e.Seq
				}
			}
			if op.Kind == "destroy-graceful" {
				r.endedBy, r.stopDone = "stop-then-teardown", true
			} else {
				r.endedBy = "teardown-after-failed-stop-" + op.Moment
			}
			for _, p := range w.Probes() {
				if p.Env == id && strings.HasPrefix(p.Arg, "DESTROY/") && p.Phase == "start" {
					r.finalVars = p.Vars
				}
			}
		case "destroy":
			w.Note("op %d destroy", oi)
			_, err := w.Destroy(id, true, true, false, 60*time.Second)
			steps = append(steps, fmt.Sprintf("op %d destroy from %s -> err=%v", oi, state, err))
			destroyed = true
			if state == "RUNNING" {
				r := runs[len(runs)-1]
				r.endedBy = "teardown"
				errEnd = true
				// the last snapshot of the run: what the DESTROY hooks saw
				for _, p := range w.Probes() {
					if p.Env == id && strings.HasPrefix(p.Arg, "DESTROY/") && p.Phase == "start" {
						r.finalVars = p.Vars
					}
				}
			}
		}
		if crash := w.CoreCrash(); crash != "" {
			return fail("core-crash", "the core died: %s", crash)
		}
	}
	res.NonTrivial = nRuns >= 2 || errEnd || hookInRun
	res.Classes = []string{fmt.Sprintf("runs:%d", nRuns)}
	if errEnd {
		res.Classes = append(res.Classes, "run-ended-by-error-or-teardown")
	}
	if hookInRun {
		res.Classes = append(res.Classes, "failing-hook-in-run")
	}

	// ---- sightings of this environment in world order
	var sight []sighting
	for _, p := range w.Probes() {
		if p.Env != id || p.Phase != "start" || strings.HasPrefix(p.Arg, "crit:") || strings.HasPrefix(p.Arg, "straddle:") {
			continue
		}
		s := sighting{seq: p.Seq, arg: p.Arg, run: p.Vars["run_number"]}
		for i, k := range tsKeys {
			s.ts[i] = p.Vars[k]
		}
		sight = append(sight, s)
	}
	numbers := map[string]bool{}
	for ri, r := range runs {
		if r.number == "" {
			if r.startedOK {
				return fail("no-run-number-for-hooks", "run #%d started but its before_START_ACTIVITY+1 hook saw no run_number", ri)
			}
			continue
		}
		if numbers[r.number] {
			return fail("run-number-reused", "run number %s was used for two runs of this environment", r.number)
		}
		numbers[r.number] = true
		end := r.endSeq
		if end == 0 {
			end = 1 << 62
		}
		var first [4]string
		sawPlus := false
		for _, s := range sight {
			if s.seq < r.startSeq {
				continue
			}
			inRun := s.seq < end
			if !inRun {
				// V3: after the end of after_STOP_ACTIVITY the run number is gone
				if r.stopDone && s.run == r.number {
					return fail("run-number-visible-after-stop", "run %s is still visible to hook %s (#%d) after its STOP_ACTIVITY finished", r.number, s.arg, s.seq)
				}
				// V9: what the run left behind is not stamped a second time before the next run starts (each of the four is set at
				// most once per run): a later hook sees either nothing or the value the run ended with
				nextStart := int64(1) << 62
				for _, nr := range runs[ri+1:] {
					if !nr.noRun {
						nextStart = nr.startSeq
						break
					}
				}
				if r.stopDone && s.seq < nextStart {
					for i := range tsKeys {
						if first[i] != "" && s.ts[i] != "" && s.ts[i] != first[i] {
							return fail("timestamp-changed-after-run:"+tsKeys[i], "%s of run %s was %q when the run ended and is %q for hook %s (#%d) afterwards", tsKeys[i], r.number, first[i], s.ts[i], s.arg, s.seq)
						}
					}
				}
				continue
			}
			if s.arg == "before_START_ACTIVITY/-1" && !sawPlus {
				// V1: negative-weight hooks of before_START_ACTIVITY run before the number and the start time exist
				if s.run == r.number {
					return fail("number-set-before-negative-hooks", "the negative-weight before_START_ACTIVITY hook already saw run number %s", r.number)
				}
				continue
			}
			sawPlus = true
			// V2: unchanged number and start time for every hook of the run
			if s.run != r.number {
				if !r.startedOK {
					continue // a START that failed gives the number up; not claimed
				}
				return fail("run-number-changed-during-run", "hook %s (#%d) saw run_number %q during run %s (ended by %s)", s.arg, s.seq, s.run, r.number, r.endedBy)
			}
			// V4 set at most once, V5 ordered
			for i := range tsKeys {
				if first[i] == "" {
					first[i] = s.ts[i]
				} else if s.ts[i] != first[i] {
					return fail("timestamp-changed:"+tsKeys[i], "%s changed during run %s: %q then %q (hook %s #%d)", tsKeys[i], r.number, first[i], s.ts[i], s.arg, s.seq)
				}
			}
			if s.arg == "before_START_ACTIVITY/+1" {
				if s.ts[0] == "" {
					return fail("start-time-missing", "run %s: the first non-negative before_START_ACTIVITY hook sees no run_start_time_ms", r.number)
				}
				// V7: nothing of the previous run is visible
				for i := 1; i < 4; i++ {
					if s.ts[i] != "" {
						return fail("previous-run-value-visible:"+tsKeys[i], "run %s: at before_START_ACTIVITY+1 %s=%q of the previous run is still visible", r.number, tsKeys[i], s.ts[i])
					}
				}
			}
			var prev int64 = -1
			for i := range tsKeys {
				if s.ts[i] == "" {
					continue
				}
				v, err := strconv.ParseInt(s.ts[i], 10, 64)
				if err != nil {
					return fail("timestamp-not-a-number", "%s=%q", tsKeys[i], s.ts[i])
				}
				if v < prev {
					return fail("timestamp-order", "run %s: %s=%d is earlier than the preceding run timestamp %d (hook %s)", r.number, tsKeys[i], v, prev, s.arg)
				}
				prev = v
			}
		}
		// V6: however the run ended, both end timestamps are set in the last snapshot of the run
		if r.endedBy != "" && r.endedBy != "failed-start" && r.finalVars != nil {
			if r.finalVars["run_end_time_ms"] == "" || r.finalVars["run_end_completion_time_ms"] == "" {
				return fail("end-timestamps-missing:"+r.endedBy, "run %s ended by %s; last snapshot has run_end_time_ms=%q run_end_completion_time_ms=%q", r.number, r.endedBy, r.finalVars["run_end_time_ms"], r.finalVars["run_end_completion_time_ms"])
			}
			if first[2] != "" && r.finalVars["run_end_time_ms"] != first[2] {
				return fail("timestamp-changed:run_end_time_ms", "run %s: run_end_time_ms was %q for the hooks and is %q in the last snapshot", r.number, first[2], r.finalVars["run_end_time_ms"])
			}
		}
		// V8: run events
		if r.startedOK {
			sawStart, sawEnd := false, false
			for _, e := range w.Events() {
				if e.Topic != "aliecs.run" || e.Ev["environmentId"] != id {
					continue
				}
				if rn, _ := e.Ev["runNumber"].(float64); strconv.Itoa(int(rn)) != r.number {
					continue
				}
				if e.Ev["transition"] == "START_ACTIVITY" {
					sawStart = true
				} else {
					sawEnd = true
				}
			}
			if !sawStart {
				return fail("no-start-record", "no start-of-run record was published for run %s", r.number)
			}
			if r.endedBy != "" && !sawEnd {
				return fail("no-end-record:"+r.endedBy, "run %s ended by %s but no end-of-run record was published", r.number, r.endedBy)
			}
		}
		if r.stopDone && !destroyed {
			// V3 through the API
			ge, err := w.GetEnv(id, false)
			if err == nil && ri == len(runs)-1 && ge.GetEnvironment().GetCurrentRunNumber() != 0 {
				return fail("run-number-visible-after-stop", "run %s: currentRunNumber is still %d after STOP_ACTIVITY finished (%s)", r.number, ge.GetEnvironment().GetCurrentRunNumber(), r.endedBy)
			}
		}
	}
	return
}

func gen(t *rapid.T) Case {
	c := Case{NTasks: rapid.IntRange(1, 2).Draw(t, "ntasks")}
	n := rapid.IntRange(2, 9).Draw(t, "ops")
	running := false
	for i := 0; i < n; i++ {
		var op Op
		if !running {
			op.Kind = rapid.SampledFrom([]string{"start", "start", "start", "start", "start", "start-taskfail", "start-hookfail", "destroy", "destroy-during-start"}).Draw(t, "kind")
		} else {
			op.Kind = rapid.SampledFrom([]string{"stop", "stop", "stop", "stop", "stop-hookfail", "stop-hookfail", "stop-taskfail", "taskdeath", "destroy", "destroy-graceful", "destroy-stopfail"}).Draw(t, "kind")
		}
		if op.Kind == "destroy-stopfail" {
			op.Moment = rapid.SampledFrom([]string{"before", "leave", "task"}).Draw(t, "stopFailure")
		}
		if strings.HasSuffix(op.Kind, "hookfail") {
			op.Moment = rapid.SampledFrom([]string{"before", "leave", "enter", "after"}).Draw(t, "moment")
			if op.Kind == "start-hookfail" && rapid.IntRange(0, 3).Draw(t, "early") == 0 {
				op.Moment = "early" // the START is vetoed before it has taken a run number
			}
		}
		c.Ops = append(c.Ops, op)
		switch op.Kind {
		case "start":
			running = true
		case "stop":
			running = false
		case "start-hookfail":
			if op.Moment == "enter" || op.Moment == "after" {
				running = true // the start itself happened; the API then goes to ERROR, the history ends there anyway
			}
		}
	}
	return c
}

func TestRuns(t *testing.T) {
	defer simworld.Discard()
	vh.Check(t, prop, gen, vh.Confirmed(run))
}

func TestFixed(t *testing.T) {
	defer simworld.Discard()
	vh.Fixed(t, prop, "three-runs", Case{NTasks: 1, Ops: []Op{{Kind: "start"}, {Kind: "stop"}, {Kind: "start"}, {Kind: "stop"}, {Kind: "start"}, {Kind: "stop"}, {Kind: "destroy"}}}, vh.Confirmed(run))
	vh.Fixed(t, prop, "teardown-while-running", Case{NTasks: 1, Ops: []Op{{Kind: "start"}, {Kind: "stop"}, {Kind: "start"}, {Kind: "destroy"}}}, vh.Confirmed(run))
	vh.Fixed(t, prop, "task-death-ends-run", Case{NTasks: 2, Ops: []Op{{Kind: "start"}, {Kind: "taskdeath"}}}, vh.Confirmed(run))
	vh.Fixed(t, prop, "failed-start", Case{NTasks: 1, Ops: []Op{{Kind: "start"}, {Kind: "stop"}, {Kind: "start-taskfail"}}}, vh.Confirmed(run))
	vh.Fixed(t, prop, "forced-destroy-queued-behind-start", Case{NTasks: 2, Ops: []Op{{Kind: "start"}, {Kind: "stop"}, {Kind: "destroy-during-start"}}}, vh.Confirmed(run))
	vh.Fixed(t, prop, "stop-fails-in-the-tasks", Case{NTasks: 2, Ops: []Op{{Kind: "start"}, {Kind: "stop"}, {Kind: "start"}, {Kind: "stop-taskfail"}}}, vh.Confirmed(run))
	vh.Fixed(t, prop, "graceful-destroy-while-running", Case{NTasks: 1, Ops: []Op{{Kind: "start"}, {Kind: "stop"}, {Kind: "start"}, {Kind: "destroy-graceful"}}}, vh.Confirmed(run))
	for _, m := range []string{"before", "leave", "task"} {
		vh.Fixed(t, prop, "graceful-destroy-whose-stop-fails-"+m, Case{NTasks: 2, Ops: []Op{{Kind: "start"}, {Kind: "destroy-stopfail", Moment: m}}}, vh.Confirmed(run))
	}
	for _, m := range []string{"before", "leave", "enter", "after"} {
		vh.Fixed(t, prop, "stop-hook-fails-"+m, Case{NTasks: 1, Ops: []Op{{Kind: "start"}, {Kind: "stop"}, {Kind: "start"}, {Kind: "stop-hookfail", Moment: m}}}, vh.Confirmed(run))
		vh.Fixed(t, prop, "start-hook-fails-"+m, Case{NTasks: 1, Ops: []Op{{Kind: "start"}, {Kind: "stop"}, {Kind: "start-hookfail", Moment: m}}}, vh.Confirmed(run))
		if m == "before" {
			vh.Fixed(t, prop, "start-vetoed-before-the-run-number-is-taken", Case{NTasks: 1, Ops: []Op{{Kind: "start"}, {Kind: "stop"}, {Kind: "start-hookfail", Moment: "early"}}}, vh.Confirmed(run))
		}
	}
}

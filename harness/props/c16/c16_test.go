package c16

import (
	"context"
	"fmt"
	"net"
	"strings"
	"sync"
	"testing"

	"github.com/AliceO2Group/Control/common/controlmode"
	"github.com/AliceO2Group/Control/common/utils/uid"
	"github.com/AliceO2Group/Control/core/controlcommands"
	"github.com/AliceO2Group/Control/executor/executorcmd"
	pb "github.com/AliceO2Group/Control/executor/protos"
	"github.com/sirupsen/logrus"
	"google.golang.org/grpc"
	"google.golang.org/grpc/codes"
	"google.golang.org/grpc/status"

	"verifharness/vh"
)

const prop = "C16"

// outcome of one device step
const (
	oDone            = iota // device reaches the expected final state of the event
	oRefusedReply           // device stays where it is, reply ok=false with the current state (trigger DEVICE_INTENTIONAL)
	oRefusedGrpc            // device stays, plugin answers with a gRPC error ("no transitions made")
	oToError                // device goes to ERROR, reply ok=false trigger DEVICE_ERROR
	oTransportBefore        // transport error, request never applied
	oTransportAfter         // request applied (device in the expected final state), reply lost
	nOutcomes
)

var outcomeNames = []string{"done", "refused(reply)", "refused(grpc)", "to-ERROR", "transport-before", "transport-after"}

// ---- simulated device, following occ/plugin/OccFMQCommon.cxx::doTransition ----

type table map[string]map[string]string // state -> event -> expected final state

var fmqTable = table{
	"IDLE":                {"INIT DEVICE": "INITIALIZING DEVICE", "END": "EXITING"},
	"INITIALIZING DEVICE": {"COMPLETE INIT": "INITIALIZED", "RESET DEVICE": "IDLE"},
	"INITIALIZED":         {"BIND": "BOUND", "RESET DEVICE": "IDLE"},
	"BOUND":               {"CONNECT": "DEVICE READY", "RESET DEVICE": "IDLE"},
	"DEVICE READY":        {"INIT TASK": "READY", "RESET DEVICE": "IDLE"},
	"READY":               {"RUN": "RUNNING", "RESET TASK": "DEVICE READY"},
	"RUNNING":             {"STOP": "READY"},
	"ERROR":               {"END": "EXITING"},
	"EXITING":             {},
}

var directTable = table{
	"STANDBY":    {"CONFIGURE": "CONFIGURED", "EXIT": "DONE"},
	"CONFIGURED": {"START": "RUNNING", "RESET": "STANDBY", "EXIT": "DONE"},
	"RUNNING":    {"STOP": "CONFIGURED"},
	"ERROR":      {"EXIT": "DONE", "RECOVER": "STANDBY"},
	"DONE":       {},
}

type step struct {
	Event, Src, DeviceBefore, Outcome, DeviceAfter, Reply string
}

type device struct {
	pb.UnimplementedOccServer
	mu     sync.Mutex
	tbl    table
	state  string
	choose func() int
	steps  []step
	// bookkeeping for the oracle
	lastInjected   bool // the last request ended in an injected gRPC-level failure (executor cannot know the state)
	lastMismatch   bool // the last request was refused because the source state did not match
	firstMismatch  bool // ... and it was the very first request
	nonDone        int
	refusedReplyAt string // device state in which a refused(reply) outcome happened last
	// bare: refusals at gRPC level carry no message, as the JSON-transport control plugin (OccLiteServer) answers them
	// with a bare CANCELLED status; otherwise they carry the messages of the protobuf plugin
	bare bool
}

func (d *device) refusal(code codes.Code, msg string) error {
	if d.bare {
		return status.Error(codes.Canceled, "")
	}
	return status.Error(code, msg)
}

func (d *device) GetState(context.Context, *pb.GetStateRequest) (*pb.GetStateReply, error) {
	d.mu.Lock()
	defer d.mu.Unlock()
	return &pb.GetStateReply{State: d.state}, nil
}

func (d *device) Transition(_ context.Context, req *pb.TransitionRequest) (*pb.TransitionReply, error) {
	d.mu.Lock()
	defer d.mu.Unlock()
	st := step{Event: req.TransitionEvent, Src: req.SrcState, DeviceBefore: d.state}
	defer func() { st.DeviceAfter = d.state; d.steps = append(d.steps, st) }()
	d.lastInjected, d.lastMismatch = false, false
	if req.SrcState != d.state {
		d.lastMismatch = true
		if len(d.steps) == 0 {
			d.firstMismatch = true
		}
		st.Outcome = "src-mismatch"
		st.Reply = "grpc INVALID_ARGUMENT"
		return nil, d.refusal(codes.InvalidArgument, "transition not possible: state mismatch: source: "+req.SrcState+" current: "+d.state)
	}
	final, valid := d.tbl[d.state][req.TransitionEvent]
	if !valid {
		d.lastMismatch = true
		st.Outcome = "invalid-event"
		st.Reply = "grpc INTERNAL"
		return nil, d.refusal(codes.Internal, "no transitions made, current state stays "+d.state)
	}
	o := d.choose()
	st.Outcome = outcomeNames[o]
	if o != oDone {
		d.nonDone++
	}
	switch o {
	case oDone:
		d.state = final
		st.Reply = "ok " + final
		return &pb.TransitionReply{Trigger: pb.StateChangeTrigger_EXECUTOR, State: final, TransitionEvent: req.TransitionEvent, Ok: true}, nil
	case oRefusedReply:
		d.refusedReplyAt = d.state
		st.Reply = "not-ok " + d.state
		return &pb.TransitionReply{Trigger: pb.StateChangeTrigger_DEVICE_INTENTIONAL, State: d.state, TransitionEvent: req.TransitionEvent, Ok: false}, nil
	case oRefusedGrpc:
		d.lastInjected = true
		st.Reply = "grpc INTERNAL"
		return nil, d.refusal(codes.Internal, "no transitions made, current state stays "+d.state)
	case oToError:
		d.state = "ERROR"
		st.Reply = "not-ok ERROR"
		return &pb.TransitionReply{Trigger: pb.StateChangeTrigger_DEVICE_ERROR, State: "ERROR", TransitionEvent: req.TransitionEvent, Ok: false}, nil
	case oTransportBefore:
		d.lastInjected = true
		st.Reply = "grpc UNAVAILABLE"
		return nil, status.Error(codes.Unavailable, "injected transport error (not applied)")
	default:
		d.state = final
		d.lastInjected = true
		st.Reply = "grpc UNAVAILABLE"
		return nil, status.Error(codes.Unavailable, "injected transport error (applied)")
	}
}

func (d *device) reset(state string, choose func() int) {
	d.mu.Lock()
	defer d.mu.Unlock()
	d.state, d.choose, d.steps = state, choose, nil
	d.lastInjected, d.lastMismatch, d.firstMismatch, d.nonDone, d.refusedReplyAt = false, false, false, 0, ""
}

type rig struct {
	dev    *device
	client *executorcmd.RpcClient
	srv    *grpc.Server
}

func newRig(mode controlmode.ControlMode, tbl table) (*rig, error) {
	ln, err := net.Listen("tcp", "127.0.0.1:0")
	if err != nil {
		return nil, err
	}
	dev := &device{tbl: tbl}
	srv := grpc.NewServer()
	pb.RegisterOccServer(srv, dev)
	go srv.Serve(ln)
	lg := logrus.New()
	lg.SetLevel(logrus.PanicLevel)
	cl := executorcmd.NewClient(uint64(ln.Addr().(*net.TCPAddr).Port), mode, executorcmd.ProtobufTransport, logrus.NewEntry(lg).WithField("id", "verif-task"))
	if cl == nil {
		srv.Stop()
		return nil, fmt.Errorf("NewClient returned nil")
	}
	return &rig{dev: dev, client: cl, srv: srv}, nil
}

func (r *rig) close() { r.client.Close(); r.srv.Stop() }

// ---- oracle ----

var fmqImage = map[string]string{"IDLE": "STANDBY", "READY": "CONFIGURED", "RUNNING": "RUNNING", "ERROR": "ERROR", "EXITING": "DONE"}
var fmqOf = map[string]string{"STANDBY": "IDLE", "CONFIGURED": "READY", "RUNNING": "RUNNING", "ERROR": "ERROR", "DONE": "EXITING"}

type commitCase struct {
	Mode    string
	Event   string
	Src     string
	Dst     string
	Device  string // real device state before the request
	Script  []string
	Steps   []step
	Report  string
	Err     string
	DevEnd  string
	Verdict string
}

// the (event, source) pairs of the task state machine; a wrong source means the device is really elsewhere
var validSrc = map[string][]string{"CONFIGURE": {"STANDBY"}, "START": {"CONFIGURED"}, "STOP": {"RUNNING"}, "RESET": {"CONFIGURED"}, "EXIT": {"STANDBY", "CONFIGURED", "ERROR"}}

var dstOf = map[string]string{"CONFIGURE": "CONFIGURED", "START": "RUNNING", "STOP": "CONFIGURED", "RESET": "STANDBY", "EXIT": "DONE"}

// documented rollbacks (comments in fairmq.go): stuck state -> rollback event
var rollbackFrom = map[string]string{"INITIALIZED": "RESET DEVICE", "BOUND": "RESET DEVICE", "DEVICE READY": ""}

func judge(mode string, c *commitCase, d *device, report string, err error) (violation, sig string) {
	image := func(s string) (string, bool) {
		if mode == "direct" {
			return s, true
		}
		v, ok := fmqImage[s]
		return v, ok
	}
	devOf := func(s string) string {
		if mode == "direct" {
			return s
		}
		return fmqOf[s]
	}
	img, defined := image(d.state)
	// success only if the destination was reached
	if err == nil {
		if d.state != devOf(c.Dst) {
			return fmt.Sprintf("success reported (state %q) but the device is in %q, not in the destination %q", report, d.state, devOf(c.Dst)), "success-without-destination"
		}
		if report != c.Dst {
			return fmt.Sprintf("success reported with state %q, destination is %q (device in %q)", report, c.Dst, d.state), "success-wrong-report"
		}
		return "", ""
	}
	// never a definite wrong state
	if report != "" {
		if !defined || report != img {
			return fmt.Sprintf("reported state %q but the device is really in %q (image %q)", report, d.state, img), "wrong-state:" + report + "-vs-" + d.state
		}
		return "", ""
	}
	// report is "unknown": admissible only if the executor cannot know better
	if !defined {
		// a device left in an intermediate state by a refusal: was a documented rollback available?
		return "", ""
	}
	if d.lastInjected {
		return "", "" // the last request failed below the protocol; the executor got no state
	}
	if d.lastMismatch && len(d.steps) == 1 {
		return "", "" // the caller claimed a source state the device is not in; nothing was done
	}
	return fmt.Sprintf("reported no state although the device is in %q (image %q) and the last reply carried a state or the executor issued a request the device could only refuse", d.state, img), "unknown-report:" + d.state
}

// judgeRollback: the statement's second sentence
func judgeRollback(mode string, c *commitCase, d *device) (violation, sig string) {
	if mode != "fairmq" || (c.Event != "CONFIGURE" && c.Event != "RESET" && c.Event != "EXIT") {
		return "", ""
	}
	if c.Device != fmqOf[c.Src] {
		return "", "" // wrong claimed source: nothing to roll back to
	}
	// find the first non-done step; if it is a refusal in place (by reply) in a state with a documented rollback,
	// and the rollback request that follows was "done", the device must be back in the source state
	for i, s := range d.steps {
		if s.Outcome == "done" {
			continue
		}
		if s.Outcome != outcomeNames[oRefusedReply] {
			return "", ""
		}
		stuck := s.DeviceBefore
		var want string
		switch {
		case c.Event == "CONFIGURE" && (stuck == "INITIALIZED" || stuck == "BOUND" || stuck == "DEVICE READY"):
			want = "RESET DEVICE"
		case (c.Event == "RESET" || c.Event == "EXIT") && stuck == "DEVICE READY":
			want = "INIT TASK"
		default:
			return "", ""
		}
		if i+1 >= len(d.steps) {
			return fmt.Sprintf("%s stopped in %q (step %s refused) and no rollback was attempted", c.Event, stuck, s.Event), "no-rollback:" + stuck
		}
		rb := d.steps[i+1]
		if rb.Event != want || rb.Src != stuck {
			return fmt.Sprintf("%s stopped in %q; expected rollback %q from it, the executor sent %q (src %q)", c.Event, stuck, want, rb.Event, rb.Src), "wrong-rollback:" + stuck
		}
		if rb.Outcome == "done" && d.state != fmqOf[c.Src] {
			return fmt.Sprintf("%s stopped in %q, the device accepted the rollback, yet it ends in %q instead of the source %q", c.Event, stuck, d.state, fmqOf[c.Src]), "rollback-not-to-source"
		}
		return "", ""
	}
	return "", ""
}

// enumerate all outcome assignments by depth-first search over the choices actually consulted
func enumerate(run func(choose func() int)) int {
	stack := []int{}
	n := 0
	for {
		pos := 0
		choose := func() int {
			if pos < len(stack) {
				v := stack[pos]
				pos++
				return v
			}
			stack = append(stack, 0)
			pos++
			return 0
		}
		run(choose)
		n++
		stack = stack[:pos]
		for len(stack) > 0 && stack[len(stack)-1] == nOutcomes-1 {
			stack = stack[:len(stack)-1]
		}
		if len(stack) == 0 {
			return n
		}
		stack[len(stack)-1]++
	}
}

func TestCommitExhaustive(t *testing.T) {
	modes := []struct {
		name   string
		mode   controlmode.ControlMode
		tbl    table
		states []string
	}{
		{"fairmq", controlmode.FAIRMQ, fmqTable, []string{"IDLE", "INITIALIZING DEVICE", "INITIALIZED", "BOUND", "DEVICE READY", "READY", "RUNNING", "ERROR", "EXITING"}},
		{"direct", controlmode.DIRECT, directTable, []string{"STANDBY", "CONFIGURED", "RUNNING", "ERROR", "DONE"}},
	}
	total, nontrivial := 0, 0
	envId := uid.New()
	classes := map[string]int{}
	var samples []interface{}
	seenViolations := map[string]bool{}
	for _, m := range modes {
		for _, bare := range []bool{false, true} {
			rg, err := newRig(m.mode, m.tbl)
			if err != nil {
				t.Skipf("rig: %v", err)
			}
			rg.dev.bare = bare
			for _, ev := range []string{"CONFIGURE", "START", "STOP", "RESET", "EXIT"} {
				for _, src := range validSrc[ev] {
					for _, devState := range m.states {
						n := enumerate(func(choose func() int) {
							rg.dev.reset(devState, choose)
							c := &commitCase{Mode: m.name, Event: ev, Src: src, Dst: dstOf[ev], Device: devState}
							// as the executor does it: the command object decoded from the core's message, given the task's transitioner,
							// is committed and the response is prepared from what it returned
							cmd := &executorcmd.ExecutorCommand_Transition{
								MesosCommand_Transition: *controlcommands.NewMesosCommand_Transition(envId, nil, src, ev, dstOf[ev], nil),
								Transitioner:            rg.client.Transitioner,
							}
							cmd.Arguments = map[string]string{"k": "v"}
							report, err := cmd.Commit()
							respLost := ""
							if resp := cmd.PrepareResponse(err, report, "verif-task"); resp.CurrentState != report || (err == nil) != (resp.Err() == nil) {
								respLost = fmt.Sprintf("the transition returned state %q error %v, the response prepared for the core carries state %q error %v", report, err, resp.CurrentState, resp.Err())
							}
							// the response the executor would send carries exactly this state and error
							c.Steps = append([]step(nil), rg.dev.steps...)
							c.Report, c.DevEnd = report, rg.dev.state
							if err != nil {
								c.Err = err.Error()
							}
							for _, s := range c.Steps {
								c.Script = append(c.Script, s.Event+":"+s.Outcome)
							}
							v, sig := judge(m.name, c, rg.dev, report, err)
							if v == "" {
								v, sig = judgeRollback(m.name, c, rg.dev)
							}
							if v == "" && respLost != "" {
								v, sig = respLost, "response-differs-from-result"
							}
							if rg.dev.bare {
								classes["bare-grpc-status"]++
							}
							total++
							classes["mode:"+m.name]++
							classes["event:"+ev]++
							if rg.dev.nonDone > 0 {
								nontrivial++
								classes["has-fault"]++
							}
							wrongSrc := (m.name == "fairmq" && fmqOf[src] != devState) || (m.name == "direct" && src != devState)
							if wrongSrc {
								classes["wrong-source"]++
							}
							if len(samples) < 3 && rg.dev.nonDone >= 2 {
								samples = append(samples, c)
							}
							if v != "" {
								c.Verdict = v
								key := m.name + "|" + ev + "|" + sig
								res := vh.Result{Violation: fmt.Sprintf("[%s %s %s->%s, device in %s, steps %v] %s", m.name, ev, src, dstOf[ev], devState, c.Script, v), Signature: sig, NonTrivial: true, History: c.Steps}
								if !seenViolations[key] { // one replay file per root cause signature
									seenViolations[key] = true
									if msg := vh.LogCase(prop, t.Name()+"/"+strings.ReplaceAll(key, "|", "_"), c, res); msg != "" {
										t.Errorf("%s", msg)
									}
								}
							}
						})
						_ = n
					}
				}
			}
			rg.close()
		}
	}
	vh.Summary(t.Name(), total, nontrivial, classes, samples, true)
}

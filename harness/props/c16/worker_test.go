package c16

// The last hop of a transition's answer: executable.ControllableTask.Transition, which wraps the transitioner's result into the
// response sent to the core. The executor stand-in of C17 (cmd/execworker: the real executable.NewTask against a simulated
// OCC device in FairMQ or direct mode) is driven through transitions that succeed, are refused, fail by a gRPC error ("state
// mismatch": the core asks from a source state the device is not in) or find the device gone; every response must carry either
// no state or a state of the O2 vocabulary that is the image of the device's real state - never a raw FairMQ name.

import (
	"bufio"
	"bytes"
	"encoding/json"
	"fmt"
	"os"
	"os/exec"
	"path/filepath"
	"strconv"
	"strings"
	"sync/atomic"
	"syscall"
	"testing"
	"time"

	"pgregory.net/rapid"

	"verifharness/vh"
)

type WStep struct {
	Event, Src, Dst string
}

type WCase struct {
	FairMQ   bool
	Steps    []WStep           // transitions asked one after the other (the walk goes on after a failure: the point is each single answer)
	Outcomes map[string]string // device step -> refuse | error | crash (default ok)
}

var wSeq int64

var o2States = map[string]bool{"": true, "STANDBY": true, "CONFIGURED": true, "RUNNING": true, "ERROR": true, "DONE": true, "UNKNOWN": true}


func runWorker(c WCase) (res vh.Result) {
	n := atomic.AddInt64(&wSeq, 1)
	dir := filepath.Join("/dev/shm", fmt.Sprintf("verif-c16w-%d-%d", os.Getpid(), n))
	os.RemoveAll(dir)
	if err := os.MkdirAll(dir, 0o755); err != nil {
		res.Inconclusive = err.Error()
		return
	}
	defer os.RemoveAll(dir)
	trans := map[string]interface{}{}
	for k, v := range c.Outcomes {
		trans[k] = map[string]interface{}{"Outcome": v}
	}
	steps := []map[string]interface{}{{"Op": "await", "DelayMs": 8000}}
	for _, s := range c.Steps {
		steps = append(steps, map[string]interface{}{"Op": "transition", "Event": s.Event, "Src": s.Src, "Dst": s.Dst, "DelayMs": 30})
	}
	steps = append(steps, map[string]interface{}{"Op": "kill", "DelayMs": 100})
	plan := map[string]interface{}{
		"Kind": "direct", "Dir": dir, "OpTimeoutMs": 20000, "SettleMs": 200,
		"Child":  map[string]interface{}{"ExitAfterMs": -1},
		"Device": map[string]interface{}{"InitialState": "STANDBY", "ReportPid": true, "ExitOnDoneMs": 0, "FairMQ": c.FairMQ, "Transitions": trans},
		"Steps":  steps, "KeepWalking": true,
	}
	b, _ := json.Marshal(plan)
	pf := filepath.Join(dir, "plan.json")
	os.WriteFile(pf, b, 0o644)
	cmd := exec.Command(filepath.Join(os.Getenv("VERIF_BUILD"), "execworker"), pf)
	var out, errb bytes.Buffer
	cmd.Stdout, cmd.Stderr = &out, &errb
	cmd.SysProcAttr = &syscall.SysProcAttr{Setpgid: true}
	if err := cmd.Start(); err != nil {
		res.Inconclusive = "worker: " + err.Error()
		return
	}
	done := make(chan error, 1)
	go func() { done <- cmd.Wait() }()
	select {
	case <-done:
	case <-time.After(120 * time.Second):
		syscall.Kill(-cmd.Process.Pid, syscall.SIGKILL)
		<-done
		res.Inconclusive = "worker did not finish"
	}
	if pb, e := os.ReadFile(filepath.Join(dir, "pids")); e == nil {
		for _, l := range strings.Split(string(pb), "\n") {
			if f := strings.Fields(l); len(f) == 2 {
				if pid, _ := strconv.Atoi(f[1]); pid > 1 {
					if f[0] == "wrapper" {
						syscall.Kill(-pid, syscall.SIGKILL)
					}
					syscall.Kill(pid, syscall.SIGKILL)
				}
			}
		}
	}
	if res.Inconclusive != "" {
		return
	}
	hist := []string{}
	res.History = &hist
	res.NonTrivial = len(c.Outcomes) > 0
	res.Classes = []string{fmt.Sprintf("fairmq:%v", c.FairMQ)}
	sc := bufio.NewScanner(&out)
	sc.Buffer(make([]byte, 1<<20), 1<<20)
	lastDevice := ""
	for sc.Scan() {
		var o struct {
			Kind, State, Detail string
			Step                int
		}
		if json.Unmarshal(sc.Bytes(), &o) != nil {
			continue
		}
		if o.Kind == "note" && strings.HasPrefix(o.Detail, "device:") {
			hist = append(hist, o.Detail)
			lastDevice = o.Detail
		}
		if o.Kind != "op-end" || o.Step < 1 || o.Step > len(c.Steps) {
			continue
		}
		s := c.Steps[o.Step-1]
		hist = append(hist, fmt.Sprintf("%s (%s->%s) answered state=%q %s", s.Event, s.Src, s.Dst, o.State, o.Detail))
		if o.State == "UNMARSHAL_ERROR" {
			continue
		}
		if !o2States[o.State] {
			res.Violation = fmt.Sprintf("the answer to %s (asked from %s) carries state %q, which is not a state of the O2 vocabulary (last device note: %s)", s.Event, s.Src, o.State, lastDevice)
			res.Signature = "raw-device-state-in-response"
			return
		}
		if strings.Contains(o.Detail, "err=") && !strings.Contains(o.Detail, "err=<nil>") && !strings.Contains(o.Detail, `err=""`) {
			res.Classes = append(res.Classes, "failed-transition")
		}
	}
	return
}

func genWorker(t *rapid.T) WCase {
	c := WCase{FairMQ: rapid.IntRange(0, 3).Draw(t, "fairmq") != 0, Outcomes: map[string]string{}}
	o2 := []string{"STANDBY", "CONFIGURED", "RUNNING"}
	evs := [][3]string{{"CONFIGURE", "STANDBY", "CONFIGURED"}, {"START", "CONFIGURED", "RUNNING"}, {"STOP", "RUNNING", "CONFIGURED"}, {"RESET", "CONFIGURED", "STANDBY"}}
	n := rapid.IntRange(1, 5).Draw(t, "steps")
	for i := 0; i < n; i++ {
		e := evs[rapid.IntRange(0, 3).Draw(t, "event")]
		src := e[1]
		if rapid.IntRange(0, 2).Draw(t, "wrongSource") == 0 {
			src = rapid.SampledFrom(o2).Draw(t, "src") // the core's idea of the state may be wrong: the plugin answers "state mismatch"
		}
		c.Steps = append(c.Steps, WStep{e[0], src, e[2]})
	}
	devSteps := []string{"CONFIGURE", "START", "STOP", "RESET"}
	if c.FairMQ {
		devSteps = []string{"INIT DEVICE", "COMPLETE INIT", "BIND", "CONNECT", "INIT TASK", "RUN", "STOP", "RESET TASK", "RESET DEVICE"}
	}
	for _, d := range devSteps {
		if rapid.IntRange(0, 4).Draw(t, "fault") == 0 {
			c.Outcomes[d] = rapid.SampledFrom([]string{"refuse", "error"}).Draw(t, "outcome")
		}
	}
	return c
}

func TestWorkerResponses(t *testing.T) { vh.Check(t, prop, genWorker, runWorker) }

func TestWorkerResponsesFixed(t *testing.T) {
	vh.Fixed(t, prop, "worker/fairmq-stop-asked-while-the-device-is-ready", WCase{FairMQ: true, Steps: []WStep{{"CONFIGURE", "STANDBY", "CONFIGURED"}, {"STOP", "RUNNING", "CONFIGURED"}}}, runWorker)
	vh.Fixed(t, prop, "worker/fairmq-configure-asked-twice", WCase{FairMQ: true, Steps: []WStep{{"CONFIGURE", "STANDBY", "CONFIGURED"}, {"CONFIGURE", "STANDBY", "CONFIGURED"}, {"RESET", "CONFIGURED", "STANDBY"}}}, runWorker)
	vh.Fixed(t, prop, "worker/fairmq-bind-refused", WCase{FairMQ: true, Outcomes: map[string]string{"BIND": "refuse"}, Steps: []WStep{{"CONFIGURE", "STANDBY", "CONFIGURED"}, {"START", "CONFIGURED", "RUNNING"}}}, runWorker)
	vh.Fixed(t, prop, "worker/direct-start-asked-from-standby", WCase{Steps: []WStep{{"START", "CONFIGURED", "RUNNING"}, {"CONFIGURE", "STANDBY", "CONFIGURED"}}}, runWorker)
}

package c18

import (
	"fmt"
	"strings"
	"sync"
	"testing"
	"time"

	pb "github.com/AliceO2Group/Control/core/protos"
	"pgregory.net/rapid"

	"verifharness/simworld"
	"verifharness/vh"
)

const prop = "C18"

type Case struct {
	NTasks int
	Action string // restart | reconnect
	Point  string // restart: launching (after ACCEPT, before RUNNING) | deployed | mid-transition | running | teardown
	//               reconnect: configured | running | mid-transition
	Drops           int  // reconnect: how many times the stream is dropped (1-3)
	Envs            int  // number of environments alive (1-2)
	Bare            bool // reconnect: reconciliation answers as the master generates them (no executor id, labels, uuid)
	RefuseFirstKill bool // restart: the master answers the first KILL call for every surviving task with HTTP 503
	// restart: the master is busy - its reconciliation answers come 1.5 s after the call and offers take 3 s - and a new
	// environment is requested from the restarted core at once, so the answers arrive while its deployment is in progress
	CreateDuringReconcile bool
	SlowKillCalls         bool // restart: the master takes 250 ms to answer each KILL call (many survivors: the answers outrun the kills)
}

var hostNames = []string{"hosta", "hostb", "hostc"}

func run(c Case) (res vh.Result) {
	ag, det := simworld.DefaultAgents()
	w, err := simworld.NewWorld(simworld.Options{Agents: ag, Detectors: det, ScratchName: "c18"})
	if err != nil {
		res.Inconclusive = "world: " + err.Error()
		return
	}
	defer w.Close()
	w.Master.ReconcileBare = c.Bare
	steps := []string{}
	defer func() { res.History = map[string]interface{}{"steps": steps, "world_log_tail": w.LogLines(140)} }()
	fail := func(sig, f string, a ...interface{}) vh.Result {
		res.Violation = fmt.Sprintf(f, a...)
		res.Signature = sig
		return res
	}
	res.NonTrivial = true
	res.Classes = []string{"action:" + c.Action, "point:" + c.Point, fmt.Sprintf("bare-answers:%v", c.Bare)}
	if c.RefuseFirstKill {
		res.Classes = append(res.Classes, "first-kill-refused")
	}

	mkwf := func(k int) string {
		wf := fmt.Sprintf("wfr%d", k)
		var sb strings.Builder
		fmt.Fprintf(&sb, "name: %s\ndefaults:\n  deploy_timeout: 6s\nroles:\n", wf)
		for i := 0; i < c.NTasks; i++ {
			cls := fmt.Sprintf("r%dt%d", k, i)
			fmt.Fprintf(&sb, "  - name: t%d\n    constraints:\n      - attribute: machine_id\n        value: %s\n    task:\n      load: %s\n", i, hostNames[(i+k)%3], cls)
			w.WriteTask(cls, simworld.TaskClassYAML(cls, "direct", ""))
		}
		w.WriteWorkflow(wf, sb.String())
		return wf
	}
	var mu sync.Mutex
	var gate *simworld.Gate
	silentLaunch := false
	slowLaunch := false // launched tasks take 2.5 s to report TASK_RUNNING
	w.Master.OnLaunch = func(t *simworld.SimTask) simworld.LaunchPlan {
		mu.Lock()
		defer mu.Unlock()
		if slowLaunch {
			return simworld.LaunchPlan{Delay: 2500 * time.Millisecond}
		}
		return simworld.LaunchPlan{Silent: silentLaunch}
	}
	w.Master.OnCommand = func(t *simworld.SimTask, cmd *simworld.Command) simworld.Reply {
		mu.Lock()
		defer mu.Unlock()
		if gate != nil && (cmd.Event == "START" || cmd.Event == "STOP") {
			return simworld.Reply{Hold: gate}
		}
		return simworld.Reply{}
	}
	slowKill := false
	refuseKills := false
	slowKillCalls := false
	refused := map[string]bool{}
	w.Master.OnKill = func(t *simworld.SimTask) simworld.KillPlan {
		mu.Lock()
		defer mu.Unlock()
		if slowKill {
			return simworld.KillPlan{Delay: 3 * time.Second}
		}
		if slowKillCalls {
			return simworld.KillPlan{CallDelay: 250 * time.Millisecond}
		}
		// (every refusal costs a resubscription with a doubling backoff: 1, 2, 4 s ...; at most three tasks are refused so that the
		// 20 s allowed below stay far from what the backoff alone needs)
		if refuseKills && !refused[t.ID] && len(refused) < 3 {
			refused[t.ID] = true
			return simworld.KillPlan{RefuseHTTP: 503}
		}
		return simworld.KillPlan{}
	}
	fid0 := w.Master.FrameworkID()
	if stored, _ := w.Consul.Get("o2/runtime/aliecs/mesos_fid"); stored != fid0 {
		return fail("fid-not-stored", "the framework id assigned by Mesos (%s) was not stored in the configuration store (found %q)", fid0, stored)
	}

	envIds := []string{}
	create := func(k int) (string, error) {
		e, err := w.NewEnv(mkwf(k), nil, 40*time.Second)
		if err != nil {
			return "", err
		}
		return e.Id, nil
	}

	if c.Action == "restart" {
		// ---------------------------------------------------------------- drive to the crash point
		switch c.Point {
		case "launching":
			mu.Lock()
			silentLaunch = true
			mu.Unlock()
			go w.NewEnv(mkwf(0), nil, 40*time.Second)
			// wait until the tasks were accepted by the master
			deadline := time.Now().Add(10 * time.Second)
			for len(w.Master.Tasks()) < c.NTasks && time.Now().Before(deadline) {
				time.Sleep(5 * time.Millisecond)
			}
			if len(w.Master.Tasks()) < c.NTasks {
				res.Inconclusive = "tasks were not launched"
				return
			}
		default:
			for k := 0; k < c.Envs; k++ {
				id, err := create(k)
				if err != nil {
					res.Inconclusive = "creation failed: " + err.Error()
					return
				}
				envIds = append(envIds, id)
			}
			switch c.Point {
			case "running":
				if _, err := w.Control(envIds[0], pb.ControlEnvironmentRequest_START_ACTIVITY, 30*time.Second); err != nil {
					res.Inconclusive = "START failed"
					return
				}
			case "mid-transition":
				g := simworld.NewGate()
				mu.Lock()
				gate = g
				mu.Unlock()
				go w.Control(envIds[0], pb.ControlEnvironmentRequest_START_ACTIVITY, 30*time.Second)
				if !g.AwaitArrival(1, 10*time.Second) {
					res.Inconclusive = "transition did not reach the executors"
					return
				}
				defer g.Open()
			case "teardown":
				mu.Lock()
				slowKill = true
				mu.Unlock()
				go w.Destroy(envIds[0], true, true, false, 30*time.Second)
				deadline := time.Now().Add(10 * time.Second)
				for time.Now().Before(deadline) {
					n := 0
					for _, cl := range w.Master.Calls() {
						if cl.Type == "KILL" {
							n++
						}
					}
					if n > 0 {
						break
					}
					time.Sleep(5 * time.Millisecond)
				}
			}
		}
		// ---------------------------------------------------------------- crash and restart
		w.KillCore()
		mu.Lock()
		slowKill, silentLaunch = false, false
		refuseKills = c.RefuseFirstKill
		slowKillCalls = c.SlowKillCalls
		mu.Unlock()
		alive := map[string]bool{}
		for _, t := range w.Master.Tasks() {
			if !t.Terminal {
				alive[t.ID] = true
			}
		}
		steps = append(steps, fmt.Sprintf("core killed at %s; %d tasks alive at the master", c.Point, len(alive)))
		mark := len(w.Master.Calls())
		taskMark := len(w.Master.Tasks())
		if c.CreateDuringReconcile {
			w.Master.ReconcileDelay = 1500 * time.Millisecond
			w.Master.OfferDelay = 3 * time.Second
			res.Classes = append(res.Classes, "creation-in-progress-while-reconciling")
		}
		if err := w.StartCore(); err != nil {
			return fail("restart-failed", "the core did not come back: %v", err)
		}
		type created struct {
			id  string
			err error
		}
		var newEnv chan created
		if c.CreateDuringReconcile {
			newEnv = make(chan created, 1)
			go func() {
				e, err := w.NewEnv(mkwf(7), nil, 60*time.Second)
				newEnv <- created{e.GetId(), err}
			}()
		}
		// same framework identity
		var sub *simworld.CallRec
		for _, cl := range w.Master.Calls()[mark:] {
			if cl.Type == "SUBSCRIBE" {
				cl := cl
				sub = &cl
				break
			}
		}
		if sub == nil {
			return fail("no-subscribe", "the restarted core did not subscribe")
		}
		if sub.FID != fid0 {
			return fail("new-framework-identity", "the restarted core subscribed with framework id %q, its previous life was registered as %q", sub.FID, fid0)
		}
		// every task Mesos still reports as alive is killed
		deadline := time.Now().Add(20 * time.Second)
		for {
			missing := []string{}
			for id := range alive {
				if t := w.Master.Task(id); t != nil && t.Terminal {
					continue
				}
				killed := false
				for _, cl := range w.Master.Calls()[mark:] {
					if cl.Type == "KILL" && cl.TaskID == id && cl.HTTP == 0 { // a KILL call the master accepted
						killed = true
					}
				}
				if !killed {
					missing = append(missing, id)
				}
			}
			if len(missing) == 0 {
				break
			}
			if time.Now().After(deadline) {
				st := []string{}
				for _, id := range missing {
					st = append(st, id+"("+w.Master.Task(id).State.String()+")")
				}
				return fail("orphan-survives-restart:"+c.Point, "20 s after the restart %d task(s) of the previous life are alive at the master and were never asked to terminate: %v", len(missing), st)
			}
			time.Sleep(50 * time.Millisecond)
		}
		if newEnv != nil {
			// the environment requested from the new life is the only thing it knows, and none of the old tasks is part of it
			var cr created
			select {
			case cr = <-newEnv:
			case <-time.After(90 * time.Second):
				return fail("request-hangs", "the environment requested right after the restart was not answered within 90 s")
			}
			steps = append(steps, fmt.Sprintf("environment requested right after the restart: id=%s err=%v", cr.id, cr.err))
			if cr.err != nil {
				res.Inconclusive = "the creation requested right after the restart failed: " + cr.err.Error()
				return
			}
			envs, _ := w.Envs()
			if len(envs) != 1 || envs[0].GetId() != cr.id {
				return fail("restarted-core-has-environments", "the restarted core lists %d environments, expected only the one created after the restart", len(envs))
			}
			fresh := map[string]bool{}
			for _, t := range w.Master.Tasks()[taskMark:] {
				fresh[t.ID] = true
			}
			ts, _ := w.TasksAPI()
			for _, t := range ts {
				if !fresh[t.TaskId] {
					return fail("restarted-core-has-tasks", "the restarted core lists task %s, which was not launched in its life", t.TaskId)
				}
			}
			w.Destroy(cr.id, true, true, false, 60*time.Second)
			return
		}
		envs, _ := w.Envs()
		if len(envs) != 0 {
			return fail("restarted-core-has-environments", "the restarted core lists %d environments", len(envs))
		}
		time.Sleep(300 * time.Millisecond)
		ts, _ := w.TasksAPI()
		if len(ts) != 0 {
			return fail("restarted-core-has-tasks", "the restarted core lists %d tasks", len(ts))
		}
		return
	}

	// -------------------------------------------------------------------- reconnection
	for k := 0; k < c.Envs; k++ {
		id, err := create(k)
		if err != nil {
			res.Inconclusive = "creation failed: " + err.Error()
			return
		}
		envIds = append(envIds, id)
	}
	want := "CONFIGURED"
	var parked chan struct{}
	switch c.Point {
	case "running":
		if _, err := w.Control(envIds[0], pb.ControlEnvironmentRequest_START_ACTIVITY, 30*time.Second); err != nil {
			res.Inconclusive = "START failed"
			return
		}
		want = "RUNNING"
	case "mid-transition":
		g := simworld.NewGate()
		mu.Lock()
		gate = g
		mu.Unlock()
		parked = make(chan struct{})
		go func() {
			w.Control(envIds[0], pb.ControlEnvironmentRequest_START_ACTIVITY, 60*time.Second)
			close(parked)
		}()
		if !g.AwaitArrival(1, 10*time.Second) {
			res.Inconclusive = "transition did not reach the executors"
			return
		}
		want = "RUNNING"
		defer g.Open()
	}
	owned := map[string]string{}
	var deploying chan error
	if c.Point == "deploying" {
		// one more environment is being deployed: its tasks were accepted by the master and have not reported TASK_RUNNING yet
		// when the stream is dropped; the reconciliation answers say TASK_STAGING for them
		mu.Lock()
		slowLaunch = true
		mu.Unlock()
		taskMark := len(w.Master.Tasks())
		deploying = make(chan error, 1)
		go func() {
			id, err := create(c.Envs)
			if err == nil {
				mu.Lock()
				envIds = append(envIds, id)
				mu.Unlock()
			}
			deploying <- err
		}()
		deadline := time.Now().Add(10 * time.Second)
		for len(w.Master.Tasks()) < taskMark+c.NTasks && time.Now().Before(deadline) {
			time.Sleep(5 * time.Millisecond)
		}
		if len(w.Master.Tasks()) < taskMark+c.NTasks {
			res.Inconclusive = "the tasks of the environment being deployed were not launched"
			return
		}
		for _, t := range w.Master.Tasks()[taskMark:] {
			owned[t.ID] = "(the environment being deployed)"
		}
		mu.Lock()
		slowLaunch = false
		mu.Unlock()
	}
	for _, id := range envIds {
		ge, err := w.GetEnv(id, false)
		if err != nil {
			res.Inconclusive = "GetEnvironment failed"
			return
		}
		for _, t := range ge.GetEnvironment().Tasks {
			owned[t.TaskId] = id
		}
	}
	for d := 0; d < c.Drops; d++ {
		// drain old subscription notices
		for len(w.Master.Subscribed) > 0 {
			<-w.Master.Subscribed
		}
		mark := len(w.Master.Calls())
		w.Master.DropStream()
		select {
		case <-w.Master.Subscribed:
		case <-time.After(30 * time.Second):
			// a wall-clock budget, not a claim of the property: twice in 565 histories of a thorough run that shared the machine with
			// three other campaigns the core had not resubscribed after 30 s; the same histories replayed alone resubscribe at once
			res.Inconclusive = "the core did not resubscribe within 30 s after the stream was dropped"
			return
		}
		// give the reconciliation answers time to be processed
		time.Sleep(1500 * time.Millisecond)
		sawReconcile := false
		for _, cl := range w.Master.Calls()[mark:] {
			if cl.Type == "RECONCILE" {
				sawReconcile = true
			}
			if cl.Type == "SUBSCRIBE" && cl.FID != fid0 {
				return fail("new-framework-identity", "after a reconnection the core subscribed with framework id %q instead of %q", cl.FID, fid0)
			}
			if cl.Type == "KILL" {
				if env, ok := owned[cl.TaskID]; ok {
					return fail("owned-task-killed-after-reconnect:"+c.Point, "after reconnection #%d a KILL reached task %s, which is owned by live environment %s", d+1, cl.TaskID, env)
				}
			}
		}
		steps = append(steps, fmt.Sprintf("drop %d: resubscribed, reconcile seen=%v", d+1, sawReconcile))
	}
	if parked != nil {
		mu.Lock()
		g := gate
		gate = nil
		mu.Unlock()
		g.Open()
		select {
		case <-parked:
		case <-time.After(120 * time.Second):
			return fail("request-hangs", "the transition parked across the reconnection did not return")
		}
	}
	if deploying != nil {
		select {
		case err := <-deploying:
			steps = append(steps, fmt.Sprintf("the deployment that was in progress across the reconnection ended with err=%v", err))
			if err != nil {
				return fail("deployment-broken-by-reconnect", "the environment that was being deployed when the master connection was dropped could not be created: %v", err)
			}
		case <-time.After(60 * time.Second):
			return fail("request-hangs", "the creation in progress across the reconnection did not return")
		}
	}
	mu.Lock()
	envIdsNow := append([]string(nil), envIds...)
	mu.Unlock()
	for i, id := range envIdsNow {
		ge, err := w.GetEnv(id, false)
		if err != nil {
			return fail("env-vanished", "environment %s vanished after a reconnection: %v", id, err)
		}
		st := ge.GetEnvironment().GetState()
		exp := "CONFIGURED"
		if i == 0 {
			exp = want
		}
		if st != exp {
			return fail("state-changed-after-reconnect:"+c.Point, "environment %s was %s before the master connection was dropped %d time(s) and is %s afterwards", id, exp, c.Drops, st)
		}
		if len(ge.GetEnvironment().Tasks) != c.NTasks {
			return fail("tasks-changed-after-reconnect", "environment %s had %d tasks, has %d after the reconnection", id, c.NTasks, len(ge.GetEnvironment().Tasks))
		}
	}
	// the tasks are still owned: locked in the task list, and the clean-up of unowned tasks (run before every environment
	// creation and by the CleanupTasks request) does not touch them
	if ts, err := w.TasksAPI(); err == nil {
		for _, t := range ts {
			if env, ok := owned[t.TaskId]; ok && !t.Locked {
				return fail("owned-task-unlocked-after-reconnect", "after the reconnection task %s of live environment %s is reported unlocked (unowned)", t.TaskId, env)
			}
		}
	}
	mark := len(w.Master.Calls())
	ctx, cancel := simworld.Ctx(60 * time.Second)
	_, cerr := w.Cli.CleanupTasks(ctx, &pb.CleanupTasksRequest{})
	cancel()
	steps = append(steps, fmt.Sprintf("CleanupTasks after the reconnection: err=%v", cerr))
	time.Sleep(300 * time.Millisecond)
	for _, cl := range w.Master.Calls()[mark:] {
		if cl.Type == "KILL" {
			if env, ok := owned[cl.TaskID]; ok {
				return fail("owned-task-killed-by-cleanup-after-reconnect", "after the reconnection a clean-up of unowned tasks sent KILL to task %s, which is owned by live environment %s", cl.TaskID, env)
			}
		}
	}
	for _, id := range envIds {
		ge, err := w.GetEnv(id, false)
		if err != nil {
			return fail("env-vanished", "environment %s vanished after the clean-up that followed a reconnection: %v", id, err)
		}
		if len(ge.GetEnvironment().Tasks) != c.NTasks {
			return fail("tasks-changed-after-reconnect", "environment %s had %d tasks, has %d after the clean-up that followed the reconnection", id, c.NTasks, len(ge.GetEnvironment().Tasks))
		}
	}
	return
}

func gen(t *rapid.T) Case {
	c := Case{NTasks: rapid.IntRange(1, 3).Draw(t, "ntasks"), Envs: rapid.IntRange(1, 2).Draw(t, "envs")}
	c.Action = rapid.SampledFrom([]string{"restart", "reconnect"}).Draw(t, "action")
	c.Bare = rapid.Bool().Draw(t, "bareReconciliationAnswers")
	if c.Action == "restart" {
		c.RefuseFirstKill = rapid.IntRange(0, 3).Draw(t, "refuseFirstKill") == 0
		c.Point = rapid.SampledFrom([]string{"launching", "deployed", "mid-transition", "running", "teardown"}).Draw(t, "point")
		c.CreateDuringReconcile = !c.RefuseFirstKill && rapid.IntRange(0, 2).Draw(t, "createDuringReconcile") == 0
		if !c.RefuseFirstKill && c.Point != "launching" && rapid.IntRange(0, 5).Draw(t, "manySurvivors") == 0 {
			c.NTasks, c.SlowKillCalls = rapid.IntRange(9, 14).Draw(t, "manyTasks"), true
		}
	} else {
		c.Point = rapid.SampledFrom([]string{"configured", "running", "mid-transition", "deploying"}).Draw(t, "point")
		c.Drops = rapid.IntRange(1, 3).Draw(t, "drops")
		if vh.Open("KF-C18-reconcile-kills-owned") {
			c.Action, c.Point = "restart", "deployed"
		}
	}
	return c
}

func TestCrashPoints(t *testing.T) { vh.Check(t, prop, gen, vh.Confirmed(run)) }

func TestFixed(t *testing.T) {
	for _, p := range []string{"launching", "deployed", "mid-transition", "running", "teardown"} {
		vh.Fixed(t, prop, "restart-"+p, Case{NTasks: 2, Envs: 1, Action: "restart", Point: p}, vh.Confirmed(run))
	}
	if !vh.Open("KF-C18-reconcile-kills-owned") {
		for _, p := range []string{"configured", "running", "mid-transition", "deploying"} {
			vh.Fixed(t, prop, "reconnect-"+p, Case{NTasks: 2, Envs: 2, Action: "reconnect", Point: p, Drops: 2}, vh.Confirmed(run))
		}
		vh.Fixed(t, prop, "reconnect-bare-answers", Case{NTasks: 2, Envs: 2, Action: "reconnect", Point: "configured", Drops: 1, Bare: true}, vh.Confirmed(run))
		vh.Fixed(t, prop, "restart-first-kill-refused", Case{NTasks: 2, Envs: 1, Action: "restart", Point: "deployed", RefuseFirstKill: true}, vh.Confirmed(run))
		vh.Fixed(t, prop, "restart-while-a-new-environment-is-being-deployed", Case{NTasks: 3, Envs: 1, Action: "restart", Point: "running", CreateDuringReconcile: true}, vh.Confirmed(run))
		vh.Fixed(t, prop, "restart-with-24-survivors-and-a-slow-master", Case{NTasks: 12, Envs: 2, Action: "restart", Point: "deployed", SlowKillCalls: true}, vh.Confirmed(run))
		vh.Fixed(t, prop, "restart-bare-answers", Case{NTasks: 2, Envs: 1, Action: "restart", Point: "running", Bare: true}, vh.Confirmed(run))
	}
}

func TestCanaryReconcile(t *testing.T) {
	vh.Canary(t, prop, "KF-C18-reconcile-kills-owned", Case{NTasks: 2, Envs: 1, Action: "reconnect", Point: "configured", Drops: 1}, vh.Confirmed(run))
}

// TestFirstRegistrationRepeated: the framework id assigned at the very first registration (empty configuration store) is stored.
// The write races with nothing the harness can steer, so the first registration is simply repeated on fresh worlds.
func TestFirstRegistrationRepeated(t *testing.T) {
	n := vh.Scale(25, 400)
	bad, first := 0, ""
	for i := 0; i < n; i++ {
		ag, det := simworld.DefaultAgents()
		w, err := simworld.NewWorld(simworld.Options{Agents: ag, Detectors: det, ScratchName: "c18"})
		if err != nil {
			continue
		}
		fid := w.Master.FrameworkID()
		stored := ""
		for dl := time.Now().Add(time.Second); time.Now().Before(dl); time.Sleep(20 * time.Millisecond) {
			if stored, _ = w.Consul.Get("o2/runtime/aliecs/mesos_fid"); stored == fid {
				break
			}
		}
		w.Close()
		if stored != fid {
			bad++
			if first == "" {
				first = fmt.Sprintf("registration %d: the master assigned framework id %q, one second later the configuration store holds %q", i, fid, stored)
			}
		}
	}
	res := vh.Result{NonTrivial: true, Classes: []string{"first-registration-repeated"}}
	if bad > 0 {
		res.Violation = fmt.Sprintf("%d of %d first registrations did not store the framework id; %s", bad, n, first)
		res.Signature = "fid-not-stored"
	}
	vh.Fixed(t, prop, "first-registration-stores-the-framework-id", struct{ N int }{n}, func(struct{ N int }) vh.Result { return res })
}

package c08

import (
	"fmt"
	"sort"
	"strings"
	"sync"
	"testing"
	"time"

	"github.com/AliceO2Group/Control/core/workflow/callable"
	"pgregory.net/rapid"

	"verifharness/hooklib"
	"verifharness/simworld"
	"verifharness/vh"
)

const prop = "C08"

type Case struct {
	NTasks int
	Hooks  []hooklib.Hook
	Walk   []string
}

func world() (*simworld.World, error) {
	return simworld.Shared("default", 15, func() simworld.Options {
		ag, det := simworld.DefaultAgents()
		return simworld.Options{Agents: ag, Detectors: det}
	})
}

// occurrence of a moment in the life of the environment
type occ struct {
	bracket int
	moment  string
	pos     int // global position
}

// timeline lists every moment in documented order for creation + walk (+ forced teardown)
func timeline(walk []string) []occ {
	var out []occ
	state := "STANDBY"
	b := 0
	add := func(ev string) {
		for _, m := range hooklib.Moments(ev, state) {
			if strings.HasPrefix(m, "tasks_") {
				continue
			}
			out = append(out, occ{bracket: b, moment: m, pos: len(out)})
		}
		state, _ = simworld.LegalFrom(ev, state)
		b++
	}
	add("DEPLOY")
	add("CONFIGURE")
	for _, ev := range walk {
		add(ev)
	}
	// forced teardown: leave_<state>, DESTROY and after_DESTROY hooks
	out = append(out, occ{b, "leave_" + state, len(out)}, occ{b, "DESTROY", len(out) + 1}, occ{b, "after_DESTROY", len(out) + 2})
	return out
}

func run(c Case) (res vh.Result) {
	w, err := world()
	if err != nil {
		res.Inconclusive = "world: " + err.Error()
		return
	}
	tl := timeline(c.Walk)
	nBr := tl[len(tl)-1].bracket // index of the teardown

	// groups of hooks that share a trigger expression must be started together: hold each probe until all of its group arrived
	type gkey struct {
		occurrence int
		expr       string
	}
	groupSize := map[string]int{}
	for _, h := range c.Hooks {
		if h.Kind == "call" {
			groupSize[h.TriggerExpr()]++
		}
	}
	var mu sync.Mutex
	arrived := map[gkey]int{}
	gates := map[gkey]*simworld.Gate{}
	notTogether := ""
	goBefore := strings.Count(w.Goroutines(), "callable.(*Call).Start.func1")
	cb := hooklib.Callbacks{
		OnProbe: func(h int, o int, p simworld.ProbeRec) simworld.ProbeReply {
			hk := c.Hooks[h]
			k := gkey{o, hk.TriggerExpr()}
			mu.Lock()
			if gates[k] == nil {
				gates[k] = simworld.NewGate()
			}
			g := gates[k]
			arrived[k]++
			full := arrived[k] >= groupSize[hk.TriggerExpr()]
			mu.Unlock()
			if full {
				g.Open()
			} else {
				done := make(chan struct{})
				go func() { g.Wait(); close(done) }()
				select {
				case <-done:
				case <-time.After(6 * time.Second):
					mu.Lock()
					if notTogether == "" {
						notTogether = fmt.Sprintf("hook %d (%s) had started and its %d peers of the same weight had not been started 6 s later: hooks of equal weight are not started together", h, hk.TriggerExpr(), groupSize[hk.TriggerExpr()]-1)
					}
					mu.Unlock()
					g.Open()
				}
			}
			// a call that is awaited later than it is triggered takes a while: the state machine must wait for it at the await point
			if hk.AwaitExpr() != hk.TriggerExpr() {
				time.Sleep(120 * time.Millisecond)
			}
			return simworld.ProbeReply{}
		},
	}
	tr := hooklib.Run(w, hooklib.Spec{NTasks: c.NTasks, Hooks: c.Hooks, Walk: c.Walk, Destroy: true}, cb)
	defer func() {
		res.History = map[string]interface{}{"brackets": tr.Brackets, "probes": compact(tr), "results": tr.Results, "world_log_tail": w.LogLines(60)}
	}()
	fail := func(sig, f string, a ...interface{}) vh.Result {
		res.Violation = fmt.Sprintf(f, a...)
		res.Signature = sig
		simworld.Discard()
		return res
	}
	if tr.Crash != "" {
		return fail("core-crash", "the core died: %s", tr.Crash)
	}
	if !tr.Created {
		if strings.Contains(tr.CreateErr, "deployment timed out") {
			res.Inconclusive = "deployment did not finish (machine under load): " + tr.CreateErr
			simworld.Discard()
			return
		}
		return fail("creation-failed", "all hooks succeed, yet creation failed: %s", tr.CreateErr)
	}
	if len(tr.Viol) > 0 {
		return fail("bracket-structure", "%s", strings.Join(tr.Viol, " | "))
	}
	for i, r := range tr.Results {
		if r.Err != "" {
			return fail("step-failed", "all hooks succeed, yet step %d (%s) failed: %s", i, r.Op, r.Err)
		}
	}
	mu.Lock()
	nt := notTogether
	mu.Unlock()
	if nt != "" {
		return fail("not-started-together", "%s", nt)
	}
	// ---- classes
	weightsPerMoment := map[string]map[int]bool{}
	deferred := false
	for _, h := range c.Hooks {
		if weightsPerMoment[h.Trigger] == nil {
			weightsPerMoment[h.Trigger] = map[int]bool{}
		}
		weightsPerMoment[h.Trigger][h.TWeight] = true
		if h.AwaitExpr() != h.TriggerExpr() {
			deferred = true
		}
	}
	twoWeights := false
	for _, ws := range weightsPerMoment {
		if len(ws) >= 2 {
			twoWeights = true
		}
	}
	res.NonTrivial = twoWeights || deferred
	if twoWeights {
		res.Classes = append(res.Classes, "two-weights-in-a-moment")
	}
	if deferred {
		res.Classes = append(res.Classes, "deferred-await")
	}
	for _, n := range groupSize {
		if n >= 2 {
			res.Classes = append(res.Classes, "equal-weight-group")
			break
		}
	}

	// ---- (5) moments of every transition in the documented order
	state := "STANDBY"
	evs := append([]string{"DEPLOY", "CONFIGURE"}, c.Walk...)
	if len(tr.Brackets) != len(evs)+1 {
		return fail("bracket-count", "%d transitions were requested (+teardown), %d were observed", len(evs), len(tr.Brackets))
	}
	for bi, ev := range evs {
		want := hooklib.Moments(ev, state)
		if got := tr.Brackets[bi].Steps; strings.Join(got, ",") != strings.Join(want, ",") {
			return fail("moment-order", "transition %s from %s went through the moments %v, documented order is %v", ev, state, got, want)
		}
		state, _ = simworld.LegalFrom(ev, state)
	}

	// ---- (1) every call started exactly when (and only when) its trigger moment was reached
	starts := map[int][]hooklib.ProbeEvent{}
	ends := map[int][]hooklib.ProbeEvent{}
	occOf := map[int][]occ{} // k-th start of hook h belongs to the k-th occurrence of its trigger moment
	for _, p := range tr.Probes {
		if p.Phase == "start" {
			starts[p.Hook] = append(starts[p.Hook], p)
		} else {
			ends[p.Hook] = append(ends[p.Hook], p)
		}
	}
	for hi, h := range c.Hooks {
		if h.Kind != "call" {
			continue
		}
		var want []occ
		for _, o := range tl {
			if o.moment == h.Trigger {
				want = append(want, o)
			}
		}
		got := starts[hi]
		occOf[hi] = want
		if len(got) != len(want) {
			return fail("start-count", "hook %d (trigger %s) should have started %d time(s) (once per time its moment was reached), it started %d time(s)", hi, h.TriggerExpr(), len(want), len(got))
		}
		for k, o := range want {
			g := got[k]
			if o.bracket == nBr {
				if g.Seq < tr.Brackets[nBr].Open {
					return fail("wrong-moment", "hook %d (trigger %s) belongs to the teardown but started at #%d, before the teardown began", hi, h.TriggerExpr(), g.Seq)
				}
				continue
			}
			if h.AwaitExpr() == h.TriggerExpr() {
				if g.Bracket != o.bracket || g.Step != o.moment {
					return fail("wrong-moment", "hook %d (trigger %s) started during transition #%d moment %q, expected transition #%d moment %q", hi, h.TriggerExpr(), g.Bracket, g.Step, o.bracket, o.moment)
				}
				continue
			}
			// a call awaited later runs asynchronously: its report may arrive after the moment has finished, but never before the moment began
			var win *simworld.StepWin
			for i := range tr.Brackets[o.bracket].Windows {
				if tr.Brackets[o.bracket].Windows[i].Name == o.moment {
					win = &tr.Brackets[o.bracket].Windows[i]
				}
			}
			if win == nil || g.Seq < win.Start {
				return fail("started-before-trigger", "hook %d (trigger %s) started at #%d, before its trigger moment of transition #%d began", hi, h.TriggerExpr(), g.Seq, o.bracket)
			}
		}
		if len(ends[hi]) != len(got) {
			return fail("not-collected", "hook %d started %d time(s) and returned %d time(s)", hi, len(got), len(ends[hi]))
		}
	}

	// ---- (2) ascending weights inside a moment; a weight starts only after the previous one completed
	type st struct {
		hook        int
		start, end  int64
		weight      int
		awaitsThere bool
	}
	byWindow := map[string][]st{}
	for hi, h := range c.Hooks {
		for k, s := range starts[hi] {
			key := fmt.Sprintf("%d/%s", occOf[hi][k].bracket, h.Trigger)
			e := int64(1 << 62)
			if k < len(ends[hi]) {
				e = ends[hi][k].Seq
			}
			byWindow[key] = append(byWindow[key], st{hi, s.Seq, e, h.TWeight, h.AwaitExpr() == h.TriggerExpr()})
		}
	}
	for key, l := range byWindow {
		sort.Slice(l, func(i, j int) bool { return l[i].start < l[j].start })
		// (reports of calls that are awaited later arrive asynchronously; their order of arrival is not the order of starting,
		// so ascending order is checked through completion: a call awaited at its own weight has returned before a higher weight starts)
		for _, a := range l {
			for _, b := range l {
				if a.weight < b.weight && a.awaitsThere && b.start < a.end {
					return fail("next-weight-before-completion", "in %s hook %d (weight %+d) started at #%d before hook %d of the lower weight %+d had returned (#%d)", key, b.hook, b.weight, b.start, a.hook, a.weight, a.end)
				}
			}
		}
	}

	// ---- (4) the state machine does not move past a call's await point until that call has returned
	for hi, h := range c.Hooks {
		if h.Kind != "call" || h.AwaitExpr() == h.TriggerExpr() {
			continue
		}
		for k, s := range starts[hi] {
			if k >= len(ends[hi]) {
				continue
			}
			end := ends[hi][k].Seq
			_ = s
			tpos := occOf[hi][k].pos
			// where is the await point reached first after the trigger?
			var ap *occ
			for i := range tl {
				o := tl[i]
				if o.moment != h.Await {
					continue
				}
				if o.pos > tpos || (o.pos == tpos && h.AWeight > h.TWeight) {
					ap = &tl[i]
					break
				}
			}
			if ap == nil || ap.bracket >= len(tr.Brackets) {
				continue // never reached: cancelled at teardown (checked below through the goroutine dump)
			}
			// anything that belongs after the await point must come after the call returned
			for hj, g := range c.Hooks {
				for k2, s2 := range starts[hj] {
					p2 := occOf[hj][k2].pos
					after := p2 > ap.pos || (p2 == ap.pos && g.TWeight > h.AWeight)
					if after && s2.Seq < end {
						return fail("moved-past-await", "hook %d (trigger %s, await %s) returned at #%d, but hook %d (%s), which lies after that await point, had already started at #%d", hi, h.TriggerExpr(), h.AwaitExpr(), end, hj, g.TriggerExpr(), s2.Seq)
					}
				}
			}
			if ap.bracket < nBr {
				for _, sw := range tr.Brackets[ap.bracket].Windows {
					if sw.Name == ap.moment && sw.End != 0 && sw.End < end {
						return fail("moved-past-await", "hook %d (await %s) returned at #%d, but the moment %s of transition #%d had already finished at #%d", hi, h.AwaitExpr(), end, ap.moment, ap.bracket, sw.End)
					}
				}
				if strings.HasPrefix(ap.moment, "before_") || strings.HasPrefix(ap.moment, "leave_") {
					for _, cm := range tr.Commands {
						if cm.Bracket == ap.bracket && cm.Name == "MesosCommand_Transition" && cm.Seq < end {
							return fail("moved-past-await", "hook %d (await %s) returned at #%d, but the task commands of transition #%d were already sent at #%d", hi, h.AwaitExpr(), end, ap.bracket, cm.Seq)
						}
					}
				}
			}
		}
	}
	// ---- cancelled at teardown: nothing of the started calls is left in the core
	if d := strings.Count(w.Goroutines(), "callable.(*Call).Start.func1") - goBefore; d > 0 {
		time.Sleep(400 * time.Millisecond)
		if d = strings.Count(w.Goroutines(), "callable.(*Call).Start.func1") - goBefore; d > 0 {
			return fail("call-goroutine-leak", "%d started calls were neither collected nor cancelled at teardown", d)
		}
	}
	return
}

func compact(tr *hooklib.Trace) []string {
	var out []string
	for _, p := range tr.Probes {
		out = append(out, fmt.Sprintf("#%d h%d %s br=%d step=%s", p.Seq, p.Hook, p.Phase, p.Bracket, p.Step))
	}
	return out
}

// ---------------------------------------------------------------------------------------------

func genWalk(t *rapid.T) []string {
	n := rapid.IntRange(1, 5).Draw(t, "walk")
	state := "CONFIGURED"
	var out []string
	for i := 0; i < n; i++ {
		var op string
		switch state {
		case "CONFIGURED":
			op = rapid.SampledFrom([]string{"START_ACTIVITY", "START_ACTIVITY", "RESET"}).Draw(t, "op")
		case "RUNNING":
			op = "STOP_ACTIVITY"
		case "DEPLOYED":
			op = "CONFIGURE"
		}
		out = append(out, op)
		state, _ = simworld.LegalFrom(op, state)
	}
	return out
}

func gen(t *rapid.T) Case {
	c := Case{NTasks: rapid.IntRange(0, 2).Draw(t, "ntasks"), Walk: genWalk(t)}
	tl := timeline(c.Walk)
	n := rapid.IntRange(1, 8).Draw(t, "hooks")
	for i := 0; i < n; i++ {
		// DESTROY / after_DESTROY hooks are undocumented teardown specials (run sequentially, merged by weight): only the
		// documented moments, including the leave_<state> of the teardown, are drawn
		o := tl[rapid.IntRange(0, len(tl)-3).Draw(t, "moment")]
		h := hooklib.Hook{Kind: "call", Trigger: o.moment, TWeight: rapid.IntRange(-3, 3).Draw(t, "weight"), Critical: rapid.Bool().Draw(t, "critical")}
		teardown := o.bracket == tl[len(tl)-1].bracket
		switch rapid.IntRange(0, 5).Draw(t, "awaitKind") {
		case 0, 1: // await = trigger
		case 2: // later weight, same moment
			if h.TWeight < 3 && !teardown {
				h.Await, h.AWeight = h.Trigger, rapid.IntRange(h.TWeight+1, 3).Draw(t, "aweight")
			}
		case 3, 4: // a later moment (same or later transition)
			if !teardown && o.pos+1 < len(tl)-3 {
				a := tl[rapid.IntRange(o.pos+1, len(tl)-4).Draw(t, "amoment")]
				if a.moment != h.Trigger {
					h.Await, h.AWeight = a.moment, rapid.IntRange(-3, 3).Draw(t, "aweight2")
				}
			}
		case 5: // an await point that is never reached
			if !teardown {
				h.Await, h.AWeight = "after_GO_ERROR", 0
			}
		}
		c.Hooks = append(c.Hooks, h)
	}
	return c
}

func TestHooks(t *testing.T) {
	defer simworld.Discard()
	vh.Check(t, prop, gen, vh.Confirmed(run))
}

func call(trigger string, w int, await string, aw int) hooklib.Hook {
	return hooklib.Hook{Kind: "call", Trigger: trigger, TWeight: w, Await: await, AWeight: aw}
}

func TestFixed(t *testing.T) {
	defer simworld.Discard()
	vh.Fixed(t, prop, "weights-and-groups", Case{NTasks: 1, Walk: []string{"START_ACTIVITY", "STOP_ACTIVITY"}, Hooks: []hooklib.Hook{
		call("before_START_ACTIVITY", -2, "", 0), call("before_START_ACTIVITY", -2, "", 0), call("before_START_ACTIVITY", 0, "", 0), call("before_START_ACTIVITY", 3, "", 0),
		call("leave_RUNNING", 1, "", 0), call("leave_RUNNING", -1, "", 0), call("enter_CONFIGURED", 0, "", 0), call("after_STOP_ACTIVITY", 2, "", 0), call("after_STOP_ACTIVITY", 2, "", 0)}}, vh.Confirmed(run))
	vh.Fixed(t, prop, "deferred-awaits", Case{NTasks: 1, Walk: []string{"START_ACTIVITY", "STOP_ACTIVITY", "RESET"}, Hooks: []hooklib.Hook{
		call("before_START_ACTIVITY", -1, "before_START_ACTIVITY", 2), call("before_START_ACTIVITY", 0, "leave_CONFIGURED", -1), call("after_START_ACTIVITY", 0, "before_STOP_ACTIVITY", 0),
		call("leave_CONFIGURED", 0, "after_GO_ERROR", 0), call("before_CONFIGURE", 0, "after_CONFIGURE", -1), call("before_CONFIGURE", 1, "after_CONFIGURE", 0), call("enter_RUNNING", 0, "after_RESET", 1)}}, vh.Confirmed(run))
	vh.Fixed(t, prop, "teardown-hooks", Case{NTasks: 1, Walk: []string{"START_ACTIVITY"}, Hooks: []hooklib.Hook{
		call("leave_RUNNING", 0, "", 0), call("DESTROY", -1, "", 0), call("DESTROY", 1, "", 0), call("after_DESTROY", 0, "", 0), call("before_DEPLOY", 0, "", 0), call("after_DEPLOY", -3, "", 0)}}, vh.Confirmed(run))
}

// ---------------------------------------------------------------------------------------------
// trigger expressions: name +/- weight

type ExprCase struct {
	Name   string
	Weight int
	Form   int // 0: name+w / name-w ; 1: bare name (weight 0)
}

func runExpr(c ExprCase) (res vh.Result) {
	expr := fmt.Sprintf("%s%+d", c.Name, c.Weight)
	wantW := c.Weight
	if c.Form == 1 {
		expr, wantW = c.Name, 0
	}
	n, w := callable.ParseTriggerExpression(expr)
	res.NonTrivial = c.Weight != 0
	if n != c.Name || int(w) != wantW {
		res.Violation = fmt.Sprintf("trigger expression %q parsed to (%q, %d), want (%q, %d)", expr, n, w, c.Name, wantW)
		res.Signature = "trigger-expression"
	}
	return
}

func TestTriggerExpressions(t *testing.T) {
	moments := []string{"before_DEPLOY", "after_CONFIGURE", "leave_RUNNING", "enter_CONFIGURED", "before_START_ACTIVITY", "after_STOP_ACTIVITY", "DESTROY", "after_DESTROY", "before_GO_ERROR"}
	vh.Check(t, prop, func(t *rapid.T) ExprCase {
		return ExprCase{Name: rapid.SampledFrom(moments).Draw(t, "name"), Weight: rapid.IntRange(-1000, 1000).Draw(t, "w"), Form: rapid.IntRange(0, 4).Draw(t, "form") / 4}
	}, runExpr)
}

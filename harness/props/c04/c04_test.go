package c04

import (
	"encoding/json"
	"fmt"
	"os"
	"path/filepath"
	"sort"
	"strings"
	"sync"
	"sync/atomic"
	"testing"
	"time"

	pb "github.com/AliceO2Group/Control/core/protos"
	"pgregory.net/rapid"

	"verifharness/simworld"
	"verifharness/vh"
)

const prop = "C04"

type Op struct {
	Kind      string // create | control | destroy | cleanup
	Hosts     int    // create: bitmask over hosta,hostb,hostc (1..7)
	Env       int    // control/destroy: index into the live environments (modulo)
	Ctl       string // control: START_ACTIVITY STOP_ACTIVITY RESET CONFIGURE
	Force     bool
	KeepTasks bool
	Listed    int // cleanup: 0 = all, otherwise bitmask selecting task ids from the current task list (owned ones included)
	ListHost  int // cleanup: 1..3 = list exactly the tasks on that host (overrides Listed)
}

type Case struct {
	Reuse        bool   // core started with --reuseUnlockedTasks
	KillDelayMs  int    // the simulated master reports TASK_KILLED this late after a KILL call
	KillCallMs   int    // the KILL call itself is answered this late (keeps a kill operation, and its lock, in flight)
	ReplyDelayMs int    // simulated executors answer commands this late (keeps transitions in flight)
	Batches      [][]Op // operations of one batch are issued by concurrent callers
}

var hostNames = []string{"hosta", "hostb", "hostc"}
var detOf = map[string]string{"hosta": "ITS", "hostb": "TPC", "hostc": "TOF"}
var caseSeq int64

var ctlOps = map[string]pb.ControlEnvironmentRequest_Optype{
	"CONFIGURE": pb.ControlEnvironmentRequest_CONFIGURE, "START_ACTIVITY": pb.ControlEnvironmentRequest_START_ACTIVITY,
	"STOP_ACTIVITY": pb.ControlEnvironmentRequest_STOP_ACTIVITY, "RESET": pb.ControlEnvironmentRequest_RESET,
}

func world(reuse bool) (*simworld.World, error) {
	key := "default"
	if reuse {
		key = "reuse"
	}
	return simworld.Shared(key, 12, func() simworld.Options {
		ag, det := simworld.DefaultAgents()
		o := simworld.Options{Agents: ag, Detectors: det}
		if reuse {
			o.CoreFlags = []string{"--reuseUnlockedTasks"}
		}
		return o
	})
}

type snapshot struct {
	owner    map[string]string   // task id -> env id ("" = unowned)
	envTasks map[string][]string // env id -> task ids
	envState map[string]string
	envRun   map[string]uint32
	envDets  map[string][]string
	taskHost map[string]string
}

func take(w *simworld.World) (*snapshot, string) {
	s := &snapshot{owner: map[string]string{}, envTasks: map[string][]string{}, envState: map[string]string{}, envRun: map[string]uint32{}, envDets: map[string][]string{}, taskHost: map[string]string{}}
	envs, err := w.Envs()
	if err != nil {
		return nil, "GetEnvironments: " + err.Error()
	}
	for _, e := range envs {
		ge, err := w.GetEnv(e.Id, false)
		if err != nil {
			continue // destroyed meanwhile
		}
		ei := ge.GetEnvironment()
		s.envState[ei.Id] = ei.State
		s.envRun[ei.Id] = ei.CurrentRunNumber
		s.envDets[ei.Id] = append([]string(nil), ei.IncludedDetectors...)
		for _, t := range ei.Tasks {
			if o, dup := s.owner[t.TaskId]; dup && o != ei.Id {
				return s, fmt.Sprintf("task %s is listed by two environments: %s and %s", t.TaskId, o, ei.Id)
			}
			s.owner[t.TaskId] = ei.Id
			s.envTasks[ei.Id] = append(s.envTasks[ei.Id], t.TaskId)
		}
	}
	tasks, err := w.TasksAPI()
	if err != nil {
		return nil, "GetTasks: " + err.Error()
	}
	for _, t := range tasks {
		s.taskHost[t.TaskId] = t.GetDeploymentInfo().GetHostname()
		ctx, cancel := simworld.Ctx(10 * time.Second)
		gt, err := w.Cli.GetTask(ctx, &pb.GetTaskRequest{TaskId: t.TaskId})
		cancel()
		if err != nil {
			continue
		}
		envId := gt.GetTask().GetEnvId()
		listed := s.owner[t.TaskId]
		if t.Locked && envId != "" && listed != envId {
			if _, live := s.envState[envId]; live {
				return s, fmt.Sprintf("task %s is locked by environment %s (GetTask) but that environment's task list does not contain it (listed owner %q)", t.TaskId, envId, listed)
			}
		}
		if !t.Locked && listed != "" {
			return s, fmt.Sprintf("task %s is listed by environment %s but GetTasks reports it unlocked", t.TaskId, listed)
		}
		if _, ok := s.owner[t.TaskId]; !ok {
			s.owner[t.TaskId] = ""
		}
	}
	// detectors pairwise disjoint and equal to GetActiveDetectors
	seen := map[string]string{}
	for env, ds := range s.envDets {
		if st := s.envState[env]; st == "DONE" {
			continue
		}
		for _, d := range ds {
			if o, dup := seen[d]; dup {
				return s, fmt.Sprintf("detector %s is part of two active environments: %s and %s", d, o, env)
			}
			seen[d] = env
		}
	}
	ctx, cancel := simworld.Ctx(10 * time.Second)
	ad, err := w.Cli.GetActiveDetectors(ctx, &pb.Empty{})
	cancel()
	if err == nil {
		got := append([]string(nil), ad.Detectors...)
		want := []string{}
		for d := range seen {
			want = append(want, d)
		}
		sort.Strings(got)
		sort.Strings(want)
		if strings.Join(got, ",") != strings.Join(want, ",") {
			return s, fmt.Sprintf("GetActiveDetectors reports %v, the live environments include %v", got, want)
		}
	}
	return s, ""
}

func run(c Case) (res vh.Result) {
	w, err := world(c.Reuse)
	if err != nil {
		res.Inconclusive = "world: " + err.Error()
		return
	}
	n := atomic.AddInt64(&caseSeq, 1)
	cls := fmt.Sprintf("o%dx%d", os.Getpid(), n)
	w.WriteTask(cls, simworld.TaskClassYAML(cls, "direct", ""))
	steps := []string{}
	defer func() { res.History = map[string]interface{}{"steps": steps, "world_log_tail": w.LogLines(120)} }()
	fail := func(sig, f string, a ...interface{}) vh.Result {
		res.Violation = fmt.Sprintf(f, a...)
		res.Signature = sig
		simworld.Discard()
		return res
	}
	var mu sync.Mutex
	w.Master.OnCommand = func(t *simworld.SimTask, cmd *simworld.Command) simworld.Reply {
		return simworld.Reply{Delay: time.Duration(c.ReplyDelayMs) * time.Millisecond}
	}
	w.Master.OnKill = func(t *simworld.SimTask) simworld.KillPlan {
		return simworld.KillPlan{Delay: time.Duration(c.KillDelayMs) * time.Millisecond, CallDelay: time.Duration(c.KillCallMs) * time.Millisecond}
	}
	live := []string{} // env ids in creation order
	wfN := 0
	multi, conflict, cleanupLive, overlapped := false, false, false, false

	// doOp executes one operation; it returns the environment acting ("" for cleanup / failed create) and a violation
	doOp := func(oi int, op Op, snap *snapshot, solo bool) (actor string, killedReported []string, v string, sig string) {
		switch op.Kind {
		case "create":
			mask := op.Hosts%7 + 1
			mu.Lock()
			wfN++
			wf := fmt.Sprintf("wf%dx%dn%d", os.Getpid(), n, wfN)
			mu.Unlock()
			var sb strings.Builder
			hl := []string{}
			for h := 0; h < 3; h++ {
				if mask&(1<<h) != 0 {
					hl = append(hl, `"`+hostNames[h]+`"`)
				}
			}
			// like the production workflows, the list of hosts is a variable; the core derives the detectors from it
			fmt.Fprintf(&sb, "name: %s\ndefaults:\n  deploy_timeout: 6s\n  hosts: '[%s]'\nroles:\n", wf, strings.Join(hl, ","))
			needs := []string{}
			for h := 0; h < 3; h++ {
				if mask&(1<<h) != 0 {
					fmt.Fprintf(&sb, "  - name: t%d\n    constraints:\n      - attribute: machine_id\n        value: %s\n    task:\n      load: %s\n", h, hostNames[h], cls)
					needs = append(needs, detOf[hostNames[h]])
				}
			}
			w.WriteWorkflow(wf, sb.String())
			busy := ""
			for env, ds := range snap.envDets {
				for _, d := range ds {
					for _, nd := range needs {
						if d == nd {
							busy = env
						}
					}
				}
			}
			env, err := w.NewEnv(wf, nil, 40*time.Second)
			mu.Lock()
			steps = append(steps, fmt.Sprintf("op %d create %s on %v -> state=%s err=%v (detector holder: %q)", oi, wf, needs, env.GetState(), err, busy))
			mu.Unlock()
			if busy != "" {
				mu.Lock()
				conflict = true
				mu.Unlock()
				if err == nil && solo {
					return env.GetId(), nil, fmt.Sprintf("environment %s was created although it needs a detector held by environment %s", env.GetId(), busy), "detector-conflict-accepted"
				}
				if err != nil {
					return "", nil, "", ""
				}
				// concurrent batch: the holder may have been destroyed meanwhile; the disjointness invariant after the batch decides
			}
			if err == nil {
				mu.Lock()
				live = append(live, env.Id)
				mu.Unlock()
			}
			return env.GetId(), nil, "", ""
		case "control":
			id := live[op.Env%len(live)]
			rep, err := w.Control(id, ctlOps[op.Ctl], 90*time.Second)
			mu.Lock()
			steps = append(steps, fmt.Sprintf("op %d control %s %s -> %s err=%v", oi, id, op.Ctl, rep.GetState(), err))
			mu.Unlock()
			return id, nil, "", ""
		case "destroy":
			id := live[op.Env%len(live)]
			_, err := w.Destroy(id, op.Force, true, op.KeepTasks, 90*time.Second)
			mu.Lock()
			steps = append(steps, fmt.Sprintf("op %d destroy %s force=%v keep=%v -> err=%v", oi, id, op.Force, op.KeepTasks, err))
			mu.Unlock()
			return id, nil, "", ""
		case "cleanup":
			req := &pb.CleanupTasksRequest{}
			if op.ListHost != 0 {
				for id, h := range snap.taskHost {
					if h == hostNames[(op.ListHost-1)%3] {
						req.TaskIds = append(req.TaskIds, id)
					}
				}
				sort.Strings(req.TaskIds)
				if len(req.TaskIds) == 0 {
					req.TaskIds = []string{"no-such-task"}
				}
			} else if op.Listed != 0 {
				ids := []string{}
				for id := range snap.owner {
					ids = append(ids, id)
				}
				sort.Strings(ids)
				for i, id := range ids {
					if op.Listed&(1<<(i%8)) != 0 {
						req.TaskIds = append(req.TaskIds, id)
					}
				}
			}
			if len(snap.envState) > 0 {
				mu.Lock()
				cleanupLive = true
				mu.Unlock()
			}
			ctx, cancel := simworld.Ctx(90 * time.Second)
			rep, err := w.Cli.CleanupTasks(ctx, req)
			cancel()
			mu.Lock()
			steps = append(steps, fmt.Sprintf("op %d cleanup listed=%v -> killed=%d running=%d err=%v", oi, req.TaskIds, len(rep.GetKilledTasks()), len(rep.GetRunningTasks()), err))
			mu.Unlock()
			for _, k := range rep.GetKilledTasks() {
				killedReported = append(killedReported, k.TaskId)
			}
			return "", killedReported, "", ""
		}
		return "", nil, "", ""
	}
	// calls made since mark may only touch tasks that were unowned, or owned by one of the acting environments
	checkCalls2 := func(mark int, snap *snapshot, actors map[string]bool, what string) string {
		for _, cl := range w.Master.Calls()[mark:] {
			if !(cl.Type == "KILL" || (cl.Type == "MESSAGE" && cl.Command != nil)) {
				continue
			}
			owner, known := snap.owner[cl.TaskID]
			if !known || owner == "" {
				continue
			}
			if _, alive := snap.envState[owner]; !alive {
				continue
			}
			if !actors[owner] {
				return fmt.Sprintf("%s: a %s call reached task %s, which is owned by environment %s (acting: %v)", what, cl.Type, cl.TaskID, owner, actors)
			}
		}
		return ""
	}
	oi := 0
	for bi, batch := range c.Batches {
		snap, v := take(w)
		if v != "" {
			return fail("inconsistent-ownership", "before batch %d: %s", bi, v)
		}
		if len(snap.envState) >= 2 {
			multi = true
		}
		alive := []string{}
		for _, id := range live {
			if _, ok := snap.envState[id]; ok {
				alive = append(alive, id)
			}
		}
		live = alive
		liveAtStart := append([]string(nil), live...)
		mark := len(w.Master.Calls())
		type r2 struct {
			op     Op
			actor  string
			killed []string
			v, sig string
		}
		results := make(chan r2, len(batch))
		started := 0
		for k, op := range batch {
			if (op.Kind == "control" || op.Kind == "destroy") && len(liveAtStart) == 0 {
				continue
			}
			started++
			oi++
			go func(k, oi int, op Op) {
				time.Sleep(time.Duration(k*15) * time.Millisecond)
				if op.Kind == "control" || op.Kind == "destroy" {
					// resolve the target against the environments alive when the batch started
					mu.Lock()
					live = liveAtStart
					mu.Unlock()
				}
				a, kl, v, sg := doOp(oi, op, snap, len(batch) == 1)
				results <- r2{op, a, kl, v, sg}
			}(k, oi, op)
		}
		if len(batch) > 1 && started > 1 {
			overlapped = true
		}
		actors := map[string]bool{}
		destroyed := map[string]bool{}
		var killedReported []string
		refusedCreate := false
		for i := 0; i < started; i++ {
			select {
			case r := <-results:
				if r.v != "" {
					return fail(r.sig, "%s", r.v)
				}
				if r.actor != "" {
					actors[r.actor] = true
				}
				if r.op.Kind == "destroy" {
					destroyed[r.actor] = true
				}
				if r.op.Kind == "create" && r.actor == "" {
					refusedCreate = true
				}
				killedReported = append(killedReported, r.killed...)
			case <-time.After(150 * time.Second):
				return fail("request-hangs", "an operation of batch %d did not return", bi)
			}
		}
		if crash := w.CoreCrash(); crash != "" {
			return fail("core-crash", "the core died: %s", crash)
		}
		if v := checkCalls2(mark, snap, actors, fmt.Sprintf("batch %d %v", bi, batch)); v != "" {
			return fail("foreign-task-touched", "%s", v)
		}
		after, v := take(w)
		if v != "" {
			return fail("inconsistent-ownership", "after batch %d: %s", bi, v)
		}
		// no task owned by a live environment after the batch may have been asked to die during it,
		// and cleanup never reports an owned task as killed
		for _, cl := range w.Master.Calls()[mark:] {
			if cl.Type != "KILL" {
				continue
			}
			if owner := after.owner[cl.TaskID]; owner != "" {
				if _, al := after.envState[owner]; al {
					return fail("owned-task-killed", "batch %d %v: task %s received a KILL and is owned by live environment %s afterwards", bi, batch, cl.TaskID, owner)
				}
			}
			if owner := snap.owner[cl.TaskID]; owner != "" && !destroyed[owner] {
				if _, al := after.envState[owner]; al {
					return fail("owned-task-killed", "batch %d %v: task %s of environment %s (alive before and after, not destroyed by this batch) received a KILL", bi, batch, cl.TaskID, owner)
				}
			}
		}
		for _, k := range killedReported {
			if o := snap.owner[k]; o != "" && !destroyed[o] {
				if _, al := after.envState[o]; al {
					return fail("cleanup-touched-owned-task", "CleanupTasks reports task %s as killed although it is owned by live environment %s", k, o)
				}
			}
		}
		if refusedCreate && len(batch) == 1 {
			for env := range snap.envState {
				if after.envState[env] != snap.envState[env] || after.envRun[env] != snap.envRun[env] || strings.Join(after.envTasks[env], ",") != strings.Join(snap.envTasks[env], ",") {
					return fail("holder-disturbed", "a create refused for a busy detector changed environment %s: state %s->%s run %d->%d tasks %v->%v", env, snap.envState[env], after.envState[env], snap.envRun[env], after.envRun[env], snap.envTasks[env], after.envTasks[env])
				}
			}
		}
	}
	if _, v := take(w); v != "" {
		return fail("inconsistent-ownership", "at the end: %s", v)
	}
	res.NonTrivial = multi || conflict || cleanupLive
	for k, b := range map[string]bool{"multi-env": multi, "detector-conflict": conflict, "cleanup-while-live": cleanupLive, "concurrent-batch": overlapped, "reuse": c.Reuse} {
		if b {
			res.Classes = append(res.Classes, k)
		}
	}
	sort.Strings(res.Classes)
	return
}

func genOp(t *rapid.T) Op {
	op := Op{Kind: rapid.SampledFrom([]string{"create", "create", "create", "control", "control", "destroy", "destroy", "cleanup", "cleanup"}).Draw(t, "kind")}
	op.Hosts = rapid.SampledFrom([]int{0, 1, 3, 0, 1, 3, 2, 4, 5, 6}).Draw(t, "hosts")
	op.Env = rapid.IntRange(0, 3).Draw(t, "env")
	op.Ctl = rapid.SampledFrom([]string{"START_ACTIVITY", "STOP_ACTIVITY", "RESET", "CONFIGURE", "START_ACTIVITY"}).Draw(t, "ctl")
	op.Force = rapid.Bool().Draw(t, "force")
	op.KeepTasks = rapid.IntRange(0, 2).Draw(t, "keep") == 0
	if rapid.Bool().Draw(t, "listedCleanup") {
		op.Listed = rapid.IntRange(1, 255).Draw(t, "listed")
		if rapid.Bool().Draw(t, "byHost") {
			op.ListHost = rapid.IntRange(1, 3).Draw(t, "listHost")
		}
	}
	return op
}

func gen(t *rapid.T) Case {
	c := Case{Reuse: rapid.Bool().Draw(t, "reuse"), KillDelayMs: rapid.SampledFrom([]int{0, 0, 60, 250}).Draw(t, "killDelay"), ReplyDelayMs: rapid.SampledFrom([]int{0, 0, 40, 150}).Draw(t, "replyDelay"),
		KillCallMs: rapid.SampledFrom([]int{0, 0, 100, 300}).Draw(t, "killCall")}
	c.Batches = append(c.Batches, []Op{{Kind: "create", Hosts: rapid.SampledFrom([]int{0, 1, 3}).Draw(t, "h0")}})
	n := rapid.IntRange(1, 8).Draw(t, "batches")
	for i := 0; i < n; i++ {
		k := 1
		if rapid.IntRange(0, 2).Draw(t, "concurrent") == 0 {
			k = rapid.IntRange(2, 3).Draw(t, "callers")
		}
		b := []Op{}
		for j := 0; j < k; j++ {
			b = append(b, genOp(t))
		}
		c.Batches = append(c.Batches, b)
	}
	return c
}

func TestOwnership(t *testing.T) {
	defer simworld.Discard()
	vh.Check(t, prop, gen, vh.Confirmed(run))
}

func one(ops ...Op) [][]Op {
	out := [][]Op{}
	for _, o := range ops {
		out = append(out, []Op{o})
	}
	return out
}

func TestFixed(t *testing.T) {
	defer simworld.Discard()
	// two environments on disjoint hosts, a third wants a busy detector; cleanup while both live; destroy one
	vh.Fixed(t, prop, "conflict-and-cleanup", Case{Batches: one(Op{Kind: "create", Hosts: 0}, Op{Kind: "create", Hosts: 1}, Op{Kind: "create", Hosts: 2},
		Op{Kind: "cleanup"}, Op{Kind: "control", Env: 0, Ctl: "START_ACTIVITY"}, Op{Kind: "cleanup", Listed: 255}, Op{Kind: "destroy", Env: 1}, Op{Kind: "control", Env: 0, Ctl: "STOP_ACTIVITY"})}, vh.Confirmed(run))
	// keep tasks, then a new environment on the same host with task reuse, then cleanup
	vh.Fixed(t, prop, "keep-tasks-then-reuse", Case{Reuse: true, Batches: one(Op{Kind: "create", Hosts: 0}, Op{Kind: "create", Hosts: 1}, Op{Kind: "destroy", Env: 0, KeepTasks: true},
		Op{Kind: "create", Hosts: 0}, Op{Kind: "cleanup"}, Op{Kind: "control", Env: 1, Ctl: "START_ACTIVITY"}, Op{Kind: "destroy", Env: 0, Force: true}, Op{Kind: "cleanup", Listed: 255})}, vh.Confirmed(run))
	// slow transitions and slow kills with concurrent callers
	vh.Fixed(t, prop, "destroy-cleanup-create-concurrently", Case{Reuse: true, KillDelayMs: 250, ReplyDelayMs: 40, Batches: [][]Op{
		{{Kind: "create", Hosts: 0}}, {{Kind: "create", Hosts: 1}}, {{Kind: "destroy", Env: 0, KeepTasks: true}}, {{Kind: "create", Hosts: 3}},
		{{Kind: "destroy", Env: 1, Force: true}, {Kind: "cleanup", Listed: 255}, {Kind: "create", Hosts: 0}},
		{{Kind: "control", Env: 0, Ctl: "START_ACTIVITY"}, {Kind: "cleanup"}, {Kind: "destroy", Env: 1}}}}, vh.Confirmed(run))
	// a kill operation is in flight (slow acknowledgement) while a second, listed cleanup and a create that reuses the listed task race
	vh.Fixed(t, prop, "listed-cleanup-races-with-reuse", Case{Reuse: true, KillCallMs: 300, Batches: [][]Op{
		{{Kind: "create", Hosts: 0}}, {{Kind: "create", Hosts: 1}}, {{Kind: "destroy", Env: 0, KeepTasks: true}}, {{Kind: "destroy", Env: 0, KeepTasks: true}},
		{{Kind: "cleanup", Listed: 1, ListHost: 2}, {Kind: "cleanup", Listed: 1, ListHost: 1}, {Kind: "create", Hosts: 0}},
		{{Kind: "cleanup"}}}}, vh.Confirmed(run))
}

// TestSavedDetectorRace replays a saved shrunk case (found at VERIF_SEED=4): two creations needing the same detectors
// overlap with a cleanup whose KILL calls are slow; on the pinned tree both succeeded.
func TestSavedDetectorRace(t *testing.T) {
	defer simworld.Discard()
	dir := os.Getenv("VERIF_HARNESS_DIR")
	if dir == "" {
		dir = "/verif/harness"
	}
	b, err := os.ReadFile(filepath.Join(dir, "props/c04/testdata/detector_race_case.json"))
	if err != nil {
		t.Fatal(err)
	}
	var c Case
	if err := json.Unmarshal(b, &c); err != nil {
		t.Fatal(err)
	}
	for i := 0; i < 3; i++ {
		vh.Fixed(t, prop, fmt.Sprintf("saved-detector-race-%d", i), c, vh.Confirmed(run))
	}
}

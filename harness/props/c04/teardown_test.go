package c04

// An environment whose teardown is in progress (its DESTROY hooks are running) still holds its detectors: a creation
// that needs one of them is refused until the destroy request has returned, and succeeds afterwards.

import (
	"fmt"
	"os"
	"strings"
	"sync/atomic"
	"testing"
	"time"

	"pgregory.net/rapid"

	"verifharness/simworld"
	"verifharness/vh"
)

type TDCase struct {
	HostsA  int    // hosts of the environment being destroyed (bitmask 1..7)
	HostsB  int    // hosts of the environment created meanwhile (made to overlap)
	Trigger string // DESTROY | after_DESTROY : where the held hook sits
	Weight  int
	Force   bool
	From    string // CONFIGURED | RUNNING
}

func hostList(mask int) ([]string, []string) {
	var hs, ds []string
	for h := 0; h < 3; h++ {
		if mask&(1<<h) != 0 {
			hs = append(hs, hostNames[h])
			ds = append(ds, detOf[hostNames[h]])
		}
	}
	return hs, ds
}

func runTD(c TDCase) (res vh.Result) {
	w, err := world(false)
	if err != nil {
		res.Inconclusive = "world: " + err.Error()
		return
	}
	n := atomic.AddInt64(&caseSeq, 1)
	cls := fmt.Sprintf("q%dx%d", os.Getpid(), n)
	w.WriteTask(cls, simworld.TaskClassYAML(cls, "direct", ""))
	ma, mb := c.HostsA%7+1, c.HostsB%7+1
	if ma&mb == 0 {
		mb |= ma & -ma // overlap in at least one host
	}
	write := func(name string, mask int, hook bool) {
		hs, _ := hostList(mask)
		q := []string{}
		for _, h := range hs {
			q = append(q, `"`+h+`"`)
		}
		var sb strings.Builder
		fmt.Fprintf(&sb, "name: %s\ndefaults:\n  deploy_timeout: 6s\n  hosts: '[%s]'\nroles:\n", name, strings.Join(q, ","))
		for i, h := range hs {
			fmt.Fprintf(&sb, "  - name: t%d\n    constraints:\n      - attribute: machine_id\n        value: %s\n    task:\n      load: %s\n", i, h, cls)
		}
		if hook {
			fmt.Fprintf(&sb, "  - name: dh\n    call:\n      func: verifprobe.P(\"hold-destroy\")\n      trigger: %s%+d\n      timeout: 30s\n      critical: false\n", c.Trigger, c.Weight)
		}
		w.WriteWorkflow(name, sb.String())
	}
	wa, wb := fmt.Sprintf("wta%dx%d", os.Getpid(), n), fmt.Sprintf("wtb%dx%d", os.Getpid(), n)
	write(wa, ma, true)
	write(wb, mb, false)
	steps := []string{}
	defer func() { res.History = map[string]interface{}{"steps": steps, "world_log_tail": w.LogLines(100)} }()
	fail := func(sig, f string, a ...interface{}) vh.Result {
		res.Violation = fmt.Sprintf(f, a...)
		res.Signature = sig
		simworld.Discard()
		return res
	}
	g := simworld.NewGate()
	w.OnProbe = func(p simworld.ProbeRec) simworld.ProbeReply {
		if strings.HasPrefix(p.Role, wa+".") && p.Arg == "hold-destroy" && p.Phase == "start" {
			g.Wait()
		}
		return simworld.ProbeReply{}
	}
	defer func() { g.Open(); w.OnProbe = nil }()
	envA, err := w.NewEnv(wa, nil, 40*time.Second)
	if err != nil {
		res.Inconclusive = "creation of A failed: " + err.Error()
		simworld.Discard()
		return
	}
	if c.From == "RUNNING" {
		if _, err := w.Control(envA.Id, ctlOps["START_ACTIVITY"], 30*time.Second); err != nil {
			res.Inconclusive = "START failed"
			simworld.Discard()
			return
		}
	}
	done := make(chan error, 1)
	go func() {
		_, err := w.Destroy(envA.Id, c.Force, true, false, 90*time.Second)
		done <- err
	}()
	if !g.AwaitArrival(1, 15*time.Second) {
		g.Open()
		<-done
		res.Inconclusive = "the DESTROY hook was not reached"
		return
	}
	_, da := hostList(ma)
	steps = append(steps, fmt.Sprintf("environment %s (detectors %v) is being destroyed, its %s%+d hook is held", envA.Id, da, c.Trigger, c.Weight))
	envB, berr := w.NewEnv(wb, nil, 40*time.Second)
	_, db := hostList(mb)
	steps = append(steps, fmt.Sprintf("meanwhile NewEnvironment on detectors %v -> state=%s err=%v", db, envB.GetState(), berr))
	res.NonTrivial = true
	res.Classes = []string{"teardown-in-progress", "detector-conflict", "held-at:" + c.Trigger}
	if berr == nil {
		g.Open()
		<-done
		w.Destroy(envB.GetId(), true, true, false, 30*time.Second)
		return fail("detector-conflict-accepted-during-teardown", "environment %s (detectors %v) was created while environment %s, which holds %v, was still being torn down (its %s hook had not returned, the destroy request had not returned)", envB.GetId(), db, envA.Id, da, c.Trigger)
	}
	g.Open()
	select {
	case err := <-done:
		steps = append(steps, fmt.Sprintf("destroy returned err=%v", err))
	case <-time.After(100 * time.Second):
		return fail("request-hangs", "the destroy request did not return after its hook was released")
	}
	if crash := w.CoreCrash(); crash != "" {
		return fail("core-crash", "the core died: %s", crash)
	}
	// the detectors are free again
	envB2, err := w.NewEnv(wb, nil, 40*time.Second)
	if err != nil {
		return fail("detectors-not-freed", "after the destroy returned, a new environment on detectors %v cannot be created: %v", db, err)
	}
	w.Destroy(envB2.Id, true, true, false, 60*time.Second)
	return
}

func TestTeardownInProgress(t *testing.T) {
	defer simworld.Discard()
	vh.Check(t, prop, func(t *rapid.T) TDCase {
		return TDCase{HostsA: rapid.IntRange(0, 6).Draw(t, "hostsA"), HostsB: rapid.IntRange(0, 6).Draw(t, "hostsB"),
			Trigger: rapid.SampledFrom([]string{"DESTROY", "after_DESTROY"}).Draw(t, "trigger"), Weight: rapid.IntRange(-2, 2).Draw(t, "weight"),
			Force: rapid.Bool().Draw(t, "force"), From: rapid.SampledFrom([]string{"CONFIGURED", "RUNNING"}).Draw(t, "from")}
	}, vh.Confirmed(runTD))
}

func TestTeardownInProgressFixed(t *testing.T) {
	defer simworld.Discard()
	vh.Fixed(t, prop, "create-while-destroy-hook-runs", TDCase{HostsA: 2, HostsB: 0, Trigger: "DESTROY", Weight: 0, From: "CONFIGURED"}, vh.Confirmed(runTD))
	vh.Fixed(t, prop, "create-while-after-destroy-hook-runs-forced", TDCase{HostsA: 0, HostsB: 0, Trigger: "after_DESTROY", Weight: 1, Force: true, From: "RUNNING"}, vh.Confirmed(runTD))
}

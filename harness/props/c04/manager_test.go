package c04

// In-process engine for C04: the real task.Manager (roster, acquireTasks with and without task reuse, releaseTasks,
// KillTasks, Cleanup, status updates, kill acknowledgements) built by overlay hook H5 without the Mesos controller.
// The harness plays Mesos: every KILL call and every deployment verdict can be parked and released in an order drawn
// by rapid, so interleavings that the whole-core engine reaches only by luck (an operation waiting on the kill lock
// while another environment claims a task, two acquisitions overlapping, a kill refused and the task put back) are
// produced on purpose.

import (
	"context"
	"errors"
	"fmt"
	"sort"
	"strings"
	"sync"
	"testing"
	"time"

	"github.com/AliceO2Group/Control/common/event"
	"github.com/AliceO2Group/Control/common/gera"
	"github.com/AliceO2Group/Control/common/utils/uid"
	"github.com/AliceO2Group/Control/core/task"
	"github.com/AliceO2Group/Control/core/task/channel"
	"github.com/AliceO2Group/Control/core/task/constraint"
	"github.com/AliceO2Group/Control/core/task/sm"
	mesos "github.com/mesos/mesos-go/api/v1/lib"
	"github.com/mesos/mesos-go/api/v1/lib/scheduler"
	"github.com/mesos/mesos-go/api/v1/lib/scheduler/calls"
	"github.com/sirupsen/logrus"
	"github.com/spf13/viper"
	"pgregory.net/rapid"

	"verifharness/vh"
)

type MOp struct {
	Kind    string // acquire | teardown | kill | cleanup | foreignrelease | open | status | reconcile
	Hosts   int    // acquire: bitmask over the three hosts (1..7)
	FailBit int    // acquire: descriptor index that the offers round does not deploy (-1: all deployed)
	NonCrit bool   // acquire: that descriptor is non-critical
	Env     int    // teardown / foreignrelease: index into the environments acquired so far
	Victim  int    // foreignrelease: environment whose tasks are named
	Keep    bool   // teardown: keep the tasks (release only)
	Listed  int    // kill: bitmask over all task ids seen so far (creation order)
	Pick    int    // open / status: which parked item
	Refuse  bool   // open: the KILL call is answered with an error
	Async   bool   // do not wait for the operation; it stays in flight while the following operations run
}

type MCase struct {
	Reuse      bool
	HoldKills  bool // KILL calls park until an "open" operation (or the end of the case) answers them
	HoldDeploy bool // deployment verdicts park likewise
	HoldKilled bool // TASK_KILLED after an accepted KILL is delivered by a "status" operation (or at the end) instead of at once
	HoldRun    bool // TASK_RUNNING of launched tasks is delivered by a "status" operation (or at the end): tasks stay INACTIVE meanwhile
	Ops        []MOp
}

type mrole struct {
	env      uid.ID
	name     string
	critical bool
	mu       sync.Mutex
	task     *task.Task
}

func (r *mrole) UpdateStatus(task.Status)  {}
func (r *mrole) UpdateState(sm.State)      {}
func (r *mrole) GetPath() string           { return r.name }
func (r *mrole) GetTaskClass() string      { return "cls" }
func (r *mrole) GetTaskTraits() task.Traits { return task.Traits{Critical: r.critical} }
func (r *mrole) GetEnvironmentId() uid.ID  { return r.env }
func (r *mrole) SetTask(t *task.Task) {
	r.mu.Lock()
	r.task = t
	r.mu.Unlock()
}
func (r *mrole) get() *task.Task {
	r.mu.Lock()
	defer r.mu.Unlock()
	return r.task
}
func (r *mrole) CollectOutboundChannels() []channel.Outbound { return nil }
func (r *mrole) CollectInboundChannels() []channel.Inbound   { return nil }
func (r *mrole) GetDefaults() gera.Map[string, string]       { return gera.MakeMap[string, string]() }
func (r *mrole) GetVars() gera.Map[string, string]           { return gera.MakeMap[string, string]() }
func (r *mrole) GetUserVars() gera.Map[string, string]       { return gera.MakeMap[string, string]() }
func (r *mrole) ConsolidatedVarStack() (map[string]string, error) {
	return map[string]string{}, nil
}
func (r *mrole) SendEvent(event.Event) {}
func (r *mrole) GetName() string       { return r.name }

type menv struct {
	id       uid.ID
	roles    []*mrole
	acquired bool // acquisition returned without error: from then on the environment owns its tasks
	failed   bool
	torn     bool // teardown requested (release started)
	inflight bool
}

type parked struct {
	what   string // "kill:<task id>" | "deploy:<env>/<role>"
	answer chan bool
}

var viperMu sync.Mutex

func init() { logrus.SetLevel(logrus.PanicLevel) }

func runManager(c MCase) (res vh.Result) {
	viperMu.Lock() // the reuse switch is a process-wide setting
	defer viperMu.Unlock()
	viper.Set("reuseUnlockedTasks", c.Reuse)

	var mu sync.Mutex
	steps := []string{}
	logf := func(f string, a ...interface{}) {
		mu.Lock()
		steps = append(steps, fmt.Sprintf(f, a...))
		mu.Unlock()
	}
	violation, vsig := "", ""
	flag := func(sig, f string, a ...interface{}) {
		mu.Lock()
		if violation == "" {
			violation, vsig = fmt.Sprintf(f, a...), sig
		}
		mu.Unlock()
	}
	defer func() {
		res.History = map[string]interface{}{"steps": steps}
		if violation != "" {
			res.Violation, res.Signature = violation, vsig
		}
	}()

	known := map[string]*task.Task{} // task id -> object, in creation order below
	order := []string{}
	envs := []*menv{}
	parkedQ := []*parked{}
	pendingStatus := []string{} // task ids whose KILL was accepted and whose TASK_KILLED has not been delivered
	progress := make(chan struct{}, 1024)
	tick := func() {
		select {
		case progress <- struct{}{}:
		default:
		}
	}
	killsSeen := 0
	classes := map[string]bool{}

	park := func(what string, hold bool) bool {
		if !hold {
			return true
		}
		p := &parked{what: what, answer: make(chan bool, 1)}
		mu.Lock()
		parkedQ = append(parkedQ, p)
		mu.Unlock()
		tick()
		return <-p.answer
	}
	// owner according to the harness model: the environment whose acquisition completed and whose teardown has not begun
	modelOwner := func(t *task.Task) *menv {
		for _, e := range envs {
			if !e.acquired || e.torn {
				continue
			}
			for _, r := range e.roles {
				if r.get() == t {
					return e
				}
			}
		}
		return nil
	}
	failIdx := map[*menv]int{}
	var deliverFn func(string)
	killIssued := map[string]bool{} // a KILL call for this task was accepted by the simulated master
	var m *task.Manager
	cli := calls.CallerFunc(func(_ context.Context, call *scheduler.Call) (mesos.Response, error) {
		if call.GetType() != scheduler.Call_KILL {
			return nil, nil
		}
		id := call.GetKill().GetTaskID().Value
		mu.Lock()
		killsSeen++
		t := known[id]
		var own *menv
		if t != nil {
			own = modelOwner(t)
		}
		mu.Unlock()
		if t != nil && t.IsLocked() {
			flag("kill-of-locked-task", "a KILL call was issued for task %s while it is locked by environment %s", id, t.GetEnvironmentId())
		} else if own != nil {
			flag("kill-of-owned-task", "a KILL call was issued for task %s, which environment %s acquired and has not released", id, own.id)
		}
		logf("   mesos: KILL %s", id)
		if ok := park("kill:"+id, c.HoldKills); !ok {
			return nil, errors.New("simulated: master refused the KILL call")
		}
		mu.Lock()
		killIssued[id] = true
		if c.HoldKilled {
			pendingStatus = append(pendingStatus, "killed:"+id)
		}
		mu.Unlock()
		if !c.HoldKilled {
			deliverFn("killed:" + id)
		}
		tick()
		return nil, nil
	})
	evCh := make(chan event.Event, 4096)
	decide := func(envId uid.ID, d *task.Descriptor) task.VerifDeployDecision {
		r := d.TaskRole.(*mrole)
		host := r.name[strings.LastIndex(r.name, "@")+1:]
		ok := park("deploy:"+r.name, c.HoldDeploy)
		_ = ok
		mu.Lock()
		fail := false
		for _, e := range envs {
			if e.id == envId {
				for i, rr := range e.roles {
					if rr == r && failIdx[e] == i {
						fail = true
					}
				}
			}
		}
		mu.Unlock()
		if fail {
			return task.VerifDeployDecision{Outcome: 1}
		}
		return task.VerifDeployDecision{Host: host, Outcome: 0}
	}
	m = task.VerifNewManager(cli, evCh, decide)
	m.VerifAddClass("cls")
	for _, h := range hostNames {
		m.VerifAddAgent(h, constraint.Attributes{{Name: "machine_id", Type: mesos.TEXT, Text: &mesos.Value_Text{Value: h}}})
	}
	refresh := func() {
		mu.Lock()
		for _, t := range m.GetTasks() {
			if _, ok := known[t.GetTaskId()]; !ok {
				known[t.GetTaskId()] = t
				order = append(order, t.GetTaskId())
			}
		}
		for _, e := range envs {
			for _, r := range e.roles {
				if t := r.get(); t != nil {
					if _, ok := known[t.GetTaskId()]; !ok {
						known[t.GetTaskId()] = t
						order = append(order, t.GetTaskId())
					}
				}
			}
		}
		mu.Unlock()
	}
	// invariants that hold at every instant for environments with a completed acquisition and no teardown
	check := func(when string) {
		inRoster := map[string]bool{}
		for _, id := range m.VerifRosterIds() {
			inRoster[id] = true
		}
		mu.Lock()
		defer mu.Unlock()
		seen := map[*task.Task]*menv{}
		for _, e := range envs {
			if !e.acquired || e.torn {
				continue
			}
			for _, r := range e.roles {
				t := r.get()
				if t == nil {
					continue
				}
				if o, dup := seen[t]; dup && o != e {
					if violation == "" {
						violation, vsig = fmt.Sprintf("%s: task %s is held by two environments, %s and %s", when, t.GetTaskId(), o.id, e.id), "task-in-two-environments"
					}
					return
				}
				seen[t] = e
				if !killIssued[t.GetTaskId()] && !inRoster[t.GetTaskId()] {
					if violation == "" {
						violation, vsig = fmt.Sprintf("%s: task %s, acquired by environment %s and not released, is no longer in the roster although no KILL was issued for it", when, t.GetTaskId(), e.id), "owned-task-dropped-from-roster"
					}
					return
				}
				if got := t.GetEnvironmentId(); got != e.id {
					if violation == "" {
						violation, vsig = fmt.Sprintf("%s: environment %s acquired task %s and did not release it, but the task now reports environment %q (locked=%v)", when, e.id, t.GetTaskId(), got, t.IsLocked()), "ownership-lost"
					}
					return
				}
			}
		}
	}

	var wg sync.WaitGroup
	inflight := 0
	done := func() {
		mu.Lock()
		inflight--
		mu.Unlock()
		tick()
		wg.Done()
	}
	// settle: wait until something observable happened (an operation finished, something parked) or a short quiet period
	settle := func(d time.Duration) {
		select {
		case <-progress:
		case <-time.After(d):
		}
		for {
			select {
			case <-progress:
			case <-time.After(2 * time.Millisecond):
				return
			}
		}
	}
	start := func(async bool, f func()) {
		mu.Lock()
		inflight++
		mu.Unlock()
		wg.Add(1)
		fin := make(chan struct{})
		go func() { defer close(fin); defer done(); f() }()
		if async {
			classes["async-op"] = true
			settle(8 * time.Millisecond)
			return
		}
		// a synchronous operation may still park (held KILL / deployment verdict) or wait for a lock held by a parked
		// operation; then it stays in flight
		mu.Lock()
		np0 := len(parkedQ)
		mu.Unlock()
		quiet := time.After(15 * time.Millisecond)
		for {
			select {
			case <-fin:
				return
			case <-progress:
				mu.Lock()
				np := len(parkedQ)
				mu.Unlock()
				if np > np0 {
					return
				}
			case <-quiet:
				return
			}
		}
	}
	deliver := func(what string) { // handleMessage runs every status update in a goroutine of its own
		go func() {
			st := mesos.TASK_KILLED
			id := strings.TrimPrefix(what, "killed:")
			if strings.HasPrefix(what, "run:") {
				st, id = mesos.TASK_RUNNING, strings.TrimPrefix(what, "run:")
			}
			m.VerifUpdateStatus(&mesos.TaskStatus{TaskID: mesos.TaskID{Value: id}, State: &st})
			tick()
		}()
	}
	deliverFn = deliver
	running := func(id string) {
		if c.HoldRun {
			mu.Lock()
			pendingStatus = append(pendingStatus, "run:"+id)
			mu.Unlock()
			return
		}
		st := mesos.TASK_RUNNING
		m.VerifUpdateStatus(&mesos.TaskStatus{TaskID: mesos.TaskID{Value: id}, State: &st})
	}

	for oi, op := range c.Ops {
		if violation != "" {
			break
		}
		switch op.Kind {
		case "acquire":
			mask := op.Hosts%7 + 1
			e := &menv{id: uid.New()}
			ds := task.Descriptors{}
			for h := 0; h < 3; h++ {
				if mask&(1<<h) == 0 {
					continue
				}
				r := &mrole{env: e.id, name: fmt.Sprintf("env%d.t%d@%s", len(envs), h, hostNames[h]), critical: true}
				e.roles = append(e.roles, r)
				ds = append(ds, &task.Descriptor{TaskRole: r, TaskClassName: "cls", RoleConstraints: constraint.Constraints{{Attribute: "machine_id", Value: hostNames[h]}}})
			}
			mu.Lock()
			envs = append(envs, e)
			if op.FailBit >= 0 {
				fi := op.FailBit % len(e.roles)
				failIdx[e] = fi
				e.roles[fi].critical = !op.NonCrit
				classes["deploy-fault"] = true
			} else {
				failIdx[e] = -1
			}
			mu.Unlock()
			logf("op %d acquire env%d %s hosts=%03b fail=%d async=%v", oi, len(envs)-1, e.id, mask, failIdx[e], op.Async)
			start(op.Async, func() {
				err := m.VerifAcquire(e.id, ds)
				mu.Lock()
				if err == nil {
					e.acquired = true
				} else {
					e.failed = true
				}
				mu.Unlock()
				logf("   acquire %s -> err=%v", e.id, err)
				// the executors report the launched tasks as running
				for _, r := range e.roles {
					if t := r.get(); t != nil && err == nil && t.VerifStatus() != "ACTIVE" {
						running(t.GetTaskId())
					}
				}
				if err != nil {
					for _, t := range m.GetTasks() {
						if !t.IsLocked() && t.VerifStatus() != "ACTIVE" {
							running(t.GetTaskId())
						}
					}
				}
			})
		case "teardown":
			cands := []*menv{}
			for _, e := range envs {
				if e.acquired && !e.torn {
					cands = append(cands, e)
				}
			}
			if len(cands) == 0 {
				continue
			}
			e := cands[op.Env%len(cands)]
			ts := task.Tasks{}
			ids := []string{}
			for _, r := range e.roles {
				if t := r.get(); t != nil {
					ts = append(ts, t)
					ids = append(ids, t.GetTaskId())
				}
			}
			mu.Lock()
			e.torn = true
			mu.Unlock()
			logf("op %d teardown %s keep=%v async=%v tasks=%v", oi, e.id, op.Keep, op.Async, ids)
			start(op.Async, func() {
				_ = m.VerifRelease(e.id, ts)
				if !op.Keep {
					killed, _, err := m.KillTasks(ids)
					logf("   teardown %s: killed=%v err=%v", e.id, killed.GetTaskIds(), err)
				}
			})
		case "kill":
			mu.Lock()
			ids := []string{}
			for i, id := range order {
				if op.Listed&(1<<(i%10)) != 0 {
					ids = append(ids, id)
				}
			}
			mu.Unlock()
			if len(ids) == 0 {
				continue
			}
			classes["listed-kill"] = true
			logf("op %d KillTasks %v async=%v", oi, ids, op.Async)
			start(op.Async, func() {
				killed, _, err := m.KillTasks(ids)
				logf("   KillTasks %v -> killed=%v err=%v", ids, killed.GetTaskIds(), err)
				for _, k := range killed {
					mu.Lock()
					own := modelOwner(k)
					mu.Unlock()
					if own != nil {
						flag("owned-task-reported-killed", "KillTasks(%v) reports task %s as killed; environment %s acquired it and has not released it", ids, k.GetTaskId(), own.id)
					}
				}
			})
		case "cleanup":
			classes["cleanup"] = true
			logf("op %d Cleanup async=%v", oi, op.Async)
			start(op.Async, func() {
				killed, _, err := m.Cleanup()
				logf("   Cleanup -> killed=%v err=%v", killed.GetTaskIds(), err)
				for _, k := range killed {
					mu.Lock()
					own := modelOwner(k)
					mu.Unlock()
					if own != nil {
						flag("owned-task-reported-killed", "Cleanup reports task %s as killed; environment %s acquired it and has not released it", k.GetTaskId(), own.id)
					}
				}
			})
		case "reconcile":
			// the master answers a reconciliation request (after a re-subscription) for the listed tasks: one status update each, with
			// the state the master has for the task and the reason RECONCILIATION. A task the manager knows must be left alone.
			mu.Lock()
			ids := []string{}
			for i, id := range order {
				if op.Listed&(1<<(i%10)) != 0 {
					ids = append(ids, id)
				}
			}
			mu.Unlock()
			if len(ids) == 0 {
				continue
			}
			classes["reconciliation-answers"] = true
			for _, id := range ids {
				mu.Lock()
				t := known[id]
				mu.Unlock()
				st := mesos.TASK_RUNNING
				if t != nil && t.VerifStatus() != "ACTIVE" {
					st = mesos.TASK_STAGING
					classes["reconciliation-answer-for-a-task-not-yet-running"] = true
				}
				r := mesos.REASON_RECONCILIATION
				logf("op %d reconciliation answer for %s: %s", oi, id, st)
				msg := task.NewTaskStatusMessage(mesos.TaskStatus{TaskID: mesos.TaskID{Value: id}, State: &st, Reason: &r})
				// (a task the manager no longer knows gets a KILL, which may park like any other KILL call)
				start(true, func() { _ = m.VerifHandle(msg) })
			}
		case "foreignrelease":
			var a, b *menv
			cands := []*menv{}
			for _, e := range envs {
				if e.acquired && !e.torn {
					cands = append(cands, e)
				}
			}
			if len(cands) < 2 {
				continue
			}
			a = cands[op.Env%len(cands)]
			b = cands[op.Victim%len(cands)]
			if a == b {
				b = cands[(op.Victim+1)%len(cands)]
			}
			ts := task.Tasks{}
			for _, r := range b.roles {
				if t := r.get(); t != nil {
					ts = append(ts, t)
				}
			}
			classes["foreign-release"] = true
			logf("op %d environment %s releases the tasks of %s: %v", oi, a.id, b.id, ts.GetTaskIds())
			start(false, func() { _ = m.VerifRelease(a.id, ts) })
		case "open":
			mu.Lock()
			if len(parkedQ) == 0 {
				mu.Unlock()
				continue
			}
			i := op.Pick % len(parkedQ)
			p := parkedQ[i]
			parkedQ = append(parkedQ[:i], parkedQ[i+1:]...)
			mu.Unlock()
			refuse := op.Refuse && strings.HasPrefix(p.what, "kill:")
			if refuse {
				classes["kill-refused"] = true
			}
			logf("op %d answer %s refuse=%v", oi, p.what, refuse)
			p.answer <- !refuse
			settle(8 * time.Millisecond)
		case "status":
			mu.Lock()
			if len(pendingStatus) == 0 {
				mu.Unlock()
				continue
			}
			i := op.Pick % len(pendingStatus)
			id := pendingStatus[i]
			pendingStatus = append(pendingStatus[:i], pendingStatus[i+1:]...)
			mu.Unlock()
			logf("op %d status %s", oi, id)
			deliver(id)
			settle(5 * time.Millisecond)
		}
		refresh()
		mu.Lock()
		if inflight > 1 {
			classes["overlap"] = true
		}
		mu.Unlock()
		check(fmt.Sprintf("after op %d", oi))
	}
	// drain: answer everything that is parked, deliver every status, until all operations returned
	fin := make(chan struct{})
	go func() { wg.Wait(); close(fin) }()
	deadline := time.After(20 * time.Second)
drain:
	for {
		mu.Lock()
		ps := parkedQ
		parkedQ = nil
		sts := pendingStatus
		pendingStatus = nil
		mu.Unlock()
		for _, p := range ps {
			p.answer <- true
		}
		for _, id := range sts {
			deliver(id)
		}
		select {
		case <-fin:
			break drain
		case <-deadline:
			mu.Lock()
			n := inflight
			mu.Unlock()
			if violation == "" {
				res.Inconclusive = fmt.Sprintf("%d operations did not return within 20 s after everything parked was answered", n)
			}
			return
		case <-progress:
		case <-time.After(5 * time.Millisecond):
		}
	}
	refresh()
	check("at the end")
	// at quiescence: a locked task is locked by an environment that holds it
	if violation == "" {
		mu.Lock()
		for _, id := range order {
			t := known[id]
			if !t.IsLocked() {
				continue
			}
			holder := false
			for _, e := range envs {
				for _, r := range e.roles {
					if r.get() == t && e.id == t.GetEnvironmentId() && !e.torn {
						holder = true
					}
				}
			}
			if !holder {
				violation, vsig = fmt.Sprintf("at the end task %s is locked by environment %s, which does not hold it (released or never acquired)", id, t.GetEnvironmentId()), "phantom-owner"
				break
			}
		}
		mu.Unlock()
	}
	nAcq := 0
	for _, e := range envs {
		if e.acquired {
			nAcq++
		}
	}
	if c.Reuse {
		classes["reuse"] = true
	}
	if c.HoldKills {
		classes["kills-held"] = true
	}
	if c.HoldDeploy {
		classes["deploys-held"] = true
	}
	if c.HoldRun {
		classes["running-held"] = true
	}
	if c.HoldKilled {
		classes["killed-held"] = true
	}
	if nAcq >= 2 {
		classes["multi-env"] = true
	}
	res.NonTrivial = nAcq >= 2 && (classes["overlap"] || classes["cleanup"] || classes["listed-kill"] || classes["foreign-release"])
	for k := range classes {
		res.Classes = append(res.Classes, k)
	}
	sort.Strings(res.Classes)
	_ = killsSeen
	return
}

func genMOp(t *rapid.T) MOp {
	op := MOp{Kind: rapid.SampledFrom([]string{"acquire", "acquire", "acquire", "teardown", "teardown", "kill", "cleanup", "cleanup", "foreignrelease", "open", "open", "open", "status", "status", "reconcile"}).Draw(t, "kind")}
	op.Hosts = rapid.IntRange(0, 6).Draw(t, "hosts")
	op.FailBit = -1
	if rapid.IntRange(0, 5).Draw(t, "deployFault") == 0 {
		op.FailBit = rapid.IntRange(0, 2).Draw(t, "failBit")
		op.NonCrit = true
	}
	op.Env = rapid.IntRange(0, 3).Draw(t, "env")
	op.Victim = rapid.IntRange(0, 3).Draw(t, "victim")
	op.Keep = rapid.IntRange(0, 2).Draw(t, "keep") != 0
	op.Listed = rapid.IntRange(1, 1023).Draw(t, "listed")
	op.Pick = rapid.IntRange(0, 5).Draw(t, "pick")
	op.Refuse = rapid.IntRange(0, 3).Draw(t, "refuse") == 0
	op.Async = rapid.IntRange(0, 2).Draw(t, "async") == 0
	return op
}

func genManager(t *rapid.T) MCase {
	c := MCase{Reuse: rapid.IntRange(0, 3).Draw(t, "reuse") != 0, HoldKills: rapid.IntRange(0, 2).Draw(t, "holdKills") != 0, HoldDeploy: rapid.IntRange(0, 2).Draw(t, "holdDeploy") == 0,
		HoldRun: rapid.IntRange(0, 2).Draw(t, "holdRun") == 0, HoldKilled: rapid.Bool().Draw(t, "holdKilled")}
	n := rapid.IntRange(3, 16).Draw(t, "n")
	c.Ops = append(c.Ops, MOp{Kind: "acquire", Hosts: rapid.IntRange(0, 6).Draw(t, "h0"), FailBit: -1})
	for i := 0; i < n; i++ {
		c.Ops = append(c.Ops, genMOp(t))
	}
	// a critical descriptor that is not deployed costs the three compiled-in retries (3 s): at most one per case, in 1 case of 10
	if rapid.IntRange(0, 9).Draw(t, "criticalDeployFault") == 0 {
		k := rapid.IntRange(1, len(c.Ops)-1).Draw(t, "which")
		if c.Ops[k].Kind == "acquire" {
			c.Ops[k].NonCrit = false
			if c.Ops[k].FailBit < 0 {
				c.Ops[k].FailBit = 0
			}
		}
	}
	return c
}

func TestManagerOwnership(t *testing.T) {
	vh.Check(t, prop, genManager, runManager)
}

func TestManagerFixed(t *testing.T) {
	// two acquisitions overlap while an unlocked task is claimable (kept by a torn-down environment): both select it
	vh.Fixed(t, prop, "manager/two-acquisitions-claim-one-kept-task", MCase{Reuse: true, HoldDeploy: true, Ops: []MOp{
		{Kind: "acquire", Hosts: 0, FailBit: -1}, {Kind: "open"}, {Kind: "teardown", Env: 0, Keep: true},
		{Kind: "acquire", Hosts: 2, FailBit: -1, Async: true}, // hosta+hostb: reuses the kept task on hosta, deploys on hostb (parked)
		{Kind: "acquire", Hosts: 4, FailBit: -1, Async: true}, // hosta+hostc: the kept task is still claimable
		{Kind: "open"}, {Kind: "open"}, {Kind: "open"}, {Kind: "cleanup"}}}, runManager)
	// a listed kill waits for the kill lock while another environment claims one of the listed (then unlocked) tasks
	vh.Fixed(t, prop, "manager/listed-kill-waits-while-task-is-claimed", MCase{Reuse: true, HoldKills: true, HoldKilled: true, Ops: []MOp{
		{Kind: "acquire", Hosts: 0, FailBit: -1}, {Kind: "acquire", Hosts: 1, FailBit: -1}, {Kind: "teardown", Env: 0, Keep: true},
		{Kind: "teardown", Env: 0, Async: true},        // env1 (hostb): its KILL parks, the kill lock stays taken
		{Kind: "kill", Listed: 1, Async: true},        // the kept task of env0, unlocked at this moment: waits for the lock
		{Kind: "acquire", Hosts: 0, FailBit: -1},      // a third environment reuses the kept task on hosta
		{Kind: "open"}, {Kind: "status"}, {Kind: "open"}, {Kind: "status"}, {Kind: "cleanup"}}}, runManager)
	// a refused KILL puts the task back; a cleanup and a foreign release in between
	vh.Fixed(t, prop, "manager/refused-kill-and-foreign-release", MCase{HoldKills: true, HoldKilled: true, Ops: []MOp{
		{Kind: "acquire", Hosts: 2, FailBit: -1}, {Kind: "acquire", Hosts: 3, FailBit: -1}, {Kind: "foreignrelease", Env: 0, Victim: 1},
		{Kind: "teardown", Env: 0, Async: true}, {Kind: "open", Refuse: true}, {Kind: "cleanup", Async: true}, {Kind: "open"}, {Kind: "open"}, {Kind: "status"}, {Kind: "status"}}}, runManager)
	// an environment whose launched tasks are not running yet (INACTIVE) while another one is torn down and a cleanup runs
	vh.Fixed(t, prop, "manager/kill-and-cleanup-while-another-environment-starts-up", MCase{HoldRun: true, HoldKilled: true, Ops: []MOp{
		{Kind: "acquire", Hosts: 0, FailBit: -1}, {Kind: "status"}, {Kind: "acquire", Hosts: 5, FailBit: -1},
		{Kind: "teardown", Env: 0}, {Kind: "status"}, {Kind: "cleanup"}, {Kind: "status"}, {Kind: "status"}, {Kind: "kill", Listed: 1023}}}, runManager)
	// an environment is deployed while the KILL call of another one's teardown is pending; the call then fails
	vh.Fixed(t, prop, "manager/deployment-completes-while-a-kill-call-is-pending-which-then-fails", MCase{HoldKills: true, HoldKilled: true, Ops: []MOp{
		{Kind: "acquire", Hosts: 0, FailBit: -1}, {Kind: "teardown", Env: 0, Async: true}, {Kind: "acquire", Hosts: 5, FailBit: -1}, {Kind: "open", Refuse: true}, {Kind: "reconcile", Listed: 1023},
		{Kind: "open"}, {Kind: "open"}, {Kind: "status"}, {Kind: "status"}}}, runManager)
	// reconciliation answers (after a re-subscription) for tasks of live environments, one of which has not reported TASK_RUNNING yet
	vh.Fixed(t, prop, "manager/reconciliation-answers-for-owned-tasks-running-and-starting-up", MCase{HoldRun: true, Ops: []MOp{
		{Kind: "acquire", Hosts: 0, FailBit: -1}, {Kind: "status"}, {Kind: "acquire", Hosts: 5, FailBit: -1}, {Kind: "reconcile", Listed: 1023}, {Kind: "status"}, {Kind: "status"},
		{Kind: "reconcile", Listed: 1023}}}, runManager)
	// a deployment that fails for a critical descriptor leaves its launched tasks unowned; cleanup while another environment is live
	vh.Fixed(t, prop, "manager/failed-deployment-then-cleanup", MCase{Ops: []MOp{
		{Kind: "acquire", Hosts: 0, FailBit: -1}, {Kind: "acquire", Hosts: 5, FailBit: 1}, {Kind: "cleanup"}, {Kind: "kill", Listed: 1023}}}, runManager)
}

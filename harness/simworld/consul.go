// Package simworld simulates the outside world of the AliECS core: a Consul KV store, a Mesos
// master with agents/executors/tasks, a workflow repository, and process control for the core.
package simworld

import (
	"encoding/base64"
	"encoding/json"
	"fmt"
	"io"
	"net"
	"net/http"
	"sort"
	"strconv"
	"strings"
	"sync"
)

type kvEntry struct {
	Value       []byte
	CreateIndex uint64
	ModifyIndex uint64
}

// KVOp describes one KV request as seen by the fake Consul, handed to the Gate before it is applied.
type KVOp struct {
	Seq    int
	Method string
	Key    string
	HasCAS bool
	CAS    uint64
	Body   string
	Query  string
	Local  string // local address the request arrived on (one listener per simulated client, see AddListener)
}

// Verdict of a Gate.
type Verdict int

const (
	Serve        Verdict = iota // apply and answer normally
	DropBefore                  // close the connection without applying
	ApplyThenCut                // apply, then close the connection without answering
	Refuse500                   // answer 500 without applying
	RefuseCAS                   // answer "false" to a CAS PUT without applying
)

// FakeConsul is a minimal in-memory Consul KV HTTP API.
type FakeConsul struct {
	mu      sync.Mutex
	kv      map[string]*kvEntry
	index   uint64
	Addr    string
	seq     int
	log     []KVOp
	outcome map[int]string // per request seq: "true" | "false" | "cut-applied" | "dropped" | "500" | "404" | "value"
	// Gate, if set, is consulted (without the store lock held; it may block) for every request
	// whose key has GatePrefix.
	Gate       func(op KVOp) Verdict
	GatePrefix string
	ln         net.Listener
	srv        *http.Server
}

func NewFakeConsul() *FakeConsul {
	c := &FakeConsul{kv: map[string]*kvEntry{}, index: 10}
	ln, err := Listen()
	if err != nil {
		panic(err)
	}
	c.ln = ln
	c.Addr = ln.Addr().String()
	mux := http.NewServeMux()
	mux.HandleFunc("/v1/kv/", c.handleKV)
	c.srv = &http.Server{Handler: mux}
	go c.srv.Serve(ln)
	return c
}

func (c *FakeConsul) Close() { c.srv.Close() }

// AddListener opens one more listening address for the same store, so that requests of
// different simulated clients can be told apart (KVOp.Local).
func (c *FakeConsul) AddListener() string {
	ln, err := Listen()
	if err != nil {
		panic(err)
	}
	go c.srv.Serve(ln)
	return ln.Addr().String()
}

func (c *FakeConsul) Put(key, val string) {
	c.mu.Lock()
	defer c.mu.Unlock()
	c.putLocked(key, []byte(val))
}

func (c *FakeConsul) putLocked(key string, val []byte) {
	c.index++
	if e, ok := c.kv[key]; ok {
		e.Value = val
		e.ModifyIndex = c.index
	} else {
		c.kv[key] = &kvEntry{Value: val, CreateIndex: c.index, ModifyIndex: c.index}
	}
}

func (c *FakeConsul) Delete(key string) {
	c.mu.Lock()
	defer c.mu.Unlock()
	delete(c.kv, key)
}

func (c *FakeConsul) Get(key string) (string, bool) {
	c.mu.Lock()
	defer c.mu.Unlock()
	e, ok := c.kv[key]
	if !ok {
		return "", false
	}
	return string(e.Value), true
}

// Outcome tells how request seq was answered.
func (c *FakeConsul) Outcome(seq int) string {
	c.mu.Lock()
	defer c.mu.Unlock()
	return c.outcome[seq]
}

func (c *FakeConsul) setOutcome(seq int, o string) {
	if c.outcome == nil {
		c.outcome = map[int]string{}
	}
	c.outcome[seq] = o
}

// Log returns a copy of the request log.
func (c *FakeConsul) Log() []KVOp {
	c.mu.Lock()
	defer c.mu.Unlock()
	return append([]KVOp(nil), c.log...)
}

type kvJSON struct {
	LockIndex   uint64
	Key         string
	Flags       uint64
	Value       string
	CreateIndex uint64
	ModifyIndex uint64
}

func cut(w http.ResponseWriter) {
	if hj, ok := w.(http.Hijacker); ok {
		if conn, _, err := hj.Hijack(); err == nil {
			conn.Close()
		}
	}
}

func (c *FakeConsul) handleKV(w http.ResponseWriter, r *http.Request) {
	// The server side closes every connection after its response: the TIME_WAIT sockets then sit on the listener's
	// port instead of using up one ephemeral port each on the client side (thousands of cases per run would exhaust
	// the ephemeral range and make later bind(:0) calls fail).
	w.Header().Set("Connection", "close")
	key := strings.TrimPrefix(r.URL.Path, "/v1/kv/")
	q := r.URL.Query()
	body, _ := io.ReadAll(r.Body)
	op := KVOp{Method: r.Method, Key: key, Body: string(body), Query: r.URL.RawQuery}
	if la, ok := r.Context().Value(http.LocalAddrContextKey).(net.Addr); ok {
		op.Local = la.String()
	}
	if casS, ok := q["cas"]; ok {
		op.HasCAS = true
		op.CAS, _ = strconv.ParseUint(casS[0], 10, 64)
	}
	c.mu.Lock()
	c.seq++
	op.Seq = c.seq
	c.log = append(c.log, op)
	gate := c.Gate
	gp := c.GatePrefix
	c.mu.Unlock()
	verdict := Serve
	if gate != nil && strings.HasPrefix(key, gp) {
		verdict = gate(op)
	}
	switch verdict {
	case DropBefore:
		c.mu.Lock()
		c.setOutcome(op.Seq, "dropped")
		c.mu.Unlock()
		cut(w)
		return
	case Refuse500:
		c.mu.Lock()
		c.setOutcome(op.Seq, "500")
		c.mu.Unlock()
		w.WriteHeader(500)
		fmt.Fprint(w, "injected failure")
		return
	case RefuseCAS:
		if r.Method == "PUT" {
			c.mu.Lock()
			c.setOutcome(op.Seq, "false")
			c.mu.Unlock()
			fmt.Fprint(w, "false")
			return
		}
	}

	c.mu.Lock()
	defer c.mu.Unlock()
	w.Header().Set("X-Consul-Index", strconv.FormatUint(c.index, 10))
	w.Header().Set("X-Consul-KnownLeader", "true")
	w.Header().Set("X-Consul-LastContact", "0")
	switch r.Method {
	case "GET":
		_, recurse := q["recurse"]
		_, keysOnly := q["keys"]
		if keysOnly {
			sep := q.Get("separator")
			set := map[string]bool{}
			for k := range c.kv {
				if strings.HasPrefix(k, key) {
					if sep != "" {
						rest := k[len(key):]
						if i := strings.Index(rest, sep); i >= 0 {
							k = key + rest[:i+len(sep)]
						}
					}
					set[k] = true
				}
			}
			if len(set) == 0 {
				w.WriteHeader(404)
				return
			}
			out := make([]string, 0, len(set))
			for k := range set {
				out = append(out, k)
			}
			sort.Strings(out)
			json.NewEncoder(w).Encode(out)
			return
		}
		var out []kvJSON
		if recurse {
			for k, e := range c.kv {
				if strings.HasPrefix(k, key) {
					out = append(out, kvJSON{Key: k, Value: base64.StdEncoding.EncodeToString(e.Value), CreateIndex: e.CreateIndex, ModifyIndex: e.ModifyIndex})
				}
			}
			sort.Slice(out, func(i, j int) bool { return out[i].Key < out[j].Key })
		} else if e, ok := c.kv[key]; ok {
			out = append(out, kvJSON{Key: key, Value: base64.StdEncoding.EncodeToString(e.Value), CreateIndex: e.CreateIndex, ModifyIndex: e.ModifyIndex})
		}
		if len(out) == 0 {
			w.WriteHeader(404)
			return
		}
		json.NewEncoder(w).Encode(out)
	case "PUT":
		if op.HasCAS {
			e, exists := c.kv[key]
			if (op.CAS == 0 && exists) || (op.CAS != 0 && (!exists || e.ModifyIndex != op.CAS)) {
				c.setOutcome(op.Seq, "false")
				fmt.Fprint(w, "false")
				return
			}
		}
		c.putLocked(key, body)
		if verdict == ApplyThenCut {
			c.setOutcome(op.Seq, "cut-applied")
			cut(w)
			return
		}
		c.setOutcome(op.Seq, "true")
		fmt.Fprint(w, "true")
	case "DELETE":
		if _, ok := q["recurse"]; ok {
			for k := range c.kv {
				if strings.HasPrefix(k, key) {
					delete(c.kv, k)
				}
			}
		} else {
			delete(c.kv, key)
		}
		fmt.Fprint(w, "true")
	default:
		w.WriteHeader(405)
	}
}

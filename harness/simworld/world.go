package simworld

import (
	"bytes"
	"context"
	"encoding/json"
	"fmt"
	"net"
	"net/http"
	"os"
	"os/exec"
	"path/filepath"
	"strings"
	"sync"
	"sync/atomic"
	"syscall"
	"time"

	pb "github.com/AliceO2Group/Control/core/protos"
	"google.golang.org/grpc"
	"google.golang.org/grpc/credentials/insecure"
)

// Gate parks goroutines (simulated executors, probe calls) until the harness opens it.
type Gate struct {
	mu      sync.Mutex
	open    chan struct{}
	arrived chan struct{}
	n       int
	once    sync.Once
}

func NewGate() *Gate { return &Gate{open: make(chan struct{}), arrived: make(chan struct{}, 1024)} }

// Wait blocks until the gate is opened.
func (g *Gate) Wait() {
	g.mu.Lock()
	g.n++
	g.mu.Unlock()
	select {
	case g.arrived <- struct{}{}:
	default:
	}
	<-g.open
}

// Open releases everybody, now and in future.
func (g *Gate) Open() { g.once.Do(func() { close(g.open) }) }

// Parked reports how many callers have arrived so far.
func (g *Gate) Parked() int {
	g.mu.Lock()
	defer g.mu.Unlock()
	return g.n
}

// AwaitArrival waits until at least n callers have arrived.
func (g *Gate) AwaitArrival(n int, d time.Duration) bool {
	deadline := time.Now().Add(d)
	for time.Now().Before(deadline) {
		if g.Parked() >= n {
			return true
		}
		select {
		case <-g.arrived:
		case <-time.After(5 * time.Millisecond):
		}
	}
	return g.Parked() >= n
}

// ---------------------------------------------------------------------------------------------

// Rec is one entry of the merged, totally ordered world log.
type Rec struct {
	Seq  int64
	T    int64 // ms since world start
	Kind string
	Data interface{}
}

// ProbeRec is a report of the verifprobe plugin.
type ProbeRec struct {
	Seq     int64             `json:"-"`
	CoreSeq int64             `json:"seq"`
	Phase   string            `json:"phase"` // start | end
	Env     string            `json:"env"`
	Role    string            `json:"role"`
	Trigger string            `json:"trigger"`
	Await   string            `json:"await"`
	Arg     string            `json:"arg"`
	Vars    map[string]string `json:"vars"`
}

type ProbeReply struct {
	Fail string            `json:"fail"`
	Set  map[string]string `json:"set,omitempty"` // runtime vars to set on the call's role
}

// EventRec is an event published by the core (forwarded by simcore).
type EventRec struct {
	Seq   int64                  `json:"-"`
	Topic string                 `json:"topic"`
	Type  string                 `json:"type"`
	Ev    map[string]interface{} `json:"ev"`
}

type Options struct {
	Agents      []*Agent
	Detectors   map[string]string // hostname -> detector
	CoreFlags   []string
	Race        bool
	Settings    string            // extra YAML lines for the settings entry
	ConsulKV    map[string]string // extra keys
	ScratchName string
}

type World struct {
	Dir     string
	RepoDir string
	Clock   int64
	T0      time.Time
	Consul  *FakeConsul
	Master  *FakeMaster
	Cli     pb.ControlClient
	conn    *grpc.ClientConn
	core    *exec.Cmd
	coreLog string
	coreN   int
	opts    Options
	hubAddr string
	hubSrv  *http.Server
	ctrl    int
	pprof   int
	exited  chan struct{}

	mu     sync.Mutex
	log    []Rec
	probes []ProbeRec
	events []EventRec
	// OnProbe is consulted for every probe start report (may block: gating). nil = succeed at once.
	OnProbe func(p ProbeRec) ProbeReply
}

func freePort() int {
	l, err := Listen()
	if err != nil {
		panic(err)
	}
	defer l.Close()
	return l.Addr().(*net.TCPAddr).Port
}

var worldSeq int64

// NewWorld builds the simulated world and starts the core.
func NewWorld(opts Options) (*World, error) {
	base := os.Getenv("VERIF_SCRATCH")
	if base == "" {
		base = filepath.Join("/dev/shm", fmt.Sprintf("verif-world-%d", os.Getpid()))
	}
	n := atomic.AddInt64(&worldSeq, 1)
	// the path must not contain '.' or the substring "tasks" (path heuristics of the repository code)
	dir := filepath.Join(base, fmt.Sprintf("w%d%s", n, opts.ScratchName))
	os.RemoveAll(dir)
	w := &World{Dir: dir, RepoDir: filepath.Join(dir, "wfrepo"), T0: time.Now(), opts: opts}
	for _, d := range []string{filepath.Join(w.RepoDir, "workflows"), filepath.Join(w.RepoDir, "tasks"), filepath.Join(dir, "work", "repos")} {
		if err := os.MkdirAll(d, 0o755); err != nil {
			return nil, err
		}
	}
	if out, err := exec.Command("git", "init", "-q", w.RepoDir).CombinedOutput(); err != nil {
		return nil, fmt.Errorf("git init: %v %s", err, out)
	}
	w.Consul = NewFakeConsul()
	settings := "integrationPlugins:\n  - verifprobe\nverifProbeEndpoint: x\n" + opts.Settings
	w.Consul.Put("o2/components/aliecs/ANY/any/settings", settings)
	w.Consul.Put("o2/runtime/aliecs/default_repo", w.RepoDir)
	for _, a := range opts.Agents {
		det := opts.Detectors[a.Hostname]
		if det == "" {
			det = "TST"
		}
		w.Consul.Put("o2/hardware/detectors/"+det+"/flps/"+a.Hostname+"/", "")
	}
	for k, v := range opts.ConsulKV {
		w.Consul.Put(k, v)
	}
	w.Master = NewFakeMaster(opts.Agents, &w.Clock)
	w.Master.Log = func(kind string, seq int64, data interface{}) { w.add(seq, kind, data) }
	// hub
	ln, err := Listen()
	if err != nil {
		return nil, err
	}
	w.hubAddr = ln.Addr().String()
	mux := http.NewServeMux()
	mux.HandleFunc("/probe", w.handleProbe)
	mux.HandleFunc("/event", w.handleEvent)
	w.hubSrv = &http.Server{Handler: mux}
	go w.hubSrv.Serve(ln)
	if err := w.StartCore(); err != nil {
		w.Close()
		return nil, err
	}
	return w, nil
}

func (w *World) tick() int64 { return atomic.AddInt64(&w.Clock, 1) }

func (w *World) add(seq int64, kind string, data interface{}) {
	w.mu.Lock()
	w.log = append(w.log, Rec{Seq: seq, T: time.Since(w.T0).Milliseconds(), Kind: kind, Data: data})
	w.mu.Unlock()
}

// Note adds a harness-side record to the world log.
func (w *World) Note(format string, a ...interface{}) int64 {
	s := w.tick()
	w.add(s, "harness", fmt.Sprintf(format, a...))
	return s
}

// Log returns the world log sorted by sequence number.
func (w *World) Log() []Rec {
	w.mu.Lock()
	out := append([]Rec(nil), w.log...)
	w.mu.Unlock()
	// insertion sort by Seq (nearly sorted)
	for i := 1; i < len(out); i++ {
		for j := i; j > 0 && out[j-1].Seq > out[j].Seq; j-- {
			out[j-1], out[j] = out[j], out[j-1]
		}
	}
	return out
}

// LogLines renders the last n records compactly (for replay files).
func (w *World) LogLines(n int) []string {
	l := w.Log()
	if n > 0 && len(l) > n {
		l = l[len(l)-n:]
	}
	out := make([]string, 0, len(l))
	for _, r := range l {
		b, _ := json.Marshal(r.Data)
		s := string(b)
		if len(s) > 400 {
			s = s[:400] + "..."
		}
		out = append(out, fmt.Sprintf("#%d +%dms %s %s", r.Seq, r.T, r.Kind, s))
	}
	return out
}

func (w *World) Probes() []ProbeRec {
	w.mu.Lock()
	defer w.mu.Unlock()
	return append([]ProbeRec(nil), w.probes...)
}

func (w *World) Events() []EventRec {
	w.mu.Lock()
	defer w.mu.Unlock()
	return append([]EventRec(nil), w.events...)
}

func (w *World) handleProbe(rw http.ResponseWriter, r *http.Request) {
	var p ProbeRec
	json.NewDecoder(r.Body).Decode(&p)
	p.Seq = w.tick()
	w.mu.Lock()
	w.probes = append(w.probes, p)
	h := w.OnProbe
	w.mu.Unlock()
	w.add(p.Seq, "probe", map[string]interface{}{"phase": p.Phase, "role": p.Role, "trigger": p.Trigger, "arg": p.Arg, "run": p.Vars["run_number"]})
	rep := ProbeReply{}
	if p.Phase == "start" && h != nil {
		rep = h(p)
	}
	json.NewEncoder(rw).Encode(rep)
}

func (w *World) handleEvent(rw http.ResponseWriter, r *http.Request) {
	var e EventRec
	json.NewDecoder(r.Body).Decode(&e)
	e.Seq = w.tick()
	w.mu.Lock()
	w.events = append(w.events, e)
	w.mu.Unlock()
	if e.Topic != "aliecs.core" {
		w.add(e.Seq, "event", map[string]interface{}{"topic": e.Topic, "ev": e.Ev})
	}
	rw.Write([]byte("{}"))
}

// StartCore launches (or relaunches) simcore against the same Consul and master.
// StartCore starts a core process; when the process dies before it serves its control port because one of the ports picked
// for it was taken by somebody else in the meantime (several checks share the machine), it is started again on fresh ports.
func (w *World) StartCore() error {
	var err error
	for attempt := 0; attempt < 4; attempt++ {
		err = w.startCoreOnce()
		if err == nil || !strings.Contains(err.Error(), "core exited during start") || !strings.Contains(err.Error(), "address already in use") {
			return err
		}
		w.Note("core start attempt %d lost a port to another process, retrying", attempt+1)
		time.Sleep(time.Duration(50*(attempt+1)) * time.Millisecond)
	}
	return err
}

func (w *World) startCoreOnce() error {
	bin := filepath.Join(os.Getenv("VERIF_BUILD"), "simcore")
	if w.opts.Race {
		bin += ".race"
	}
	if _, err := os.Stat(bin); err != nil {
		return fmt.Errorf("simcore binary missing: %v", err)
	}
	w.ctrl = freePort()
	w.coreN++
	args := []string{
		"--coreWorkingDir", filepath.Join(w.Dir, "work"),
		"--configServiceUri", "consul://" + w.Consul.Addr,
		"--mesosUrl", "http://" + w.Master.Addr + "/api/v1/scheduler",
		"--controlPort", fmt.Sprint(w.ctrl),
		"--executor", "/bin/true",
		"--enableKafka=false",
		"--metricsEndpoint", fmt.Sprintf("%d/ecsmetrics", freePort()),
	}
	args = append(args, w.opts.CoreFlags...)
	cmd := exec.Command(bin, args...)
	w.pprof = freePort()
	cmd.Env = append(os.Environ(), "VERIF_HARNESS="+w.hubAddr, fmt.Sprintf("VERIF_PPROF=127.0.0.1:%d", w.pprof), "GORACE=halt_on_error=0 log_path="+filepath.Join(w.Dir, "race"))
	w.coreLog = filepath.Join(w.Dir, fmt.Sprintf("core%d.log", w.coreN))
	lf, err := os.Create(w.coreLog)
	if err != nil {
		return err
	}
	cmd.Stdout, cmd.Stderr = lf, lf
	cmd.SysProcAttr = &syscall.SysProcAttr{Setpgid: true, Pdeathsig: syscall.SIGKILL}
	if err := cmd.Start(); err != nil {
		return err
	}
	lf.Close()
	w.core = cmd
	w.exited = make(chan struct{})
	go func(c *exec.Cmd, ch chan struct{}) { c.Wait(); close(ch) }(cmd, w.exited)
	var conn *grpc.ClientConn
	deadline := time.Now().Add(30 * time.Second)
	for time.Now().Before(deadline) {
		select {
		case <-w.exited:
			return fmt.Errorf("core exited during start: %s", w.CoreLogTail(2000))
		default:
		}
		ctx, cancel := context.WithTimeout(context.Background(), 300*time.Millisecond)
		conn, err = grpc.DialContext(ctx, fmt.Sprintf("127.0.0.1:%d", w.ctrl), grpc.WithTransportCredentials(insecure.NewCredentials()), grpc.WithBlock(),
			grpc.WithDefaultCallOptions(grpc.MaxCallRecvMsgSize(64<<20)))
		cancel()
		if err == nil {
			break
		}
		time.Sleep(50 * time.Millisecond)
	}
	if err != nil {
		return fmt.Errorf("core did not open its control port: %v", err)
	}
	w.conn = conn
	w.Cli = pb.NewControlClient(conn)
	// wait until the scheduler is subscribed (framework id known)
	for time.Now().Before(deadline) {
		ctx, cancel := context.WithTimeout(context.Background(), time.Second)
		fi, err := w.Cli.GetFrameworkInfo(ctx, &pb.GetFrameworkInfoRequest{})
		cancel()
		if err == nil && fi.GetFrameworkId() != "" {
			w.Note("core #%d ready, framework id %s", w.coreN, fi.GetFrameworkId())
			return nil
		}
		time.Sleep(50 * time.Millisecond)
	}
	return fmt.Errorf("core did not subscribe in time")
}

// CoreAlive reports whether the core process is still running.
func (w *World) CoreAlive() bool {
	select {
	case <-w.exited:
		return false
	default:
		return true
	}
}

// KillCore terminates the core with SIGKILL (crash) and waits for it.
func (w *World) KillCore() {
	if w.core != nil && w.core.Process != nil {
		w.Note("SIGKILL core #%d", w.coreN)
		syscall.Kill(-w.core.Process.Pid, syscall.SIGKILL)
		<-w.exited
	}
	if w.conn != nil {
		w.conn.Close()
	}
}

func (w *World) CoreLogTail(n int) string {
	b, err := os.ReadFile(w.coreLog)
	if err != nil {
		return ""
	}
	if len(b) > n {
		b = b[len(b)-n:]
	}
	return string(b)
}

// CoreCrash returns the panic / fatal error text if the core died on its own.
func (w *World) CoreCrash() string {
	if w.CoreAlive() {
		return ""
	}
	b, _ := os.ReadFile(w.coreLog)
	for _, marker := range []string{"fatal error:", "panic:"} {
		if i := bytes.Index(b, []byte(marker)); i >= 0 {
			end := i + 6000
			if end > len(b) {
				end = len(b)
			}
			return string(b[i:end])
		}
	}
	return "core exited: " + w.CoreLogTail(1500)
}

// Goroutines returns the core's goroutine dump (debug=2).
func (w *World) Goroutines() string {
	resp, err := http.Get(fmt.Sprintf("http://127.0.0.1:%d/debug/pprof/goroutine?debug=2", w.pprof))
	if err != nil {
		return ""
	}
	defer resp.Body.Close()
	var b bytes.Buffer
	b.ReadFrom(resp.Body)
	return b.String()
}

// RaceReports returns data race reports written by a -race core.
func (w *World) RaceReports() string {
	m, _ := filepath.Glob(filepath.Join(w.Dir, "race.*"))
	var sb strings.Builder
	for _, f := range m {
		b, _ := os.ReadFile(f)
		sb.Write(b)
	}
	return sb.String()
}

func (w *World) Close() {
	if w.core != nil && w.core.Process != nil && w.CoreAlive() {
		syscall.Kill(-w.core.Process.Pid, syscall.SIGKILL)
		<-w.exited
	}
	if w.conn != nil {
		w.conn.Close()
	}
	if w.hubSrv != nil {
		w.hubSrv.Close()
	}
	if w.Master != nil {
		w.Master.Close()
	}
	if w.Consul != nil {
		w.Consul.Close()
	}
	if os.Getenv("VERIF_KEEP") == "" {
		os.RemoveAll(w.Dir)
	}
}

// ---------------------------------------------------------------------------------------------
// workflow repository

func (w *World) WriteWorkflow(name, yaml string) error {
	return os.WriteFile(filepath.Join(w.RepoDir, "workflows", name+".yaml"), []byte(yaml), 0o644)
}

func (w *World) WriteTask(name, yaml string) error {
	return os.WriteFile(filepath.Join(w.RepoDir, "tasks", name+".yaml"), []byte(yaml), 0o644)
}

// ---------------------------------------------------------------------------------------------
// API helpers

func Ctx(d time.Duration) (context.Context, context.CancelFunc) {
	return context.WithTimeout(context.Background(), d)
}

func (w *World) NewEnv(wf string, vars map[string]string, d time.Duration) (*pb.EnvironmentInfo, error) {
	ctx, cancel := Ctx(d)
	defer cancel()
	s := w.Note("API NewEnvironment(%s)", wf)
	rep, err := w.Cli.NewEnvironment(ctx, &pb.NewEnvironmentRequest{WorkflowTemplate: wf, Vars: vars})
	w.Note("API NewEnvironment(%s) [#%d] -> state=%s id=%s err=%v", wf, s, rep.GetEnvironment().GetState(), rep.GetEnvironment().GetId(), err)
	return rep.GetEnvironment(), err
}

func (w *World) Control(id string, op pb.ControlEnvironmentRequest_Optype, d time.Duration) (*pb.ControlEnvironmentReply, error) {
	ctx, cancel := Ctx(d)
	defer cancel()
	s := w.Note("API ControlEnvironment(%s,%s)", id, op)
	rep, err := w.Cli.ControlEnvironment(ctx, &pb.ControlEnvironmentRequest{Id: id, Type: op})
	w.Note("API ControlEnvironment(%s,%s) [#%d] -> state=%s run=%d err=%v", id, op, s, rep.GetState(), rep.GetCurrentRunNumber(), err)
	return rep, err
}

func (w *World) Destroy(id string, force, allowRunning, keepTasks bool, d time.Duration) (*pb.DestroyEnvironmentReply, error) {
	ctx, cancel := Ctx(d)
	defer cancel()
	s := w.Note("API DestroyEnvironment(%s force=%v allowRunning=%v keep=%v)", id, force, allowRunning, keepTasks)
	rep, err := w.Cli.DestroyEnvironment(ctx, &pb.DestroyEnvironmentRequest{Id: id, Force: force, AllowInRunningState: allowRunning, KeepTasks: keepTasks})
	w.Note("API DestroyEnvironment(%s) [#%d] -> err=%v", id, s, err)
	return rep, err
}

func (w *World) GetEnv(id string, tree bool) (*pb.GetEnvironmentReply, error) {
	ctx, cancel := Ctx(10 * time.Second)
	defer cancel()
	return w.Cli.GetEnvironment(ctx, &pb.GetEnvironmentRequest{Id: id, ShowWorkflowTree: tree})
}

func (w *World) Envs() ([]*pb.EnvironmentInfo, error) {
	ctx, cancel := Ctx(10 * time.Second)
	defer cancel()
	r, err := w.Cli.GetEnvironments(ctx, &pb.GetEnvironmentsRequest{ShowAll: true})
	return r.GetEnvironments(), err
}

func (w *World) TasksAPI() ([]*pb.ShortTaskInfo, error) {
	ctx, cancel := Ctx(10 * time.Second)
	defer cancel()
	r, err := w.Cli.GetTasks(ctx, &pb.GetTasksRequest{})
	return r.GetTasks(), err
}

// WaitState polls GetEnvironment until the state is one of want, or the deadline passes.
func (w *World) WaitState(id string, d time.Duration, want ...string) (string, bool) {
	deadline := time.Now().Add(d)
	last := ""
	for time.Now().Before(deadline) {
		ge, err := w.GetEnv(id, false)
		if err == nil {
			last = ge.GetEnvironment().GetState()
			for _, s := range want {
				if last == s {
					return last, true
				}
			}
		} else {
			last = "ERR:" + err.Error()
		}
		time.Sleep(20 * time.Millisecond)
	}
	return last, false
}

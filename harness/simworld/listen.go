package simworld

import (
	"net"
	"strings"
	"time"
)

// Listen opens a loopback listener on a free port. When the machine has just run socket-heavy checks the ephemeral port
// range can be exhausted by connections in TIME_WAIT for up to a minute ("bind: address already in use" for port 0); that
// is a property of the sandbox, not of the code under test, so the call waits for ports to come back (up to two minutes).
func Listen() (net.Listener, error) {
	var err error
	for i := 0; i < 240; i++ {
		var ln net.Listener
		ln, err = net.Listen("tcp", "127.0.0.1:0")
		if err == nil {
			return ln, nil
		}
		if !strings.Contains(err.Error(), "address already in use") && !strings.Contains(err.Error(), "cannot assign") {
			return nil, err
		}
		time.Sleep(500 * time.Millisecond)
	}
	return nil, err
}

package simworld

import (
	"encoding/json"
	"fmt"
	"io"
	"net/http"
	"sort"
	"strings"
	"sync"
	"sync/atomic"
	"time"

	"github.com/AliceO2Group/Control/common/event"
	pbc "github.com/AliceO2Group/Control/executor/protos"
	mesos "github.com/mesos/mesos-go/api/v1/lib"
	"github.com/mesos/mesos-go/api/v1/lib/resources"
	"github.com/mesos/mesos-go/api/v1/lib/scheduler"
)

// Agent is one simulated Mesos agent / host.
type Agent struct {
	ID       string
	Hostname string
	Attrs    map[string]string
	CPU, Mem float64
	Ports    [][2]uint64
	Gone     bool
}

// Command is a control message as received by a simulated executor.
type Command struct {
	Seq         int64             `json:"-"`
	Name        string            `json:"name"`
	Id          string            `json:"id"`
	EnvId       string            `json:"environmentId"`
	Source      string            `json:"source"`
	Event       string            `json:"event"`
	Destination string            `json:"destination"`
	Arguments   map[string]string `json:"arguments"`
	TargetList  []struct {
		AgentId    mesos.AgentID
		ExecutorId mesos.ExecutorID
		TaskId     mesos.TaskID
	} `json:"targetList"`
	TaskID  string `json:"-"`
	AgentID string `json:"-"`
	ExecID  string `json:"-"`
}

// Reply is what the simulated executor does with a command.
type Reply struct {
	NoReply   bool          // stay silent
	State     string        // reported state ("" = destination on success, source on error)
	Error     string        // non-empty: error reply
	Delay     time.Duration // before replying
	Hold      *Gate         // block until opened before replying
	Duplicate bool          // send the reply twice
	ForeignID bool          // reply carries an unknown command id
	// Impostor: before this task's own reply, another executor (other agent and executor id) sends a success reply that names
	// this command and this task id. It is not the target's answer and must not complete or alter the command.
	Impostor bool
	Then     func() // called after the reply has been sent
}

// LaunchPlan says what a freshly launched task reports.
type LaunchPlan struct {
	States []mesos.TaskState // sequence of status updates; default [TASK_RUNNING]
	Delay  time.Duration
	Silent bool // never report anything
}

// KillPlan says how a KILL call is answered.
type KillPlan struct {
	RefuseHTTP int             // non-zero: the KILL call itself is answered with this HTTP status
	Silent     bool            // accept the call, never send an update
	State      mesos.TaskState // zero value (TASK_STARTING) means TASK_KILLED
	Delay      time.Duration
	CallDelay  time.Duration // the KILL call itself is answered this late (slow master): the caller blocks meanwhile
}

type SimTask struct {
	ID       string
	Name     string
	AgentID  string
	ExecID   string
	Hostname string
	EnvID    string // environment that launched it (label)
	Info     mesos.TaskInfo
	Cmd      map[string]interface{} // decoded TaskCommandInfo
	State    mesos.TaskState
	Terminal bool
	OfferID  string
	Launched int64 // seq
}

// CallRec is one scheduler call as received by the simulated master.
type CallRec struct {
	Seq      int64
	T        time.Duration
	Type     string
	TaskID   string   `json:",omitempty"`
	OfferIDs []string `json:",omitempty"`
	Launched []string `json:",omitempty"`
	Command  *Command `json:",omitempty"`
	FID      string   `json:",omitempty"`
	HTTP     int      `json:",omitempty"`
}

type OfferRec struct {
	Seq     int64
	Offer   mesos.Offer
	AgentID string
}

type FakeMaster struct {
	mu     sync.Mutex
	Addr   string
	clock  *int64
	t0     time.Time
	agents []*Agent
	tasks  map[string]*SimTask
	order  []string
	fid    string
	// current subscriber
	events   chan *scheduler.Event
	streamNo int
	drop     chan struct{}
	offerSeq int
	offers   map[string]*OfferRec
	calls    []CallRec
	uuidSeq  int64
	srv      *http.Server

	// behaviour hooks (called without the master lock held)
	OnLaunch func(t *SimTask) LaunchPlan
	// OfferDelay: offers are sent this long after the REVIVE call (a busy master)
	OfferDelay time.Duration
	OnCommand  func(t *SimTask, c *Command) Reply
	OnTrigger  func(t *SimTask, c *Command) Reply
	OnKill     func(t *SimTask) KillPlan
	// RefuseMessage: if set and returns non-zero, the MESSAGE call is answered with that HTTP status (undeliverable)
	RefuseMessage func(t *SimTask, c *Command) int
	// OfferFilter may drop agents from an offers round
	OfferFilter func(a *Agent) bool
	// Subscribed is signalled on every SUBSCRIBE
	Subscribed chan string
	// ReconcileAnswer: false = ignore RECONCILE calls
	NoReconcileAnswer bool
	// ReconcileBare: reconciliation answers are built the way the master builds the statuses it generates itself: no
	// executor id, no labels, no uuid (the optional fields an executor fills in).
	ReconcileBare bool
	// ReconcileDelay: the answers to a RECONCILE call are sent this much later (a busy master)
	ReconcileDelay time.Duration
	Log            func(kind string, seq int64, data interface{})
}

func NewFakeMaster(agents []*Agent, clock *int64) *FakeMaster {
	m := &FakeMaster{agents: agents, tasks: map[string]*SimTask{}, drop: make(chan struct{}, 8), clock: clock, t0: time.Now(),
		offers: map[string]*OfferRec{}, Subscribed: make(chan string, 64)}
	ln, err := Listen()
	if err != nil {
		panic(err)
	}
	m.Addr = ln.Addr().String()
	mux := http.NewServeMux()
	mux.HandleFunc("/api/v1/scheduler", m.handle)
	m.srv = &http.Server{Handler: mux}
	go m.srv.Serve(ln)
	return m
}

func (m *FakeMaster) Close() { m.srv.Close() }

func (m *FakeMaster) tick() int64 { return atomic.AddInt64(m.clock, 1) }

func (m *FakeMaster) logf(kind string, seq int64, data interface{}) {
	if m.Log != nil {
		m.Log(kind, seq, data)
	}
}

// Calls returns a copy of the call log.
func (m *FakeMaster) Calls() []CallRec {
	m.mu.Lock()
	defer m.mu.Unlock()
	return append([]CallRec(nil), m.calls...)
}

func (m *FakeMaster) FrameworkID() string {
	m.mu.Lock()
	defer m.mu.Unlock()
	return m.fid
}

// Tasks returns a snapshot of all tasks ever launched, in launch order.
func (m *FakeMaster) Tasks() []*SimTask {
	m.mu.Lock()
	defer m.mu.Unlock()
	out := make([]*SimTask, 0, len(m.order))
	for _, id := range m.order {
		c := *m.tasks[id]
		out = append(out, &c)
	}
	return out
}

func (m *FakeMaster) Task(id string) *SimTask {
	m.mu.Lock()
	defer m.mu.Unlock()
	t := m.tasks[id]
	if t == nil {
		return nil
	}
	c := *t
	return &c
}

func (m *FakeMaster) Offer(id string) *OfferRec {
	m.mu.Lock()
	defer m.mu.Unlock()
	return m.offers[id]
}

func (m *FakeMaster) Agents() []*Agent { return m.agents }

func (m *FakeMaster) send(ev *scheduler.Event) bool {
	m.mu.Lock()
	ch := m.events
	m.mu.Unlock()
	if ch == nil {
		return false
	}
	select {
	case ch <- ev:
		return true
	case <-time.After(5 * time.Second):
		return false
	}
}

func (m *FakeMaster) handle(w http.ResponseWriter, r *http.Request) {
	body, _ := io.ReadAll(r.Body)
	var call scheduler.Call
	if err := call.Unmarshal(body); err != nil {
		w.WriteHeader(400)
		return
	}
	rec := CallRec{Seq: m.tick(), T: time.Since(m.t0), Type: call.GetType().String()}
	status := 202
	switch call.GetType() {
	case scheduler.Call_SUBSCRIBE:
		fi := call.GetSubscribe().GetFrameworkInfo()
		rec.FID = fi.GetID().GetValue()
		m.record(rec)
		m.subscribe(w, r, &call)
		return
	case scheduler.Call_REVIVE:
		m.record(rec)
		go func(d time.Duration) {
			if d > 0 {
				time.Sleep(d)
			}
			m.SendOffers()
		}(m.OfferDelay)
	case scheduler.Call_ACCEPT:
		acc := call.GetAccept()
		for _, o := range acc.OfferIDs {
			rec.OfferIDs = append(rec.OfferIDs, o.Value)
		}
		var launched []mesos.TaskInfo
		for _, op := range acc.Operations {
			if op.Type == mesos.Offer_Operation_LAUNCH {
				for _, ti := range op.Launch.TaskInfos {
					rec.Launched = append(rec.Launched, ti.TaskID.Value)
					launched = append(launched, ti)
				}
			}
		}
		m.record(rec)
		oid := ""
		if len(rec.OfferIDs) > 0 {
			oid = rec.OfferIDs[0]
		}
		for _, ti := range launched {
			m.launch(ti, oid, rec.Seq)
		}
	case scheduler.Call_DECLINE:
		for _, o := range call.GetDecline().OfferIDs {
			rec.OfferIDs = append(rec.OfferIDs, o.Value)
		}
		m.record(rec)
	case scheduler.Call_KILL:
		k := call.GetKill()
		rec.TaskID = k.TaskID.Value
		t := m.Task(rec.TaskID)
		plan := KillPlan{}
		if t != nil && m.OnKill != nil {
			plan = m.OnKill(t)
		}
		if plan.RefuseHTTP != 0 {
			status = plan.RefuseHTTP
			rec.HTTP = status
		}
		m.record(rec)
		if plan.CallDelay > 0 {
			time.Sleep(plan.CallDelay)
		}
		if t != nil && plan.RefuseHTTP == 0 && !plan.Silent {
			go m.kill(rec.TaskID, plan)
		}
	case scheduler.Call_MESSAGE:
		msg := call.GetMessage()
		var cmd Command
		if err := json.Unmarshal(msg.Data, &cmd); err == nil {
			cmd.Seq = rec.Seq
			cmd.AgentID, cmd.ExecID = msg.AgentID.Value, msg.ExecutorID.Value
			if len(cmd.TargetList) > 0 {
				cmd.TaskID = cmd.TargetList[0].TaskId.Value
			}
			rec.Command = &cmd
			rec.TaskID = cmd.TaskID
			t := m.Task(cmd.TaskID)
			if t != nil && m.RefuseMessage != nil {
				if code := m.RefuseMessage(t, &cmd); code != 0 {
					status = code
					rec.HTTP = code
				}
			}
			m.record(rec)
			if status == 202 {
				go m.execMessage(&cmd)
			}
		} else {
			m.record(rec)
		}
	case scheduler.Call_RECONCILE:
		m.record(rec)
		if !m.NoReconcileAnswer {
			go m.reconcile()
		}
	default:
		m.record(rec)
	}
	w.WriteHeader(status)
}

func (m *FakeMaster) record(rec CallRec) {
	m.mu.Lock()
	m.calls = append(m.calls, rec)
	m.mu.Unlock()
	m.logf("call", rec.Seq, rec)
}

func (m *FakeMaster) subscribe(w http.ResponseWriter, r *http.Request, call *scheduler.Call) {
	fi := call.GetSubscribe().GetFrameworkInfo()
	m.mu.Lock()
	if fi.GetID() != nil && fi.GetID().Value != "" {
		m.fid = fi.GetID().Value
	} else if call.FrameworkID != nil && call.FrameworkID.Value != "" {
		m.fid = call.FrameworkID.Value
	} else {
		m.fid = fmt.Sprintf("fw-%d", time.Now().UnixNano())
	}
	ch := make(chan *scheduler.Event, 4096)
	m.events = ch
	m.streamNo++
	sid := fmt.Sprintf("stream-%d", m.streamNo)
	fid := m.fid
	// drain stale drop requests
	for len(m.drop) > 0 {
		<-m.drop
	}
	m.mu.Unlock()
	select {
	case m.Subscribed <- fi.GetID().GetValue():
	default:
	}

	w.Header().Set("Content-Type", "application/x-protobuf")
	w.Header().Set("Mesos-Stream-Id", sid)
	w.WriteHeader(200)
	fl := w.(http.Flusher)
	write := func(ev *scheduler.Event) error {
		b, err := ev.Marshal()
		if err != nil {
			return err
		}
		if _, err = fmt.Fprintf(w, "%d\n", len(b)); err != nil {
			return err
		}
		if _, err = w.Write(b); err != nil {
			return err
		}
		fl.Flush()
		return nil
	}
	hb := 15.0
	write(&scheduler.Event{Type: scheduler.Event_SUBSCRIBED, Subscribed: &scheduler.Event_Subscribed{
		FrameworkID: &mesos.FrameworkID{Value: fid}, HeartbeatIntervalSeconds: &hb}})
	defer func() {
		m.mu.Lock()
		if m.events == ch {
			m.events = nil
		}
		m.mu.Unlock()
	}()
	for {
		select {
		case ev := <-ch:
			if err := write(ev); err != nil {
				return
			}
		case <-m.drop:
			// sever the connection
			if hj, ok := w.(http.Hijacker); ok {
				if conn, _, err := hj.Hijack(); err == nil {
					conn.Close()
				}
			}
			return
		case <-r.Context().Done():
			return
		}
	}
}

// DropStream severs the subscription stream (the controller will resubscribe).
func (m *FakeMaster) DropStream() {
	m.logf("harness", m.tick(), "drop subscription stream")
	m.drop <- struct{}{}
}

func usedOn(m *FakeMaster, agentID string) (cpu, mem float64, ports map[uint64]bool, execs []string) {
	ports = map[uint64]bool{}
	seen := map[string]bool{}
	for _, id := range m.order {
		t := m.tasks[id]
		if t.AgentID != agentID || t.Terminal {
			continue
		}
		res := mesos.Resources(t.Info.Resources)
		if c, ok := resources.CPUs(res...); ok {
			cpu += c
		}
		if mm, ok := resources.Memory(res...); ok {
			mem += float64(mm)
		}
		if pr, ok := resources.Ports(res...); ok {
			for _, r := range pr {
				for p := r.Begin; p <= r.End; p++ {
					ports[p] = true
				}
			}
		}
		if !seen[t.ExecID] {
			seen[t.ExecID] = true
			execs = append(execs, t.ExecID)
		}
	}
	sort.Strings(execs)
	return
}

// SendOffers sends one offer per live agent with what is left on it.
func (m *FakeMaster) SendOffers() {
	m.mu.Lock()
	offers := []mesos.Offer{}
	for _, a := range m.agents {
		if a.Gone || (m.OfferFilter != nil && !m.OfferFilter(a)) {
			continue
		}
		m.offerSeq++
		names := make([]string, 0, len(a.Attrs))
		for k := range a.Attrs {
			names = append(names, k)
		}
		sort.Strings(names)
		attrs := []mesos.Attribute{}
		for _, k := range names {
			attrs = append(attrs, mesos.Attribute{Name: k, Type: mesos.TEXT, Text: &mesos.Value_Text{Value: a.Attrs[k]}})
		}
		ucpu, umem, uports, execs := usedOn(m, a.ID)
		res := mesos.Resources{}
		res.Add1(resources.NewCPUs(a.CPU - ucpu).Resource)
		res.Add1(resources.NewMemory(a.Mem - umem).Resource)
		rb := resources.BuildRanges()
		any := false
		for _, pr := range a.Ports {
			start := uint64(0)
			open := false
			for p := pr[0]; p <= pr[1]; p++ {
				if !uports[p] {
					if !open {
						start, open = p, true
					}
				} else if open {
					rb = rb.Span(start, p-1)
					any, open = true, false
				}
			}
			if open {
				rb = rb.Span(start, pr[1])
				any = true
			}
		}
		if any {
			res.Add1(resources.Build().Name(resources.Name("ports")).Ranges(rb.Ranges).Resource)
		}
		o := mesos.Offer{
			ID:          mesos.OfferID{Value: fmt.Sprintf("offer-%d", m.offerSeq)},
			FrameworkID: mesos.FrameworkID{Value: m.fid},
			AgentID:     mesos.AgentID{Value: a.ID},
			Hostname:    a.Hostname,
			Attributes:  attrs,
			Resources:   res,
		}
		for _, e := range execs {
			o.ExecutorIDs = append(o.ExecutorIDs, mesos.ExecutorID{Value: e})
		}
		seq := m.tick()
		m.offers[o.ID.Value] = &OfferRec{Seq: seq, Offer: o, AgentID: a.ID}
		offers = append(offers, o)
	}
	m.mu.Unlock()
	if len(offers) == 0 {
		return
	}
	m.logf("offers", m.tick(), len(offers))
	m.send(&scheduler.Event{Type: scheduler.Event_OFFERS, Offers: &scheduler.Event_Offers{Offers: offers}})
}

func (m *FakeMaster) statusFor(t *SimTask, st mesos.TaskState, reason *mesos.TaskStatus_Reason, src mesos.TaskStatus_Source, msg string) mesos.TaskStatus {
	n := atomic.AddInt64(&m.uuidSeq, 1)
	s := mesos.TaskStatus{
		TaskID:     t.Info.TaskID,
		State:      &st,
		AgentID:    &mesos.AgentID{Value: t.AgentID},
		ExecutorID: &mesos.ExecutorID{Value: t.ExecID},
		Source:     &src,
		Reason:     reason,
		UUID:       []byte(fmt.Sprintf("uuid-%d-%d", time.Now().UnixNano(), n)),
		Labels:     t.Info.Labels,
	}
	if msg != "" {
		s.Message = &msg
	}
	if m.ReconcileBare && reason != nil && *reason == mesos.REASON_RECONCILIATION {
		s.ExecutorID, s.Labels, s.UUID = nil, nil, nil
	}
	return s
}

func isTerminal(st mesos.TaskState) bool {
	switch st {
	case mesos.TASK_FINISHED, mesos.TASK_FAILED, mesos.TASK_KILLED, mesos.TASK_LOST, mesos.TASK_ERROR, mesos.TASK_DROPPED, mesos.TASK_GONE:
		return true
	}
	return false
}

// SendUpdate reports a status update for a task (from the executor unless src is given).
func (m *FakeMaster) SendUpdate(taskID string, st mesos.TaskState, reason *mesos.TaskStatus_Reason, src mesos.TaskStatus_Source) bool {
	m.mu.Lock()
	t := m.tasks[taskID]
	if t == nil {
		m.mu.Unlock()
		return false
	}
	if reason == nil || *reason != mesos.REASON_RECONCILIATION {
		t.State = st
		if isTerminal(st) {
			t.Terminal = true
		}
	}
	status := m.statusFor(t, st, reason, src, "")
	m.mu.Unlock()
	m.logf("update", m.tick(), map[string]interface{}{"task": taskID, "state": st.String(), "reason": fmt.Sprint(reason)})
	return m.send(&scheduler.Event{Type: scheduler.Event_UPDATE, Update: &scheduler.Event_Update{Status: status}})
}

func (m *FakeMaster) launch(ti mesos.TaskInfo, offerID string, seq int64) {
	t := &SimTask{ID: ti.TaskID.Value, Name: ti.Name, Info: ti, AgentID: ti.AgentID.Value, State: mesos.TASK_STAGING, OfferID: offerID, Launched: seq}
	if ti.Executor != nil {
		t.ExecID = ti.Executor.ExecutorID.Value
	}
	if ti.Labels != nil {
		for _, l := range ti.Labels.Labels {
			if l.Key == "environmentId" && l.Value != nil {
				t.EnvID = *l.Value
			}
		}
	}
	json.Unmarshal(ti.Data, &t.Cmd)
	m.mu.Lock()
	for _, a := range m.agents {
		if a.ID == t.AgentID {
			t.Hostname = a.Hostname
		}
	}
	m.tasks[t.ID] = t
	m.order = append(m.order, t.ID)
	m.mu.Unlock()
	plan := LaunchPlan{}
	if m.OnLaunch != nil {
		c := *t
		plan = m.OnLaunch(&c)
	}
	if plan.Silent {
		return
	}
	if len(plan.States) == 0 {
		plan.States = []mesos.TaskState{mesos.TASK_RUNNING}
	}
	go func() {
		d := plan.Delay
		if d == 0 {
			d = 5 * time.Millisecond
		}
		time.Sleep(d)
		for _, st := range plan.States {
			var reason *mesos.TaskStatus_Reason
			if st == mesos.TASK_FAILED || st == mesos.TASK_ERROR {
				r := mesos.REASON_EXECUTOR_TERMINATED
				reason = &r
			}
			m.SendUpdate(t.ID, st, reason, mesos.SOURCE_EXECUTOR)
		}
	}()
}

func (m *FakeMaster) kill(taskID string, plan KillPlan) {
	if plan.Delay > 0 {
		time.Sleep(plan.Delay)
	}
	st := plan.State
	if st == mesos.TASK_STARTING { // zero value: default answer
		st = mesos.TASK_KILLED
	}
	m.mu.Lock()
	t := m.tasks[taskID]
	already := t == nil || t.Terminal
	m.mu.Unlock()
	if already {
		// Mesos answers a KILL for a terminal task with the terminal state again; keep it simple: repeat it
		if t != nil {
			m.SendUpdate(taskID, t.State, nil, mesos.SOURCE_MASTER)
		}
		return
	}
	m.SendUpdate(taskID, st, nil, mesos.SOURCE_EXECUTOR)
}

func (m *FakeMaster) reconcile() {
	if d := m.ReconcileDelay; d > 0 {
		time.Sleep(d)
	}
	m.mu.Lock()
	ts := []*SimTask{}
	for _, id := range m.order {
		if t := m.tasks[id]; !t.Terminal {
			ts = append(ts, t)
		}
	}
	m.mu.Unlock()
	r := mesos.REASON_RECONCILIATION
	for _, t := range ts {
		m.SendUpdate(t.ID, t.State, &r, mesos.SOURCE_MASTER)
	}
}

// SendMessage delivers raw JSON from an executor to the framework.
func (m *FakeMaster) SendMessage(agentID, execID string, data []byte) bool {
	return m.send(&scheduler.Event{Type: scheduler.Event_MESSAGE, Message: &scheduler.Event_Message{
		AgentID: mesos.AgentID{Value: agentID}, ExecutorID: mesos.ExecutorID{Value: execID}, Data: data}})
}

func (m *FakeMaster) execMessage(cmd *Command) {
	t := m.Task(cmd.TaskID)
	if t == nil {
		return
	}
	var rep Reply
	switch cmd.Name {
	case "MesosCommand_Transition":
		if m.OnCommand != nil {
			rep = m.OnCommand(t, cmd)
		}
	case "MesosCommand_TriggerHook":
		if m.OnTrigger != nil {
			rep = m.OnTrigger(t, cmd)
		}
	default:
		return
	}
	if rep.Impostor && cmd.Name == "MesosCommand_Transition" {
		fake := map[string]interface{}{"name": cmd.Name, "id": cmd.Id, "environmentId": cmd.EnvId, "error": "", "_messageType": "MesosCommandResponse",
			"taskId": cmd.TaskID, "state": cmd.Destination}
		fb, _ := json.Marshal(fake)
		m.logf("impostor-reply", m.tick(), fake)
		m.SendMessage("agent-of-somebody-else", "executor-of-somebody-else", fb)
	}
	if rep.Hold != nil {
		rep.Hold.Wait()
	}
	if rep.Delay > 0 {
		time.Sleep(rep.Delay)
	}
	if rep.NoReply {
		if rep.Then != nil {
			rep.Then()
		}
		return
	}
	resp := map[string]interface{}{
		"name":          cmd.Name,
		"id":            cmd.Id,
		"environmentId": cmd.EnvId,
		"error":         rep.Error,
		"_messageType":  "MesosCommandResponse",
		"taskId":        cmd.TaskID,
	}
	if rep.ForeignID {
		resp["id"] = "c0ffee00000000000000"
	}
	if cmd.Name == "MesosCommand_Transition" {
		st := rep.State
		if st == "" {
			if rep.Error == "" {
				st = cmd.Destination
			} else {
				st = cmd.Source
			}
		}
		resp["state"] = st
	}
	b, _ := json.Marshal(resp)
	// causality: a task that is already terminal (or whose executor/agent was declared lost) cannot speak anymore
	if !m.sendFromTask(cmd.TaskID, cmd.AgentID, cmd.ExecID, b, resp) {
		return
	}
	if rep.Duplicate {
		m.SendMessage(cmd.AgentID, cmd.ExecID, b)
	}
	if rep.Then != nil {
		rep.Then()
	}
}

// sendFromTask delivers an executor message on behalf of a task unless the task is already gone; the liveness test and the
// hand-over to the event stream happen under the master lock, so a later failure injection is ordered after the message.
func (m *FakeMaster) sendFromTask(taskID, agentID, execID string, data []byte, logged interface{}) bool {
	m.mu.Lock()
	t := m.tasks[taskID]
	if t == nil || t.Terminal {
		m.mu.Unlock()
		m.logf("reply-dropped", m.tick(), map[string]string{"task": taskID, "why": "task is terminal / executor or agent lost"})
		return false
	}
	ch := m.events
	seq := m.tick()
	if ch != nil {
		select {
		case ch <- &scheduler.Event{Type: scheduler.Event_MESSAGE, Message: &scheduler.Event_Message{
			AgentID: mesos.AgentID{Value: agentID}, ExecutorID: mesos.ExecutorID{Value: execID}, Data: data}}:
		default:
		}
	}
	m.mu.Unlock()
	m.logf("reply", seq, logged)
	return ch != nil
}

// SendDeviceEvent emits a device event for a task, built with the repository's own event types.
func (m *FakeMaster) SendDeviceEvent(taskID string, typ pbc.DeviceEventType, fill func(ev event.DeviceEvent)) bool {
	t := m.Task(taskID)
	if t == nil {
		return false
	}
	deo := event.DeviceEventOrigin{AgentId: mesos.AgentID{Value: t.AgentID}, ExecutorId: mesos.ExecutorID{Value: t.ExecID}, TaskId: mesos.TaskID{Value: t.ID}}
	ev := event.NewDeviceEvent(deo, typ)
	if ev == nil {
		return false
	}
	ev.SetLabels(map[string]string{"environmentId": t.EnvID})
	if fill != nil {
		fill(ev)
	}
	b, err := json.Marshal(ev)
	if err != nil {
		return false
	}
	m.logf("device-event", m.tick(), map[string]interface{}{"task": taskID, "type": typ.String()})
	return m.SendMessage(t.AgentID, t.ExecID, b)
}

// FailExecutor reports the loss of an executor (all its tasks are gone as far as Mesos is concerned).
func (m *FakeMaster) FailExecutor(agentID, execID string) {
	m.mu.Lock()
	for _, t := range m.tasks {
		if t.AgentID == agentID && t.ExecID == execID && !t.Terminal {
			t.Terminal = true
			t.State = mesos.TASK_LOST
		}
	}
	m.mu.Unlock()
	st := int32(1)
	m.logf("failure", m.tick(), map[string]string{"agent": agentID, "executor": execID})
	m.send(&scheduler.Event{Type: scheduler.Event_FAILURE, Failure: &scheduler.Event_Failure{
		AgentID: &mesos.AgentID{Value: agentID}, ExecutorID: &mesos.ExecutorID{Value: execID}, Status: &st}})
}

// FailAgent reports the loss of a whole agent.
func (m *FakeMaster) FailAgent(agentID string) {
	m.mu.Lock()
	for _, a := range m.agents {
		if a.ID == agentID {
			a.Gone = true
		}
	}
	for _, t := range m.tasks {
		if t.AgentID == agentID && !t.Terminal {
			t.Terminal = true
			t.State = mesos.TASK_LOST
		}
	}
	m.mu.Unlock()
	m.logf("failure", m.tick(), map[string]string{"agent": agentID})
	m.send(&scheduler.Event{Type: scheduler.Event_FAILURE, Failure: &scheduler.Event_Failure{AgentID: &mesos.AgentID{Value: agentID}}})
}

// KillsFor returns the KILL calls received for a task.
func (m *FakeMaster) KillsFor(taskID string) []CallRec {
	var out []CallRec
	for _, c := range m.Calls() {
		if c.Type == "KILL" && c.TaskID == taskID {
			out = append(out, c)
		}
	}
	return out
}

func hasPrefix(s, p string) bool { return strings.HasPrefix(s, p) }

// AnnounceBasicTaskTerminated makes a (hook / basic) task announce its termination like the executor does:
// a BASIC_TASK_TERMINATED device event followed by the final status update.
func AnnounceBasicTaskTerminated(m *FakeMaster, taskID string, exitCode int, voluntary bool) {
	final := mesos.TASK_FINISHED
	if exitCode != 0 {
		final = mesos.TASK_FAILED
	}
	m.SendDeviceEvent(taskID, pbc.DeviceEventType_BASIC_TASK_TERMINATED, func(ev event.DeviceEvent) {
		if btt, ok := ev.(*event.BasicTaskTerminated); ok {
			btt.ExitCode = exitCode
			btt.VoluntaryTermination = voluntary
			btt.FinalMesosState = final
		}
	})
	m.SendUpdate(taskID, final, nil, mesos.SOURCE_EXECUTOR)
}

// OfferCount returns the number of offers sent so far (offer ids are offer-1 … offer-N).
func (m *FakeMaster) OfferCount() int {
	m.mu.Lock()
	defer m.mu.Unlock()
	return m.offerSeq
}

// OfferIDsSince lists the ids of the offers sent after the first n.
func (m *FakeMaster) OfferIDsSince(n int) []string {
	m.mu.Lock()
	defer m.mu.Unlock()
	var out []string
	for i := n + 1; i <= m.offerSeq; i++ {
		id := fmt.Sprintf("offer-%d", i)
		if _, ok := m.offers[id]; ok {
			out = append(out, id)
		}
	}
	return out
}

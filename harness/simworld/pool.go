package simworld

import (
	"fmt"
	"strings"
	"sync"
	"time"

	pb "github.com/AliceO2Group/Control/core/protos"
)

// DefaultAgents: three hosts, one detector each.
func DefaultAgents() ([]*Agent, map[string]string) {
	mk := func(id, host string) *Agent {
		return &Agent{ID: id, Hostname: host, Attrs: map[string]string{"machine_id": host}, CPU: 16, Mem: 32768, Ports: [][2]uint64{{9000, 40000}}}
	}
	return []*Agent{mk("agent-a", "hosta"), mk("agent-b", "hostb"), mk("agent-c", "hostc")},
		map[string]string{"hosta": "ITS", "hostb": "TPC", "hostc": "TOF"}
}

var (
	poolMu    sync.Mutex
	poolWorld *World
	poolKey   string
	poolUses  int
)

// Shared returns a world for the given options, reusing the previous one when it is still
// healthy, was built with the same options key and has been used fewer than maxUses times.
func Shared(key string, maxUses int, mk func() Options) (*World, error) {
	poolMu.Lock()
	defer poolMu.Unlock()
	if poolWorld != nil && (poolKey != key || poolUses >= maxUses || !poolWorld.CoreAlive() || !poolWorld.Recycle()) {
		poolWorld.Close()
		poolWorld = nil
	}
	if poolWorld == nil {
		w, err := NewWorld(mk())
		if err != nil {
			return nil, err
		}
		poolWorld, poolKey, poolUses = w, key, 0
	}
	poolUses++
	poolWorld.resetHooks()
	return poolWorld, nil
}

// Discard closes the shared world (after a violation or a crash).
func Discard() {
	poolMu.Lock()
	defer poolMu.Unlock()
	if poolWorld != nil {
		poolWorld.Close()
		poolWorld = nil
	}
}

func (w *World) resetHooks() {
	w.mu.Lock()
	w.OnProbe = nil
	w.mu.Unlock()
	m := w.Master
	m.OnLaunch, m.OnCommand, m.OnTrigger, m.OnKill, m.RefuseMessage, m.OfferFilter = nil, nil, nil, nil, nil, nil
	m.NoReconcileAnswer = false
}

// Recycle removes every environment and task left over by the previous case; false = the world is not clean.
func (w *World) Recycle() bool {
	w.resetHooks()
	envs, err := w.Envs()
	if err != nil {
		return false
	}
	for _, e := range envs {
		ctx, cancel := Ctx(20 * time.Second)
		_, err := w.Cli.DestroyEnvironment(ctx, &pb.DestroyEnvironmentRequest{Id: e.Id, Force: true, AllowInRunningState: true})
		cancel()
		if err != nil {
			return false
		}
	}
	ctx, cancel := Ctx(20 * time.Second)
	_, err = w.Cli.CleanupTasks(ctx, &pb.CleanupTasksRequest{})
	cancel()
	if err != nil {
		return false
	}
	envs, err = w.Envs()
	if err != nil || len(envs) != 0 {
		return false
	}
	ts, err := w.TasksAPI()
	if err != nil || len(ts) != 0 {
		return false
	}
	w.Note("---- world recycled ----")
	return true
}

// ClassOf extracts the task class name from a simulated task (TaskInfo.Name is "<repo>/tasks/<class>@<rev>#<id>").
func ClassOf(t *SimTask) string {
	n := t.Name
	if i := strings.LastIndex(n, "/tasks/"); i >= 0 {
		n = n[i+len("/tasks/"):]
	}
	if i := strings.Index(n, "@"); i >= 0 {
		n = n[:i]
	}
	return n
}

// TaskClassYAML renders a minimal task template.
func TaskClassYAML(name, mode string, extra string) string {
	return fmt.Sprintf("name: %s\ncontrol:\n  mode: %s\nwants:\n  cpu: 0.1\n  memory: 64\ncommand:\n  shell: true\n  value: \"sleep 1000\"\n%s", name, mode, extra)
}

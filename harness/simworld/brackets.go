package simworld

import (
	"fmt"
)

// EnvEvent is a forwarded Ev_EnvironmentEvent in world order.
type EnvEvent struct {
	Seq        int64
	Env        string
	State      string
	Transition string
	Step       string
	Message    string
	Error      string
	Run        float64
}

// EnvEvents extracts the environment events of one environment (all if env == "").
func (w *World) EnvEvents(env string) []EnvEvent {
	var out []EnvEvent
	for _, e := range w.Events() {
		if e.Topic != "aliecs.environment" {
			continue
		}
		id, _ := e.Ev["environmentId"].(string)
		if env != "" && id != env {
			continue
		}
		ee := EnvEvent{Seq: e.Seq, Env: id}
		ee.State, _ = e.Ev["state"].(string)
		ee.Transition, _ = e.Ev["transition"].(string)
		ee.Step, _ = e.Ev["transitionStep"].(string)
		ee.Message, _ = e.Ev["message"].(string)
		ee.Error, _ = e.Ev["error"].(string)
		ee.Run, _ = e.Ev["runNumber"].(float64)
		out = append(out, ee)
	}
	return out
}

// Bracket is one transition (or teardown) of an environment as delimited by the core's own events.
type Bracket struct {
	Event    string // DEPLOY, CONFIGURE, ..., GO_ERROR, DESTROY
	Open     int64
	Close    int64
	Result   string // ok | error | impossible | open (never closed)
	Error    string
	SrcState string // state reported when the bracket opened
	EndState string // state reported when it closed
	Steps    []string
	Windows  []StepWin
}

// StepWin is one moment of a transition as delimited by the core's "transition step starting/finished" events.
type StepWin struct {
	Name  string
	Start int64
	End   int64 // 0 = never finished
	Error string
}

// ParseBrackets delimits transitions and teardowns; the second result lists structural
// violations (nesting, steps outside their bracket, activity after DONE).
func ParseBrackets(evs []EnvEvent) ([]Bracket, []string) {
	var out []Bracket
	var viol []string
	var cur *Bracket
	done := false
	closeCur := func(seq int64, res, errs, st string) {
		cur.Close, cur.Result, cur.Error, cur.EndState = seq, res, errs, st
		out = append(out, *cur)
		cur = nil
	}
	for _, e := range evs {
		if e.Transition == "CREATE" || e.Transition == "" {
			continue
		}
		if done && (e.Transition == "DESTROY" || e.Step != "") {
			// requests arriving after DONE may still be refused (bracket without steps); anything else is activity after the end
			viol = append(viol, fmt.Sprintf("#%d: %s step %q (%s) after the environment reached DONE", e.Seq, e.Transition, e.Step, e.Message))
			continue
		}
		if e.Transition == "DESTROY" {
			if cur != nil && cur.Event != "DESTROY" {
				viol = append(viol, fmt.Sprintf("#%d: teardown event (%s) while transition %s (opened #%d) is in progress", e.Seq, e.Message, cur.Event, cur.Open))
				closeCur(e.Seq, "open", "", e.State)
			}
			if cur == nil {
				cur = &Bracket{Event: "DESTROY", Open: e.Seq, SrcState: e.State}
			}
			cur.Steps = append(cur.Steps, e.Step)
			if e.State == "DONE" {
				res := "ok"
				if e.Error != "" {
					res = "error"
				}
				closeCur(e.Seq, res, e.Error, "DONE")
				done = e.Message == "environment teardown complete"
			}
			continue
		}
		switch e.Message {
		case "transition starting":
			if cur != nil {
				viol = append(viol, fmt.Sprintf("#%d: transition %s starts while %s (opened #%d) is still in progress", e.Seq, e.Transition, cur.Event, cur.Open))
				closeCur(e.Seq, "open", "", e.State)
			}
			cur = &Bracket{Event: e.Transition, Open: e.Seq, SrcState: e.State}
		case "transition completed successfully", "transition error", "transition impossible":
			if cur == nil || cur.Event != e.Transition {
				viol = append(viol, fmt.Sprintf("#%d: end of transition %s without a matching start", e.Seq, e.Transition))
				continue
			}
			res := "ok"
			if e.Message == "transition error" {
				res = "error"
			} else if e.Message == "transition impossible" {
				res = "impossible"
			}
			closeCur(e.Seq, res, e.Error, e.State)
		default:
			if cur == nil || cur.Event != e.Transition {
				open := "none"
				if cur != nil {
					open = cur.Event
				}
				viol = append(viol, fmt.Sprintf("#%d: step %s of transition %s outside its own transition (in progress: %s)", e.Seq, e.Step, e.Transition, open))
				continue
			}
			if e.Message == "transition step starting" {
				cur.Steps = append(cur.Steps, e.Step)
				cur.Windows = append(cur.Windows, StepWin{Name: e.Step, Start: e.Seq})
			} else if e.Message == "transition step finished" {
				for i := len(cur.Windows) - 1; i >= 0; i-- {
					if cur.Windows[i].Name == e.Step && cur.Windows[i].End == 0 {
						cur.Windows[i].End = e.Seq
						cur.Windows[i].Error = e.Error
						break
					}
				}
			}
		}
	}
	if cur != nil {
		cur.Result = "open"
		out = append(out, *cur)
	}
	return out, viol
}

// documented environment graph
var envEdges = map[string]string{
	"STANDBY>DEPLOYED": "DEPLOY", "DEPLOYED>CONFIGURED": "CONFIGURE", "CONFIGURED>RUNNING": "START_ACTIVITY",
	"RUNNING>CONFIGURED": "STOP_ACTIVITY", "CONFIGURED>DEPLOYED": "RESET",
}

// CheckStateSequence verifies that consecutive distinct reported states form edges of the documented graph.
func CheckStateSequence(evs []EnvEvent) string {
	prev := ""
	for _, e := range evs {
		s := e.State
		if s == "" || s == prev {
			continue
		}
		if prev != "" && prev != "PENDING" {
			_, edge := envEdges[prev+">"+s]
			switch {
			case edge:
			case s == "ERROR" && prev != "DONE":
			case s == "DONE":
			default:
				return fmt.Sprintf("#%d: reported state changes %s -> %s, which is not an edge of the documented graph (event: %s %s %s)", e.Seq, prev, s, e.Transition, e.Step, e.Message)
			}
		}
		prev = s
	}
	return ""
}

// LegalFrom tells whether event ev is legal in state s by the documented graph.
func LegalFrom(ev, s string) (dst string, ok bool) {
	switch ev {
	case "DEPLOY":
		return "DEPLOYED", s == "STANDBY"
	case "CONFIGURE":
		return "CONFIGURED", s == "DEPLOYED"
	case "START_ACTIVITY":
		return "RUNNING", s == "CONFIGURED"
	case "STOP_ACTIVITY":
		return "CONFIGURED", s == "RUNNING"
	case "RESET":
		return "DEPLOYED", s == "CONFIGURED"
	case "GO_ERROR":
		return "ERROR", s == "STANDBY" || s == "DEPLOYED" || s == "CONFIGURED" || s == "RUNNING"
	}
	return "", false
}

// OpenTransition returns the transition of env that has started and not yet finished according to the forwarded events ("" if none).
func (w *World) OpenTransition(env string) string {
	evs := w.EnvEvents(env)
	for i := len(evs) - 1; i >= 0; i-- {
		switch evs[i].Message {
		case "transition completed successfully", "transition error", "transition impossible":
			return ""
		case "transition starting":
			return evs[i].Transition
		}
		if evs[i].Transition == "DESTROY" {
			return "DESTROY"
		}
	}
	return ""
}
